import Mimium.Proofs.CstGrammarRank
/-!
# Soundness of the termination analysis of `Proofs/CstGrammarRank.lean`

`go_complete`: with `need t s = rankBound · (#syntax tokens − cursor) + rank t (peek s)`, every run `go n t s` with `need t s < n`
is complete (no fuel ran out below it) and every larger fuel gives the same state.  One induction on the fuel; inside, one
induction on the body (`chk_sound`) with the abstract states of the analysis as the invariant.
-/
namespace Mimium.Grammar
open Mimium.Gen (Kind)

variable (E : Env)

/-- number of syntax tokens -/
def len : Nat := E.idx.size

/-! ## The cursor never moves back, and the kinds only change when it moves -/

structure Mono (s s' : St) : Prop where
  cur : s.b.current ≤ s'.b.current
  kinds : s'.b.current = s.b.current → s'.kinds = s.kinds

theorem Mono.refl (s : St) : Mono s s := ⟨Nat.le_refl _, fun _ => rfl⟩

theorem Mono.trans {s s' s'' : St} (h1 : Mono s s') (h2 : Mono s' s'') : Mono s s'' :=
  ⟨Nat.le_trans h1.cur h2.cur, fun h => by
    have a := h1.cur; have b := h2.cur
    have e1 : s'.b.current = s.b.current := by omega
    have e2 : s''.b.current = s'.b.current := by omega
    rw [h2.kinds e2, h1.kinds e1]⟩

theorem cst_exec_current (C : Cst.Env) (b : Cst.PState) (o : Cst.Op) :
    (Cst.exec C b o).current = if o = .bump then b.current + 1 else b.current := by
  cases o with
  | startNode k => simp [Cst.exec]
  | startNodeAt p k => simp only [Cst.exec]; split <;> simp
  | finishNode => simp only [Cst.exec]; split <;> simp
  | noop => simp [Cst.exec]
  | bump =>
    simp only [Cst.exec, if_true]
    split
    · rfl
    · split <;> rfl

@[simp] theorem prim_kinds (s : St) (o : Cst.Op) : (prim E s o).kinds = s.kinds := rfl
@[simp] theorem prim_oof (s : St) (o : Cst.Op) : (prim E s o).oof = s.oof := rfl
@[simp] theorem prim_errs (s : St) (o : Cst.Op) : (prim E s o).errs = s.errs := rfl
@[simp] theorem addErr_b (s : St) (e : ErrSpec) : (addErr E s e).b = s.b := rfl
@[simp] theorem addErr_kinds (s : St) (e : ErrSpec) : (addErr E s e).kinds = s.kinds := rfl
@[simp] theorem addErr_oof (s : St) (e : ErrSpec) : (addErr E s e).oof = s.oof := rfl
@[simp] theorem relabel_b (s : St) (k : Kind) : (relabel E s k).b = s.b := by
  unfold relabel; split <;> rfl
@[simp] theorem relabel_oof (s : St) (k : Kind) : (relabel E s k).oof = s.oof := by
  unfold relabel; split <;> rfl

theorem prim_current (s : St) (o : Cst.Op) :
    (prim E s o).b.current = if o = .bump then s.b.current + 1 else s.b.current :=
  cst_exec_current E.cst s.b o

theorem prim_mono (s : St) (o : Cst.Op) : Mono s (prim E s o) :=
  ⟨by rw [prim_current]; split <;> omega, fun _ => rfl⟩

theorem exec_mono (rec : Tag → St → St) (hrec : ∀ t s, Mono s (rec t s)) : ∀ (c : Cmd) (s : St), Mono s (exec E rec c s) := by
  intro c
  induction c with
  | skip => intro s; exact Mono.refl s
  | seq c d ihc ihd => intro s; exact (ihc s).trans (ihd _)
  | ite c t e iht ihe => intro s; simp only [exec]; split; exact iht s; exact ihe s
  | node k c ih =>
    intro s; simp only [exec]
    exact ((prim_mono E s _).trans (ih _)).trans (prim_mono E _ _)
  | nodeAtB k c ih =>
    intro s; simp only [exec]
    exact ((prim_mono E s _).trans (ih _)).trans (prim_mono E _ _)
  | bump => intro s; exact prim_mono E s _
  | bumpAs r =>
    intro s; simp only [exec]
    refine ⟨?_, ?_⟩
    · rw [prim_current]; simp
    · rw [prim_current]; simp
  | err e => intro s; exact ⟨Nat.le_refl _, fun _ => rfl⟩
  | call t => intro s; exact ⟨(hrec t s).cur, (hrec t s).kinds⟩
  | callA t a =>
    intro s
    have h := hrec t { s with ra := evalA E s a }
    exact ⟨h.cur, h.kinds⟩
  | setBMarker => intro s; exact ⟨Nat.le_refl _, fun _ => rfl⟩
  | setBMarkerPred => intro s; exact ⟨Nat.le_refl _, fun _ => rfl⟩
  | progress c r e ihc ihe =>
    intro s; simp only [exec]
    split
    · refine (ihc s).trans ?_
      have h := prim_mono E (addErr E (exec E rec c s) (.syntax r)) .bump
      exact ⟨h.cur, h.kinds⟩
    · exact (ihc s).trans (ihe _)

theorem go_mono : ∀ (n : Nat) (t : Tag) (s : St), Mono s (go E n t s)
  | 0, _, s => ⟨Nat.le_refl _, fun _ => rfl⟩
  | n + 1, t, s => exec_mono E (go E n) (go_mono n) (body t) s

/-! ## Facts about `peek` -/

theorem peek_none_of_len_le (s : St) (h : len E ≤ s.b.current) : peek E s = none := by
  have : E.idx[s.b.current]? = none := by
    rw [Array.getElem?_eq_none_iff]; simpa [len] using h
  simp [peek, peekAhead, this]

theorem peek_some_lt (s : St) (k : Kind) (h : peek E s = some k) : s.b.current < len E := by
  by_cases hl : len E ≤ s.b.current
  · rw [peek_none_of_len_le E s hl] at h; cases h
  · omega

theorem peek_congr (s s' : St) (hc : s'.b.current = s.b.current) (hk : s'.kinds = s.kinds) : peek E s' = peek E s := by
  simp only [peek, peekAhead, hc, hk]

theorem mem_allPK (p : PK) : p ∈ allPK := by
  cases p with
  | none => simp [allPK]
  | some k =>
    have : k ∈ Mimium.Gen.allKinds := by cases k <;> decide
    simp [allPK, this]

/-! ## `may` over-approximates `evalCond` -/

theorem may_sound (s : St) : ∀ c : Cond,
    (evalCond E s c = true → (may c (peek E s)).1 = true) ∧ (evalCond E s c = false → (may c (peek E s)).2 = true) := by
  intro c
  induction c with
  | peekIn n ks =>
    cases n with
    | zero =>
      cases hp : peek E s with
      | none =>
        have : peekAhead E s 0 = none := hp
        simp [evalCond, may, this]
      | some k =>
        have : peekAhead E s 0 = some k := hp
        simp [evalCond, may, this]
    | succ n => simp [may]
  | peekNone n =>
    cases n with
    | zero =>
      cases hp : peek E s with
      | none => have : peekAhead E s 0 = none := hp; simp [evalCond, may, this]
      | some k => have : peekAhead E s 0 = some k := hp; simp [evalCond, may, this]
    | succ n => simp [may]
  | atEnd =>
    cases hp : peek E s with
    | none => have : peekAhead E s 0 = none := hp; simp [evalCond, isAtEnd, may, this]
    | some k => have : peekAhead E s 0 = some k := hp; simp [evalCond, isAtEnd, may, this]
  | nl => simp [may]
  | isInfix =>
    cases hp : peek E s with
    | none => have : peekAhead E s 0 = none := hp; simp [evalCond, may, this]
    | some k => have : peekAhead E s 0 = some k := hp; simp [evalCond, may, this]
  | infixBelowA =>
    cases hp : peek E s with
    | none => have : peekAhead E s 0 = none := hp; simp [evalCond, may, this]
    | some k =>
      have : peekAhead E s 0 = some k := hp
      simp only [evalCond, may, this, and_true, implies_true]
      cases hi : infixPrec k <;> simp
  | aZero => simp [may]
  | prevAdjOp => simp [may]
  | look l => simp [may]
  | neg c ih =>
    simp only [evalCond, may]
    constructor
    · intro h; simp at h; exact ih.2 h
    · intro h; simp at h; exact ih.1 h
  | both c d ihc ihd =>
    simp only [evalCond, may]
    constructor
    · intro h; simp at h; simp [ihc.1 h.1, ihd.1 h.2]
    · intro h
      cases hc : evalCond E s c with
      | false => simp [ihc.2 hc]
      | true => rw [hc] at h; simp at h; simp [ihd.2 h]
  | either c d ihc ihd =>
    simp only [evalCond, may]
    constructor
    · intro h
      cases hc : evalCond E s c with
      | true => simp [ihc.1 hc]
      | false => rw [hc] at h; simp at h; simp [ihd.1 h]
    · intro h; simp at h; simp [ihc.2 h.1, ihd.2 h.2]

/-! ## Meaning of the abstract states (relative to the state `s0` in which the function was entered) -/

def Sem (s0 s : St) : Abs → Prop
  | .adv => s0.b.current < s.b.current ∧ s0.b.current < len E
  | .ge pk => s0.b.current ≤ s.b.current ∧ (s.b.current = s0.b.current → s.kinds = s0.kinds) ∧
      ((s.b.current = s0.b.current ∨ len E ≤ s0.b.current) → peek E s ∈ pk)

theorem Sem.of_adv {s0 s : St} (pk : List PK) (h : Sem E s0 s .adv) : Sem E s0 s (.ge pk) := by
  obtain ⟨h1, h2⟩ := h
  exact ⟨by omega, fun e => by omega, fun e => by omega⟩

theorem Sem.join_left {s0 s : St} {a : Abs} (b : Abs) (h : Sem E s0 s a) : Sem E s0 s (a.join b) := by
  cases a with
  | adv => cases b with
    | adv => exact h
    | ge q => exact Sem.of_adv E q h
  | ge p => cases b with
    | adv => exact h
    | ge q =>
      obtain ⟨h1, h2, h3⟩ := h
      exact ⟨h1, h2, fun e => List.mem_append_left _ (h3 e)⟩

theorem Sem.join_right {s0 s : St} (a : Abs) {b : Abs} (h : Sem E s0 s b) : Sem E s0 s (a.join b) := by
  cases a with
  | adv => cases b <;> exact h
  | ge p => cases b with
    | adv => exact Sem.of_adv E p h
    | ge q =>
      obtain ⟨h1, h2, h3⟩ := h
      exact ⟨h1, h2, fun e => List.mem_append_right _ (h3 e)⟩

theorem Sem.refine {s0 s : St} {a : Abs} (c : Cond) (b : Bool) (h : Sem E s0 s a) (hc : evalCond E s c = b) :
    Sem E s0 s (a.refine c b) := by
  cases a with
  | adv => exact h
  | ge pk =>
    obtain ⟨h1, h2, h3⟩ := h
    refine ⟨h1, h2, fun e => ?_⟩
    rw [List.mem_filter]
    refine ⟨h3 e, ?_⟩
    cases b with
    | true => simpa using (may_sound E s c).1 hc
    | false => simpa using (may_sound E s c).2 hc

/-- registers and the error list are invisible to `Sem` -/
theorem Sem.congr {s0 s s' : St} {a : Abs} (h : Sem E s0 s a) (hb : s'.b = s.b) (hk : s'.kinds = s.kinds) : Sem E s0 s' a := by
  have hp : peek E s' = peek E s := peek_congr E s s' (by rw [hb]) hk
  cases a with
  | adv => simpa [Sem, hb] using h
  | ge pk => simpa [Sem, hb, hk, hp] using h

theorem Sem.moved {s0 s s' : St} {a : Abs} (h : Sem E s0 s a) (hlt : s.b.current < s'.b.current) : Sem E s0 s' a.moved := by
  cases a with
  | adv => obtain ⟨h1, h2⟩ := h; exact ⟨by omega, h2⟩
  | ge pk =>
    obtain ⟨h1, h2, h3⟩ := h
    simp only [Abs.moved]
    split
    · refine ⟨by omega, fun e => by omega, fun e => ?_⟩
      have hl : len E ≤ s0.b.current := by omega
      rw [peek_none_of_len_le E s' (by omega)]; simp
    · rename_i hn
      refine ⟨by omega, ?_⟩
      by_cases hl : len E ≤ s0.b.current
      · have := h3 (Or.inr hl)
        rw [peek_none_of_len_le E s (by omega)] at this
        exact absurd (by simpa using this) hn
      · omega

theorem Sem.after {s0 s s' : St} {a : Abs} (h : Sem E s0 s a) (hm : Mono s s') : Sem E s0 s' a := by
  cases a with
  | adv => obtain ⟨h1, h2⟩ := h; exact ⟨by have := hm.cur; omega, h2⟩
  | ge pk =>
    obtain ⟨h1, h2, h3⟩ := h
    have hc := hm.cur
    refine ⟨by omega, fun e => ?_, fun e => ?_⟩
    · have e1 : s'.b.current = s.b.current := by omega
      rw [hm.kinds e1, h2 (by omega)]
    · rcases e with e | e
      · have e1 : s'.b.current = s.b.current := by omega
        rw [peek_congr E s s' e1 (hm.kinds e1)]
        exact h3 (Or.inl (by omega))
      · rw [peek_none_of_len_le E s' (by omega)]
        have := h3 (Or.inr e)
        rwa [peek_none_of_len_le E s (by omega)] at this

theorem Sem.afterCall {s0 s s' : St} {a : Abs} (t' : Tag) (h : Sem E s0 s a) (hm : Mono s s')
    (hadv : ∀ k, peek E s = some k → (advSet t').contains k = true → s.b.current < s'.b.current) :
    Sem E s0 s' (a.afterCall t') := by
  have h' := Sem.after E h hm
  cases a with
  | adv => exact h'
  | ge pk =>
    obtain ⟨h1, h2, h3⟩ := h'
    refine ⟨h1, h2, fun e => ?_⟩
    rw [List.mem_filter]
    refine ⟨h3 e, ?_⟩
    cases hp : peek E s' with
    | none => rfl
    | some k =>
      simp only [Bool.not_eq_true']
      cases hk : (advSet t').contains k with
      | false => rfl
      | true =>
        exfalso
        have hlt' := peek_some_lt E s' k hp
        have hc := hm.cur
        have hs0 := h.1
        rcases e with e | e
        · have e1 : s'.b.current = s.b.current := by omega
          have := hadv k (by rw [← peek_congr E s s' e1 (hm.kinds e1)]; exact hp) hk
          omega
        · omega

theorem Sem.isAdv {s0 s : St} {a : Abs} (h : Sem E s0 s a) (ha : a.isAdv = true) : s0.b.current < s.b.current := by
  cases a with
  | adv => exact h.1
  | ge pk =>
    obtain ⟨h1, _, h3⟩ := h
    simp only [Abs.isAdv, List.isEmpty_iff] at ha
    subst ha
    by_cases e : s.b.current = s0.b.current
    · exact absurd (h3 (Or.inl e)) (by simp)
    · omega

/-! ## The measure -/

/-- `rankBound · (tokens left) + rank`: what a call of `t` in state `s` may cost in fuel -/
def need (t : Tag) (s : St) : Nat := rankBound * (len E - s.b.current) + rank t (peek E s)

theorem lo_le (t : Tag) : lo t ≤ 2 := by cases t <;> decide
theorem hi_le (t : Tag) : hi t ≤ 21 := by cases t <;> decide

theorem rank_lt (t : Tag) (p : PK) : rank t p < rankBound := by
  have a := lo_le t; have b := hi_le t
  unfold rank rankBound
  cases p with
  | none => simp only; omega
  | some k => simp only; split <;> omega

theorem edge_need {t t' : Tag} {a : Abs} {s0 s : St} (he : edgeOk t t' a = true) (hs : Sem E s0 s a) :
    need E t' s < need E t s0 := by
  have r1 := rank_lt t' (peek E s)
  unfold need
  unfold rankBound at *
  have key : s0.b.current < s.b.current → s0.b.current < len E →
      22 * (len E - s.b.current) + rank t' (peek E s) < 22 * (len E - s0.b.current) + rank t (peek E s0) := by
    intro h1 h2; omega
  cases a with
  | adv => exact key hs.1 hs.2
  | ge pk =>
    obtain ⟨h1, h2, h3⟩ := hs
    simp only [edgeOk, List.all_eq_true, decide_eq_true_eq] at he
    by_cases e : s.b.current = s0.b.current
    · have hp : peek E s = peek E s0 := peek_congr E s0 s e (h2 e)
      have := he _ (h3 (Or.inl e))
      rw [e, ← hp]; omega
    · by_cases hl : len E ≤ s0.b.current
      · have hp : peek E s = none := peek_none_of_len_le E s (by omega)
        have hp0 : peek E s0 = none := peek_none_of_len_le E s0 hl
        have := he _ (h3 (Or.inr hl))
        rw [hp] at this ⊢; rw [hp0]
        have e1 : len E - s.b.current = 0 := by omega
        have e2 : len E - s0.b.current = 0 := by omega
        rw [e1, e2]; omega
      · exact key (by omega) (by omega)

/-! ## Soundness of the analysis -/

/-- the run of tag `t` from `s` with fuel `n` is complete: every larger fuel gives the same state, no fuel ran out below it,
and entered on a token of `advSet t` it has consumed a token -/
def Complete (n : Nat) (t : Tag) (s : St) : Prop :=
  (∀ m, n ≤ m → go E m t s = go E n t s) ∧ (go E n t s).oof = s.oof ∧
  (∀ k, peek E s = some k → (advSet t).contains k = true → s.b.current < (go E n t s).b.current)

theorem chk_sound (n : Nat) (t : Tag) (s0 : St)
    (IH : ∀ t' s', need E t' s' < need E t s0 → Complete E n t' s') :
    ∀ (c : Cmd) (a a' : Abs) (s : St), chk t c a = some a' → Sem E s0 s a →
      (∀ m, n ≤ m → exec E (go E m) c s = exec E (go E n) c s) ∧ (exec E (go E n) c s).oof = s.oof ∧
      Sem E s0 (exec E (go E n) c s) a' := by
  intro c
  induction c with
  | skip =>
    intro a a' s h hs
    simp only [chk, Option.some.injEq] at h; subst h
    exact ⟨fun _ _ => rfl, rfl, hs⟩
  | seq c d ihc ihd =>
    intro a a' s h hs
    simp only [chk] at h
    split at h
    · rename_i a1 h1
      obtain ⟨c1, c2, c3⟩ := ihc a a1 s h1 hs
      obtain ⟨d1, d2, d3⟩ := ihd a1 a' _ h c3
      refine ⟨fun m hm => ?_, ?_, d3⟩
      · simp only [exec]; rw [c1 m hm, d1 m hm]
      · simp only [exec] at d2 ⊢; rw [d2, c2]
    · cases h
  | ite c x y ihx ihy =>
    intro a a' s h hs
    simp only [chk] at h
    split at h
    · rename_i r1 r2 h1 h2
      simp only [Option.some.injEq] at h; subst h
      cases hc : evalCond E s c with
      | true =>
        obtain ⟨x1, x2, x3⟩ := ihx _ r1 s h1 (Sem.refine E c true hs hc)
        refine ⟨fun m hm => ?_, ?_, ?_⟩
        · simp only [exec, hc, if_true]; exact x1 m hm
        · simp only [exec, hc, if_true]; exact x2
        · simp only [exec, hc, if_true]; exact Sem.join_left E r2 x3
      | false =>
        obtain ⟨y1, y2, y3⟩ := ihy _ r2 s h2 (Sem.refine E c false hs hc)
        refine ⟨fun m hm => ?_, ?_, ?_⟩
        · simp only [exec, hc]; exact y1 m hm
        · simp only [exec, hc]; exact y2
        · simp only [exec, hc]; exact Sem.join_right E r1 y3
    · cases h
  | node k c ih =>
    intro a a' s h hs
    simp only [chk] at h
    have hs1 : Sem E s0 (prim E s (.startNode k.toNat)) a :=
      Sem.after E hs ⟨by rw [prim_current]; simp, fun _ => rfl⟩
    obtain ⟨c1, c2, c3⟩ := ih a a' _ h hs1
    refine ⟨fun m hm => ?_, ?_, ?_⟩
    · simp only [exec]; rw [c1 m hm]
    · simp only [exec, prim_oof] at c2 ⊢; exact c2
    · simp only [exec]
      exact Sem.after E c3 ⟨by rw [prim_current]; simp, fun _ => rfl⟩
  | nodeAtB k c ih =>
    intro a a' s h hs
    simp only [chk] at h
    have hs1 : Sem E s0 (prim E s (.startNodeAt s.rb k.toNat)) a :=
      Sem.after E hs ⟨by rw [prim_current]; simp, fun _ => rfl⟩
    obtain ⟨c1, c2, c3⟩ := ih a a' _ h hs1
    refine ⟨fun m hm => ?_, ?_, ?_⟩
    · simp only [exec]; rw [c1 m hm]
    · simp only [exec, prim_oof] at c2 ⊢; exact c2
    · simp only [exec]
      exact Sem.after E c3 ⟨by rw [prim_current]; simp, fun _ => rfl⟩
  | bump =>
    intro a a' s h hs
    simp only [chk, Option.some.injEq] at h; subst h
    refine ⟨fun _ _ => rfl, rfl, ?_⟩
    simp only [exec]
    exact Sem.moved E hs (by rw [prim_current]; simp)
  | bumpAs r =>
    intro a a' s h hs
    simp only [chk, Option.some.injEq] at h; subst h
    refine ⟨fun _ _ => rfl, by simp [exec], ?_⟩
    simp only [exec]
    exact Sem.moved E hs (by rw [prim_current]; simp)
  | err e =>
    intro a a' s h hs
    simp only [chk, Option.some.injEq] at h; subst h
    exact ⟨fun _ _ => rfl, rfl, Sem.congr E hs rfl rfl⟩
  | call t' =>
    intro a a' s h hs
    simp only [chk] at h
    split at h
    · rename_i he
      simp only [Option.some.injEq] at h; subst h
      obtain ⟨k1, k2, k3⟩ := IH t' s (edge_need E he hs)
      refine ⟨fun m hm => ?_, ?_, ?_⟩
      · simp only [exec]; rw [k1 m hm]
      · simp only [exec]; exact k2
      · simp only [exec]
        exact Sem.congr E (Sem.afterCall E t' hs (go_mono E n t' s) k3) rfl rfl
    · cases h
  | callA t' x =>
    intro a a' s h hs
    simp only [chk] at h
    split at h
    · rename_i he
      simp only [Option.some.injEq] at h; subst h
      have hs' : Sem E s0 { s with ra := evalA E s x } a := Sem.congr E hs rfl rfl
      obtain ⟨k1, k2, k3⟩ := IH t' { s with ra := evalA E s x } (edge_need E he hs')
      refine ⟨fun m hm => ?_, ?_, ?_⟩
      · simp only [exec]; rw [k1 m hm]
      · simp only [exec]; exact k2
      · simp only [exec]
        exact Sem.congr E (Sem.afterCall E t' hs' (go_mono E n t' _) k3) rfl rfl
    · cases h
  | setBMarker =>
    intro a a' s h hs
    simp only [chk, Option.some.injEq] at h; subst h
    exact ⟨fun _ _ => rfl, rfl, Sem.congr E hs rfl rfl⟩
  | setBMarkerPred =>
    intro a a' s h hs
    simp only [chk, Option.some.injEq] at h; subst h
    exact ⟨fun _ _ => rfl, rfl, Sem.congr E hs rfl rfl⟩
  | progress c r e ihc ihe =>
    intro a a' s h hs
    simp only [chk] at h
    split at h
    · cases h
    · rename_i a1 h1
      split at h
      · cases h
      · rename_i r2 h2
        simp only [Option.some.injEq] at h; subst h
        obtain ⟨c1, c2, c3⟩ := ihc a a1 s h1 hs
        have hmono : Mono s (exec E (go E n) c s) := exec_mono E (go E n) (go_mono E n) c s
        by_cases hb : ((exec E (go E n) c s).b.current = s.b.current && !isAtEnd E (exec E (go E n) c s)) = true
        · -- no progress: error + bump
          have hend : evalCond E (exec E (go E n) c s) .atEnd = false := by
            simp only [Bool.and_eq_true, Bool.not_eq_true', decide_eq_true_eq] at hb
            simpa [evalCond] using hb.2
          have hs2 := Sem.refine E .atEnd false c3 hend
          refine ⟨fun m hm => ?_, ?_, ?_⟩
          · simp only [exec]; rw [c1 m hm]; simp only [if_pos hb]
          · simp only [exec]; rw [if_pos hb]; simpa using c2
          · simp only [exec]; rw [if_pos hb]
            refine Sem.join_left E r2 ?_
            exact Sem.moved E hs2 (by rw [prim_current]; simp)
        · have hs2 : Sem E s0 (exec E (go E n) c s) ((a1.refine .atEnd true).join a.moved) := by
            by_cases hend : isAtEnd E (exec E (go E n) c s) = true
            · exact Sem.join_left E _ (Sem.refine E .atEnd true c3 (by simpa [evalCond] using hend))
            · have hne : (exec E (go E n) c s).b.current ≠ s.b.current := by
                intro e; apply hb; simp [e, hend]
              have := hmono.cur
              exact Sem.join_right E _ (Sem.moved E hs (by omega))
          obtain ⟨e1, e2, e3⟩ := ihe _ r2 _ h2 hs2
          refine ⟨fun m hm => ?_, ?_, ?_⟩
          · simp only [exec]; rw [c1 m hm]; simp only [if_neg hb]; exact e1 m hm
          · simp only [exec]; rw [if_neg hb, e2, c2]
          · simp only [exec]; rw [if_neg hb]
            exact Sem.join_right E _ e3

/-- the analysis accepts every body of the port (evaluated by the kernel) -/
theorem all_tags_ok : ∀ t : Tag, tagOk t = true := by
  intro t; cases t <;> decide +kernel

theorem go_complete : ∀ (n : Nat) (t : Tag) (s : St), need E t s < n → Complete E n t s := by
  intro n
  induction n with
  | zero => intro t s h; omega
  | succ n ih =>
    intro t s hn
    have hok := all_tags_ok t
    simp only [tagOk, Bool.and_eq_true, Option.isSome_iff_exists] at hok
    obtain ⟨⟨a1, h1⟩, h2⟩ := hok
    have IH : ∀ t' s', need E t' s' < need E t s → Complete E n t' s' := fun t' s' h => ih t' s' (by omega)
    have hs : Sem E s s (.ge allPK) := ⟨Nat.le_refl _, fun _ => rfl, fun _ => mem_allPK _⟩
    obtain ⟨c1, c2, _⟩ := chk_sound E n t s IH (body t) _ a1 s h1 hs
    refine ⟨fun m hm => ?_, c2, fun k hp hk => ?_⟩
    · cases m with
      | zero => omega
      | succ m => exact c1 m (by omega)
    · split at h2
      · rename_i a2 h2'
        have hs2 : Sem E s s (.ge ((advSet t).map some)) :=
          ⟨Nat.le_refl _, fun _ => rfl, fun _ => by
            rw [hp]; exact List.mem_map.mpr ⟨k, by simpa using hk, rfl⟩⟩
        obtain ⟨_, _, d3⟩ := chk_sound E n t s IH (body t) _ a2 s h2' hs2
        exact Sem.isAdv E d3 h2
      · cases h2

/-- `Parser::parse` with any fuel above `fuelBound (#syntax tokens)` computes the same complete result -/
theorem parse_fuel (kinds : Array Kind) (fuel : Nat) (h : fuelBound (len E) ≤ fuel) :
    parse E fuel kinds = parse E (fuelBound (len E)) kinds ∧ (parse E fuel kinds).oof = false := by
  let s1 := prim E (init kinds) (.startNode Mimium.Gen.SK.Program.toNat)
  have hneed : need E .programLoop s1 < fuelBound (len E) := by
    have := rank_lt .programLoop (peek E s1)
    have hc : s1.b.current = 0 := by simp [s1, prim_current, init]
    unfold need fuelBound at *
    rw [hc]
    have : rank Tag.programLoop (peek E s1) ≤ 10 := by
      unfold rank; cases peek E s1 <;> simp [first, hi]
    unfold rankBound at *
    omega
  obtain ⟨k1, k2, _⟩ := go_complete E _ .programLoop s1 hneed
  refine ⟨?_, ?_⟩
  · simp only [parse]; rw [k1 fuel h]
  · simp only [parse, prim_oof]; rw [k1 fuel h, k2]; rfl

end Mimium.Grammar
