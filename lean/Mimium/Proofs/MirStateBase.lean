import Mimium.Model.MirState
import Mimium.Proofs.MirCfg
/-! Basic facts for the soundness of `stateOkFn`: traces shift with the base, state instructions are `vmStep`, every other
instruction leaves the current storage and its trace alone. -/
namespace Mimium.Mir
open Mimium.StateMachine Mimium.Layout Mimium.StateTree Mimium.RustGen

mutual
theorem expected_shift : ∀ (sk : Sk) (o b : Nat), expectedTrace sk (o + b) = (expectedTrace sk o).map (shiftAcc b)
  | .mem s, o, b => by simp [expectedTrace, shiftAcc]
  | .delay n, o, b => by simp [expectedTrace, shiftAcc]
  | .feed s, o, b => by simp [expectedTrace]
  | .fn [], o, b => by simp [expectedTrace, expectedTraceL]
  | .fn (.feed s :: rest), o, b => by
    simp only [expectedTrace, List.map_append, List.map_cons, List.map_nil, shiftAcc]
    rw [show o + b + s = (o + s) + b by omega, expectedL_shift rest (o + s) b]
  | .fn (.mem s :: rest), o, b => by
    simp only [expectedTrace]; exact expectedL_shift (.mem s :: rest) o b
  | .fn (.delay n :: rest), o, b => by
    simp only [expectedTrace]; exact expectedL_shift (.delay n :: rest) o b
  | .fn (.fn cs :: rest), o, b => by
    simp only [expectedTrace]; exact expectedL_shift (.fn cs :: rest) o b
theorem expectedL_shift : ∀ (cs : List Sk) (o b : Nat), expectedTraceL cs (o + b) = (expectedTraceL cs o).map (shiftAcc b)
  | [], o, b => by simp [expectedTraceL]
  | c :: cs, o, b => by
    simp only [expectedTraceL, List.map_append]
    rw [expected_shift c o b, show o + b + c.size = (o + c.size) + b by omega, expectedL_shift cs (o + c.size) b]
end

theorem expected_at (sk : Sk) (b : Nat) : expectedTrace sk b = (expectedTrace sk 0).map (shiftAcc b) := by
  have := expected_shift sk 0 b
  rwa [Nat.zero_add] at this

theorem shiftAcc_shiftAcc (a b : Nat) (x : Access) : shiftAcc b (shiftAcc a x) = shiftAcc (a + b) x := by
  simp [shiftAcc, Nat.add_assoc]

/-! ### state instructions -/

theorem stateOp_ok {s s' : MSt} {op : SOp} {out : List UInt64} (h : stateOp s op = .ok (s', out)) :
    s'.fr = s.fr ∧ s'.g = s.g ∧ s'.tr = s.tr ++ accessOf s.st op ∧ vmStep s.st op = some (s'.st, out) := by
  unfold stateOp at h
  cases hv : vmStep s.st op with
  | none => simp [hv] at h
  | some p =>
    obtain ⟨st', o⟩ := p
    simp only [hv, Except.ok.injEq, Prod.mk.injEq] at h
    obtain ⟨h1, h2⟩ := h
    subst h1; subst h2
    exact ⟨rfl, rfl, rfl, rfl⟩

theorem vmStep_push {st st' : St} {k : Nat} {out} (h : vmStep st (.push k) = some (st', out)) : st'.pos = st.pos + k := by
  simp only [vmStep, Option.some.injEq, Prod.mk.injEq] at h
  rw [← h.1]

theorem vmStep_pop {st st' : St} {k : Nat} {out} (h : vmStep st (.pop k) = some (st', out)) :
    k ≤ st.pos ∧ st'.pos = st.pos - k := by
  simp only [vmStep] at h
  split at h
  · rename_i hk
    simp only [Option.some.injEq, Prod.mk.injEq] at h
    exact ⟨hk, by rw [← h.1]⟩
  · simp at h

theorem vmStep_get {st st' : St} {n : Nat} {out} (h : vmStep st (.get n) = some (st', out)) : st'.pos = st.pos := by
  simp only [vmStep] at h
  split at h
  · simp only [Option.some.injEq, Prod.mk.injEq] at h; rw [← h.1]
  · simp at h

theorem vmStep_set {st st' : St} {ws : List UInt64} {out} (h : vmStep st (.set ws) = some (st', out)) : st'.pos = st.pos := by
  simp only [vmStep] at h
  split at h
  · simp only [Option.some.injEq, Prod.mk.injEq] at h; rw [← h.1]
  · simp at h

theorem vmStep_mem {st st' : St} {x : UInt64} {out} (h : vmStep st (.mem x) = some (st', out)) : st'.pos = st.pos := by
  simp only [vmStep] at h
  split at h
  · simp only [Option.some.injEq, Prod.mk.injEq] at h; rw [← h.1]
  · simp at h

theorem vmStep_delay {st st' : St} {len : Nat} {x t : UInt64} {out} (h : vmStep st (.delay len x t) = some (st', out)) :
    st'.pos = st.pos := by
  simp only [vmStep] at h
  split at h
  · simp only [Option.some.injEq, Prod.mk.injEq] at h; rw [← h.1]
  · split at h
    · simp only [Option.some.injEq, Prod.mk.injEq] at h; rw [← h.1]
    · simp at h

/-! ### everything else -/

/-- instructions that go through `stepRest` -/
def Ins.plain : Ins → Bool
  | .push .. | .pop .. | .getState .. | .mem .. | .delay .. => false
  | .call _ (.reg _) _ _ => false
  | _ => true

theorem stepIns_plain_eq (callF : CallF) (P : Prog) (i : Ins) (s : MSt) (h : i.plain = true) :
    stepIns callF P i s = (stepRest callF P i s.rest).map s.withRest := by
  cases i with
  | call dst f args nret =>
    cases f <;> first | (simp [Ins.plain] at h; done) | (simp only [stepIns]; cases stepRest callF P _ s.rest <;> rfl)
  | _ => first | (simp [Ins.plain] at h; done) | (simp only [stepIns]; cases stepRest callF P _ s.rest <;> rfl)

theorem stepIns_plain {callF : CallF} {P : Prog} {i : Ins} {s s' : MSt} (h : i.plain = true)
    (hs : stepIns callF P i s = .ok s') : s'.st = s.st ∧ s'.tr = s.tr := by
  rw [stepIns_plain_eq callF P i s h] at hs
  cases hr : stepRest callF P i s.rest with
  | error e => simp [hr, Except.map] at hs
  | ok r =>
    simp only [hr, Except.map, Except.ok.injEq] at hs
    subst hs
    exact ⟨rfl, rfl⟩

theorem moveM_st (d src : Nat) (s : MSt) : (moveM d src s).st = s.st ∧ (moveM d src s).tr = s.tr := by
  unfold moveM
  split
  · split <;> exact ⟨rfl, rfl⟩
  · exact ⟨rfl, rfl⟩

end Mimium.Mir
