import Mimium.Proofs.ModResLetPriv
/-!
# C17: moving ANY item (function or `let`, in any module) across items that do not touch its name

`ModuleInfo` is built by a fold over the walk; maps are first-match association lists, so moving an item reorders them.
`Info.Equiv` = the resolver cannot tell two `ModuleInfo`s apart (same lookups).  This file shows
* `step` and `convertExpr` respect `Info.Equiv` (`step_equiv`, `convertExpr_equiv`),
* the `step` of a binder item (key `K`) commutes, up to `Info.Equiv`, with the `step` of every event that is
  independent of `K` (`Ev.indep`: another binder with a different key, a module opening, a `use` whose paths and
  exported names are not `K`),
* hence `lowerInfo (A ++ ev :: B ++ C) ≈ lowerInfo (A ++ B ++ ev :: C)` (`lowerInfo_moved`) and the resolution at `ev` is the
  same at both places (`siteResult_moved`).
-/
namespace Mimium.ModRes

/-! ### `ModuleInfo`s with the same lookups -/

structure Info.Equiv (i j : Info) : Prop where
  vis : ∀ k, get? i.vis k = get? j.vis k
  ctx : ∀ k, get? i.ctxMap k = get? j.ctxMap k
  alias : i.alias = j.alias
  wild : i.wild = j.wild
  loaded : i.loaded = j.loaded
  fileErrs : i.fileErrs = j.fileErrs

theorem Info.Equiv.refl (i : Info) : Info.Equiv i i := ⟨fun _ => rfl, fun _ => rfl, rfl, rfl, rfl, rfl⟩

theorem Info.Equiv.of_eq {i j : Info} (h : i = j) : Info.Equiv i j := h ▸ Info.Equiv.refl i

theorem Info.Equiv.symm {i j : Info} (h : Info.Equiv i j) : Info.Equiv j i :=
  ⟨fun k => (h.vis k).symm, fun k => (h.ctx k).symm, h.alias.symm, h.wild.symm, h.loaded.symm, h.fileErrs.symm⟩

theorem Info.Equiv.trans {i j l : Info} (h1 : Info.Equiv i j) (h2 : Info.Equiv j l) : Info.Equiv i l :=
  ⟨fun k => (h1.vis k).trans (h2.vis k), fun k => (h1.ctx k).trans (h2.ctx k), h1.alias.trans h2.alias,
   h1.wild.trans h2.wild, h1.loaded.trans h2.loaded, h1.fileErrs.trans h2.fileErrs⟩

theorem get?_cons {α : Type} (p : Sym × α) (l : List (Sym × α)) (k : Sym) :
    get? (p :: l) k = if p.1 = k then some p.2 else get? l k := by
  obtain ⟨a, b⟩ := p; rfl

theorem get?_cons_congr {α : Type} (p : Sym × α) {l l' : List (Sym × α)} (h : ∀ k, get? l k = get? l' k) (k : Sym) :
    get? (p :: l) k = get? (p :: l') k := by
  rw [get?_cons, get?_cons, h]

theorem get?_swap {α : Type} (a b : Sym × α) (l : List (Sym × α)) (h : a.1 ≠ b.1) (k : Sym) :
    get? (a :: b :: l) k = get? (b :: a :: l) k := by
  simp only [get?_cons]
  by_cases h1 : a.1 = k <;> by_cases h2 : b.1 = k <;> simp [h1, h2]
  exact absurd (h1.trans h2.symm) h

theorem has_equiv {i j : Info} (h : Info.Equiv i j) (n : Sym) : i.has n = j.has n := by
  unfold Info.has
  rw [h.vis, h.alias, h.ctx]

theorem resolveQualifiedPath_congr (segs abs cur : List Name) (ex ex' : Sym → Bool) (h1 : ex abs = ex' abs)
    (h2 : ex (cur ++ segs) = ex' (cur ++ segs)) :
    resolveQualifiedPath segs abs cur ex = resolveQualifiedPath segs abs cur ex' := by
  unfold resolveQualifiedPath
  rw [h1, h2]

theorem resolveUseMangled_equiv {i j : Info} (h : Info.Equiv i j) (segs pre : List Name) :
    resolveUseMangled segs pre i = resolveUseMangled segs pre j := by
  unfold resolveUseMangled
  rw [resolveQualifiedPath_congr segs segs pre i.has j.has (has_equiv h _) (has_equiv h _)]

theorem registerAlias_equiv {i j : Info} (h : Info.Equiv i j) (pub : Bool) (pre : List Name) (a : Name) (m : Sym) :
    Info.Equiv (registerAlias i pub pre a m) (registerAlias j pub pre a m) := by
  unfold registerAlias
  cases pub with
  | false =>
    simp only [Bool.false_eq_true, ↓reduceIte]
    exact ⟨h.vis, h.ctx, by simp [h.alias], h.wild, h.loaded, h.fileErrs⟩
  | true =>
    simp only [↓reduceIte, h.vis m, h.vis (pre ++ [a])]
    refine ⟨?_, h.ctx, by simp [h.alias], h.wild, h.loaded, h.fileErrs⟩
    split
    · exact h.vis
    · exact get?_cons_congr _ h.vis

theorem processUse_equiv {i j : Info} (h : Info.Equiv i j) (pub : Bool) (path : List Name) (t : UseTarget)
    (pre : List Name) : Info.Equiv (processUse pub path t pre i) (processUse pub path t pre j) := by
  unfold processUse
  cases t with
  | single =>
    simp only
    split
    · rw [resolveUseMangled_equiv h]; exact registerAlias_equiv h ..
    · exact h
  | wildcard => exact ⟨h.vis, h.ctx, h.alias, by simp [h.wild], h.loaded, h.fileErrs⟩
  | multiple names =>
    simp only
    induction names generalizing i j with
    | nil => exact h
    | cons n rest ih =>
      simp only [List.foldl_cons]
      apply ih
      rw [resolveUseMangled_equiv h]
      exact registerAlias_equiv h ..

/-- the bookkeeping of `loaded_external_modules` that a `use` does first -/
def useLoaded (i : Info) (pre path : List Name) : Info :=
  match path.head? with
  | some base =>
    if i.loaded.contains (pre ++ [base]) || i.loaded.contains [base] then i
    else { i with loaded := [base] :: i.loaded, fileErrs := i.fileErrs + 1 }
  | none => i

theorem step_use_eq (i : Info) (pre : List Name) (pub : Bool) (path : List Name) (t : UseTarget) :
    step i (.use pre pub path t) = processUse pub path t pre (useLoaded i pre path) := rfl

theorem useLoaded_equiv {i j : Info} (h : Info.Equiv i j) (pre path : List Name) :
    Info.Equiv (useLoaded i pre path) (useLoaded j pre path) := by
  unfold useLoaded
  split
  · rw [h.loaded]
    split
    · exact h
    · exact ⟨h.vis, h.ctx, h.alias, h.wild, rfl, by simp [h.fileErrs]⟩
  · exact h

/-- `step` cannot tell equivalent `ModuleInfo`s apart -/
theorem step_equiv {i j : Info} (h : Info.Equiv i j) (ev : Ev) : Info.Equiv (step i ev) (step j ev) := by
  cases ev with
  | fn pre pub x ps b =>
    refine ⟨get?_cons_congr _ h.vis, ?_, h.alias, h.wild, h.loaded, h.fileErrs⟩
    simp only [step]
    split
    · exact h.ctx
    · exact get?_cons_congr _ h.ctx
  | letS pre pub x e =>
    refine ⟨h.vis, ?_, h.alias, h.wild, h.loaded, h.fileErrs⟩
    simp only [step]
    split
    · exact h.ctx
    · exact get?_cons_congr _ h.ctx
  | modOpen pre x => exact ⟨h.vis, h.ctx, h.alias, h.wild, by simp [step, h.loaded], h.fileErrs⟩
  | use pre pub path t =>
    rw [step_use_eq, step_use_eq]
    exact processUse_equiv (useLoaded_equiv h pre path) ..

theorem foldl_step_equiv (evs : List Ev) : ∀ {i j : Info}, Info.Equiv i j →
    Info.Equiv (evs.foldl step i) (evs.foldl step j) := by
  induction evs with
  | nil => intro i j h; exact h
  | cons ev rest ih => intro i j h; exact ih (step_equiv h ev)

/-! ### the resolver cannot tell them apart either -/

theorem convertVar_equiv {i j : Info} (h : Info.Equiv i j) (known : Sym → Bool) (cur : List Name)
    (ls : List (List Sym)) (s : Sym) : convertVar ⟨i, known, cur, ls⟩ s = convertVar ⟨j, known, cur, ls⟩ s := by
  have hw : resolveThroughWildcards ⟨i, known, cur, ls⟩ s = resolveThroughWildcards ⟨j, known, cur, ls⟩ s := by
    unfold resolveThroughWildcards
    simp only [h.wild, h.vis]
  have hp : ∀ key path, privErr cur i.vis key path = privErr cur j.vis key path := by
    intro key path; unfold privErr; rw [h.vis]
  unfold convertVar
  simp only [RCtx.isLocallyBound, h.alias, hw, hp]

theorem convertQVar_equiv {i j : Info} (h : Info.Equiv i j) (known : Sym → Bool) (cur : List Name)
    (ls : List (List Sym)) (segs : List Name) :
    convertQVar ⟨i, known, cur, ls⟩ segs = convertQVar ⟨j, known, cur, ls⟩ segs := by
  have hp : ∀ key path, privErr cur i.vis key path = privErr cur j.vis key path := by
    intro key path; unfold privErr; rw [h.vis]
  unfold convertQVar
  simp only [h.alias, h.vis, hp]

theorem convertExpr_equiv {i j : Info} (h : Info.Equiv i j) (known : Sym → Bool) (e : Expr) :
    ∀ cur ls, convertExpr i known cur ls e = convertExpr j known cur ls e := by
  induction e with
  | unit => intros; rfl
  | lit k => intros; rfl
  | var s => intro cur ls; simp only [convertExpr, convertVar_equiv h]
  | qvar segs => intro cur ls; simp only [convertExpr, convertQVar_equiv h]
  | call f ih => intro cur ls; simp only [convertExpr, ih]
  | letE x e t ihe iht => intro cur ls; simp only [convertExpr, ihe, iht, h.ctx]
  | lam ps b ih => intro cur ls; simp only [convertExpr, ih]
  | letrec f e t ihe iht => intro cur ls; simp only [convertExpr, ihe, iht, h.ctx]

theorem siteCtx_equiv {i j : Info} (h : Info.Equiv i j) (key : Sym) (d : List Name) :
    siteCtx i key d = siteCtx j key d := by
  unfold siteCtx; rw [h.ctx]

/-! ### the `step` of a binder item, and what it commutes with -/

/-- what a binder item does to `ModuleInfo`: at most one new visibility entry and one new context entry -/
def addBinder (i : Info) (v : Option (Sym × Bool)) (c : Option (Sym × List Name)) : Info :=
  { i with vis := (match v with | some p => p :: i.vis | none => i.vis),
           ctxMap := (match c with | some p => p :: i.ctxMap | none => i.ctxMap) }

def Ev.visAdd : Ev → Option (Sym × Bool)
  | .fn pre pub x _ _ => some (pre ++ [x], pub)
  | _ => none

def Ev.ctxAdd : Ev → Option (Sym × List Name)
  | .fn pre _ x _ _ => if pre.isEmpty then none else some (pre ++ [x], pre)
  | .letS pre _ x _ => if pre.isEmpty then none else some ([x], pre)
  | _ => none

/-- the key under which a binder item is entered in the maps (mangled name of a function, plain name of a `let`) -/
def Ev.key : Ev → Sym
  | .fn pre _ x _ _ => pre ++ [x]
  | .letS _ _ x _ => [x]
  | _ => []

theorem step_binder (i : Info) (ev : Ev) (hb : ev.isBinder = true) : step i ev = addBinder i ev.visAdd ev.ctxAdd := by
  cases ev with
  | fn pre pub x ps b =>
    simp only [step, addBinder, Ev.visAdd, Ev.ctxAdd]
    split <;> rfl
  | letS pre pub x e =>
    simp only [step, addBinder, Ev.visAdd, Ev.ctxAdd]
    split <;> rfl
  | modOpen => simp [Ev.isBinder] at hb
  | use => simp [Ev.isBinder] at hb

theorem visAdd_key {ev : Ev} {p : Sym × Bool} (h : ev.visAdd = some p) : p.1 = ev.key := by
  cases ev <;> simp [Ev.visAdd] at h
  subst h; rfl

theorem ctxAdd_key {ev : Ev} {p : Sym × List Name} (h : ev.ctxAdd = some p) : p.1 = ev.key := by
  cases ev with
  | fn pre pub x ps b =>
    simp only [Ev.ctxAdd] at h
    split at h
    · simp at h
    · simp only [Option.some.injEq] at h; subst h; rfl
  | letS pre pub x e =>
    simp only [Ev.ctxAdd] at h
    split at h
    · simp at h
    · simp only [Option.some.injEq] at h; subst h; rfl
  | modOpen => simp [Ev.ctxAdd] at h
  | use => simp [Ev.ctxAdd] at h

/-- keys a `use` statement reads (`exists` closure of `process_use_statement`) or exports (`pub use`) -/
def useKeys (pre path : List Name) : UseTarget → List Sym
  | .single => [path, pre ++ path] ++ (match path.getLast? with | some a => [pre ++ [a]] | none => [])
  | .multiple names => names.flatMap (fun n => [path ++ [n], pre ++ (path ++ [n]), pre ++ [n]])
  | .wildcard => []

/-- `b` neither writes nor reads the map key `K` -/
def Ev.indep (K : Sym) : Ev → Prop
  | .fn pre _ x _ _ => pre ++ [x] ≠ K
  | .letS _ _ x _ => [x] ≠ K
  | .modOpen _ _ => True
  | .use pre _ path t => K ∉ useKeys pre path t

/-- adding entries under different keys in either order gives the same lookups -/
theorem addBinder_comm (i : Info) (v v' : Option (Sym × Bool)) (c c' : Option (Sym × List Name)) (K K' : Sym)
    (hK : K' ≠ K) (hv : ∀ p, v = some p → p.1 = K) (hc : ∀ p, c = some p → p.1 = K)
    (hv' : ∀ p, v' = some p → p.1 = K') (hc' : ∀ p, c' = some p → p.1 = K') :
    Info.Equiv (addBinder (addBinder i v c) v' c') (addBinder (addBinder i v' c') v c) := by
  refine ⟨?_, ?_, rfl, rfl, rfl, rfl⟩
  · intro k
    cases v with
    | none => rfl
    | some p =>
      cases v' with
      | none => rfl
      | some p' =>
        simp only [addBinder]
        apply get?_swap
        rw [hv p rfl, hv' p' rfl]
        exact hK
  · intro k
    cases c with
    | none => rfl
    | some p =>
      cases c' with
      | none => rfl
      | some p' =>
        simp only [addBinder]
        apply get?_swap
        rw [hc p rfl, hc' p' rfl]
        exact hK

theorem has_addBinder (i : Info) (v : Option (Sym × Bool)) (c : Option (Sym × List Name)) (K : Sym)
    (hv : ∀ p, v = some p → p.1 = K) (hc : ∀ p, c = some p → p.1 = K) (n : Sym) (hn : n ≠ K) :
    (addBinder i v c).has n = i.has n := by
  unfold Info.has addBinder
  have h1 : get? (match v with | some p => p :: i.vis | none => i.vis) n = get? i.vis n := by
    cases v with
    | none => rfl
    | some p => rw [get?_cons, if_neg]; rw [hv p rfl]; exact fun h => hn h.symm
  have h2 : get? (match c with | some p => p :: i.ctxMap | none => i.ctxMap) n = get? i.ctxMap n := by
    cases c with
    | none => rfl
    | some p => rw [get?_cons, if_neg]; rw [hc p rfl]; exact fun h => hn h.symm
  simp only [h1, h2]

theorem resolveUseMangled_addBinder (i : Info) (v : Option (Sym × Bool)) (c : Option (Sym × List Name)) (K : Sym)
    (hv : ∀ p, v = some p → p.1 = K) (hc : ∀ p, c = some p → p.1 = K) (segs pre : List Name)
    (h1 : segs ≠ K) (h2 : pre ++ segs ≠ K) :
    resolveUseMangled segs pre (addBinder i v c) = resolveUseMangled segs pre i := by
  unfold resolveUseMangled
  rw [resolveQualifiedPath_congr segs segs pre _ i.has (has_addBinder i v c K hv hc _ h1)
    (has_addBinder i v c K hv hc _ h2)]

theorem resolveUseMangled_cases (segs pre : List Name) (i : Info) :
    resolveUseMangled segs pre i = segs ∨ resolveUseMangled segs pre i = pre ++ segs := by
  unfold resolveUseMangled
  rcases resolveQualifiedPath_cases segs pre i.has with h | ⟨_, h⟩ <;> rw [h]
  · exact Or.inl rfl
  · exact Or.inr rfl

/-- `register_alias` commutes with a binder whose key is neither the exported name (whose entry the re-export reads and,
if absent, writes) nor the target (whose visibility entry the re-export reads since /repo c6822e4) -/
theorem registerAlias_addBinder (i : Info) (v : Option (Sym × Bool)) (c : Option (Sym × List Name)) (K : Sym)
    (hv : ∀ p, v = some p → p.1 = K) (pub : Bool) (pre : List Name) (a : Name) (m : Sym) (hk : pre ++ [a] ≠ K)
    (hm : m ≠ K) :
    Info.Equiv (registerAlias (addBinder i v c) pub pre a m) (addBinder (registerAlias i pub pre a m) v c) := by
  unfold registerAlias
  cases pub with
  | false => exact Info.Equiv.refl _
  | true =>
    simp only [↓reduceIte]
    refine ⟨?_, fun _ => rfl, rfl, rfl, rfl, rfl⟩
    intro k
    cases v with
    | none => rfl
    | some p =>
      simp only [addBinder]
      have hpm : get? (p :: i.vis) m = get? i.vis m := by
        rw [get?_cons, if_neg]; rw [hv p rfl]; exact fun h => hm h.symm
      have hpe : get? (p :: i.vis) (pre ++ [a]) = get? i.vis (pre ++ [a]) := by
        rw [get?_cons, if_neg]; rw [hv p rfl]; exact fun h => hk h.symm
      simp only [hpm, hpe]
      split
      · rfl
      · apply get?_swap
        rw [hv p rfl]
        exact hk

theorem foldl_registerAlias_addBinder (v : Option (Sym × Bool)) (c : Option (Sym × List Name)) (K : Sym)
    (hv : ∀ p, v = some p → p.1 = K) (hc : ∀ p, c = some p → p.1 = K) (pub : Bool) (path pre : List Name)
    (names : List Name) : ∀ (I1 I : Info), Info.Equiv I1 (addBinder I v c) →
    (∀ n ∈ names, path ++ [n] ≠ K ∧ pre ++ (path ++ [n]) ≠ K ∧ pre ++ [n] ≠ K) →
    Info.Equiv
      (names.foldl (fun i n => registerAlias i pub pre n (resolveUseMangled (path ++ [n]) pre i)) I1)
      (addBinder (names.foldl (fun i n => registerAlias i pub pre n (resolveUseMangled (path ++ [n]) pre i)) I) v c) := by
  induction names with
  | nil => intro I1 I h _; exact h
  | cons n rest ih =>
    intro I1 I h hn
    simp only [List.foldl_cons]
    obtain ⟨h1, h2, h3⟩ := hn n List.mem_cons_self
    apply ih _ _ _ (fun m hm => hn m (List.mem_cons_of_mem _ hm))
    rw [resolveUseMangled_equiv h, resolveUseMangled_addBinder I v c K hv hc _ _ h1 h2]
    refine (registerAlias_equiv h ..).trans (registerAlias_addBinder I v c K hv pub pre n _ h3 ?_)
    rcases resolveUseMangled_cases (path ++ [n]) pre I with e | e <;> rw [e]
    · exact h1
    · exact h2

theorem processUse_addBinder (i : Info) (v : Option (Sym × Bool)) (c : Option (Sym × List Name)) (K : Sym)
    (hv : ∀ p, v = some p → p.1 = K) (hc : ∀ p, c = some p → p.1 = K) (pub : Bool) (path : List Name)
    (t : UseTarget) (pre : List Name) (hK : K ∉ useKeys pre path t) :
    Info.Equiv (processUse pub path t pre (addBinder i v c)) (addBinder (processUse pub path t pre i) v c) := by
  unfold processUse
  cases t with
  | single =>
    simp only [useKeys] at hK ⊢
    cases hgl : path.getLast? with
    | none => exact Info.Equiv.refl _
    | some a =>
      rw [hgl] at hK
      simp only [List.cons_append, List.nil_append, List.mem_cons, List.not_mem_nil, or_false, not_or] at hK
      obtain ⟨h1, h2, h3⟩ := hK
      simp only
      rw [resolveUseMangled_addBinder i v c K hv hc _ _ (Ne.symm h1) (Ne.symm h2)]
      refine registerAlias_addBinder i v c K hv pub pre a _ (Ne.symm h3) ?_
      rcases resolveUseMangled_cases path pre i with e | e <;> rw [e]
      · exact Ne.symm h1
      · exact Ne.symm h2
  | wildcard => exact Info.Equiv.of_eq rfl
  | multiple names =>
    simp only
    apply foldl_registerAlias_addBinder v c K hv hc pub path pre names _ _ (Info.Equiv.refl _)
    intro n hn
    simp only [useKeys, List.mem_flatMap, not_exists, not_and] at hK
    have := hK n hn
    simp only [List.mem_cons, List.not_mem_nil, or_false, not_or] at this
    exact ⟨Ne.symm this.1, Ne.symm this.2.1, Ne.symm this.2.2⟩

theorem useLoaded_addBinder (i : Info) (v : Option (Sym × Bool)) (c : Option (Sym × List Name)) (pre path : List Name) :
    useLoaded (addBinder i v c) pre path = addBinder (useLoaded i pre path) v c := by
  unfold useLoaded
  cases path.head? with
  | none => rfl
  | some base =>
    simp only
    have : (addBinder i v c).loaded = i.loaded := rfl
    rw [this]
    split <;> rfl

/-- the `step` of a binder item commutes (up to lookups) with the `step` of any event independent of its key -/
theorem step_comm_binder (i : Info) (ev : Ev) (hb : ev.isBinder = true) (b : Ev) (hind : b.indep ev.key) :
    Info.Equiv (step (step i ev) b) (step (step i b) ev) := by
  have hv := fun p (h : ev.visAdd = some p) => visAdd_key h
  have hc := fun p (h : ev.ctxAdd = some p) => ctxAdd_key h
  cases b with
  | fn pre pub x ps bd =>
    have hb' : (Ev.fn pre pub x ps bd).isBinder = true := rfl
    rw [step_binder i ev hb, step_binder _ _ hb', step_binder i _ hb', step_binder _ ev hb]
    exact addBinder_comm i _ _ _ _ ev.key (Ev.fn pre pub x ps bd).key hind hv hc
      (fun p h => visAdd_key h) (fun p h => ctxAdd_key h)
  | letS pre pub x e =>
    have hb' : (Ev.letS pre pub x e).isBinder = true := rfl
    rw [step_binder i ev hb, step_binder _ _ hb', step_binder i _ hb', step_binder _ ev hb]
    exact addBinder_comm i _ _ _ _ ev.key (Ev.letS pre pub x e).key hind hv hc
      (fun p h => visAdd_key h) (fun p h => ctxAdd_key h)
  | modOpen pre x =>
    rw [step_binder i ev hb, step_binder _ ev hb]
    exact Info.Equiv.of_eq rfl
  | use pre pub path t =>
    rw [step_use_eq, step_use_eq, step_binder i ev hb, step_binder _ ev hb, useLoaded_addBinder]
    exact processUse_addBinder _ _ _ ev.key hv hc pub path t pre hind

theorem foldl_step_moved (ev : Ev) (hb : ev.isBinder = true) (B : List Ev) (hB : ∀ b ∈ B, b.indep ev.key) :
    ∀ i : Info, Info.Equiv (B.foldl step (step i ev)) (step (B.foldl step i) ev) := by
  induction B with
  | nil => intro i; exact Info.Equiv.refl _
  | cons b rest ih =>
    intro i
    simp only [List.foldl_cons]
    exact (foldl_step_equiv rest (step_comm_binder i ev hb b (hB b List.mem_cons_self))).trans
      (ih (fun b' hb' => hB b' (List.mem_cons_of_mem _ hb')) (step i b))

/-- `ModuleInfo` has the same lookups whether a binder item stands before or after items independent of its key -/
theorem lowerInfo_moved (A B C : List Ev) (ev : Ev) (hb : ev.isBinder = true) (hB : ∀ b ∈ B, b.indep ev.key) :
    Info.Equiv (lowerInfo (A ++ ev :: (B ++ C))) (lowerInfo (A ++ B ++ ev :: C)) := by
  simp only [lowerInfo, List.foldl_append, List.foldl_cons]
  exact foldl_step_equiv C (foldl_step_moved ev hb B hB _)

/-- **item order is irrelevant, any item**: the resolution at a function or `let` item `ev` (in any module) is the
same after the prefix `A` and after `A ++ B`, provided no event of `B` writes or reads `ev`'s map key and `B` binds no
identifier occurring in `ev`'s body. -/
theorem siteResult_moved (A B C : List Ev) (ev : Ev) (hb : ev.isBinder = true) (tail : Expr)
    (hB : ∀ b ∈ B, b.indep ev.key) (hvars : ∀ s ∈ ev.body.vars, s ∉ binders B) :
    siteResult (lowerInfo (A ++ ev :: (B ++ C))) (knownOfT (A ++ ev :: (B ++ C)) tail) [] A ev =
      siteResult (lowerInfo (A ++ B ++ ev :: C)) (knownOfT (A ++ B ++ ev :: C) tail) [] (A ++ B) ev := by
  have hE := lowerInfo_moved A B C ev hb hB
  rw [knownOfT_moved]
  have hsc : ∀ (sc : List Sym) s, s ∈ ev.body.vars →
      boundIn (sc :: spineScopes [] A) s = boundIn (sc :: spineScopes [] (A ++ B)) s := by
    intro sc s hs
    rw [boundIn_cons, boundIn_cons, spineScopes_append, boundIn_spineScopes B]
    simp [hvars s hs]
  cases ev with
  | fn pre pub x ps bd =>
    simp only [siteResult]
    rw [convertExpr_equiv hE, siteCtx_equiv hE]
    apply convertExpr_scopes_congr
    intro s hs
    exact hsc _ s (by simpa [Expr.vars, Ev.body] using hs)
  | letS pre pub x e =>
    simp only [siteResult]
    rw [convertExpr_equiv hE, siteCtx_equiv hE]
    apply convertExpr_scopes_congr
    intro s hs
    rw [spineScopes_append, boundIn_spineScopes B]
    simp [hvars s (by simpa [Ev.body] using hs)]
  | modOpen => simp [Ev.isBinder] at hb
  | use => simp [Ev.isBinder] at hb

end Mimium.ModRes
