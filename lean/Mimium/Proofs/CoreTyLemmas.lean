import Mimium.Proofs.CoreTy
/-!
Structural lemmas of the type system of `Proofs/CoreTy.lean`: store-typing extension, binding, first-order values,
state-tree typing.
-/
namespace Mimium.Core

/-! ### store typings grow by appending -/
theorem getElem?_of_prefix {Ψ Ψ' : List Ty} (h : Ψ <+: Ψ') {l : Nat} {τ : Ty} (hl : Ψ[l]? = some τ) : Ψ'[l]? = some τ := by
  obtain ⟨t, rfl⟩ := h
  have hlt : l < Ψ.length := (List.getElem?_eq_some_iff.mp hl).1
  rw [List.getElem?_append_left hlt]; exact hl

theorem EnvOK.mono {Ψ Ψ' : List Ty} {env : Env} {Γ : Ctx} (he : EnvOK Ψ env Γ) (h : Ψ <+: Ψ') : EnvOK Ψ' env Γ := by
  intro x τ hx
  obtain ⟨l, h1, h2⟩ := he x τ hx
  exact ⟨l, h1, getElem?_of_prefix h h2⟩

theorem EnvOK.nil (Ψ : List Ty) (env : Env) : EnvOK Ψ env [] := by
  intro x τ hx; simp [List.lookup] at hx

theorem EnvOK.push {Ψ : List Ty} {env : Env} {Γ : Ctx} (he : EnvOK Ψ env Γ) (x : String) (τ : Ty) :
    EnvOK (Ψ ++ [τ]) ((x, Ψ.length) :: env) ((x, τ) :: Γ) := by
  intro y τ' hy
  by_cases hxy : y = x
  · subst hxy
    simp only [List.lookup, beq_self_eq_true] at hy ⊢
    cases hy
    exact ⟨Ψ.length, rfl, by simp⟩
  · have hb : (y == x) = false := by simpa using hxy
    simp only [List.lookup, hb] at hy ⊢
    obtain ⟨l, h1, h2⟩ := he y τ' hy
    exact ⟨l, h1, getElem?_of_prefix (List.prefix_append _ _) h2⟩

mutual
theorem VT.mono {Φ : Sig} {Ψ Ψ' : List Ty} (h : Ψ <+: Ψ') : ∀ {v : Val} {τ : Ty}, VT Φ Ψ v τ → VT Φ Ψ' v τ
  | _, _, .num b => .num b
  | _, _, .tup hs => .tup (VTs.mono h hs)
  | _, _, .clo he hl hb ha => .clo (he.mono h) hl hb ha
theorem VTs.mono {Φ : Sig} {Ψ Ψ' : List Ty} (h : Ψ <+: Ψ') : ∀ {vs : List Val} {τs : List Ty}, VTs Φ Ψ vs τs → VTs Φ Ψ' vs τs
  | _, _, .nil => .nil
  | _, _, .cons hv hs => .cons (VT.mono h hv) (VTs.mono h hs)
end

theorem VTs.length {Φ : Sig} {Ψ : List Ty} : ∀ {vs : List Val} {τs : List Ty}, VTs Φ Ψ vs τs → vs.length = τs.length
  | _, _, .nil => rfl
  | _, _, .cons _ hs => by simp [VTs.length hs]

theorem VTs.get {Φ : Sig} {Ψ : List Ty} : ∀ {vs : List Val} {τs : List Ty}, VTs Φ Ψ vs τs → ∀ {i : Nat} {τ : Ty},
    τs[i]? = some τ → ∃ v, vs[i]? = some v ∧ VT Φ Ψ v τ
  | _, _, .nil, i, τ, h => by simp at h
  | _, _, .cons hv hs, 0, τ, h => by simp at h; subst h; exact ⟨_, by simp, hv⟩
  | _, _, .cons hv hs, i + 1, τ, h => by
    simp only [List.getElem?_cons_succ] at h ⊢
    exact VTs.get hs h

theorem StoreOK.get {Φ : Sig} {Ψ : List Ty} {σ : Store} (hσ : StoreOK Φ Ψ σ) {l : Nat} {τ : Ty} (hl : Ψ[l]? = some τ) :
    ∃ v, σ[l]? = some v ∧ VT Φ Ψ v τ := by
  have hlt : l < Ψ.length := (List.getElem?_eq_some_iff.mp hl).1
  have hlt' : l < σ.length := by rw [hσ.1]; exact hlt
  exact ⟨σ[l], by simp [hlt'], hσ.2 l _ τ (by simp [hlt']) hl⟩

theorem StoreOK.push {Φ : Sig} {Ψ : List Ty} {σ : Store} (hσ : StoreOK Φ Ψ σ) {v : Val} {τ : Ty} (hv : VT Φ Ψ v τ) :
    StoreOK Φ (Ψ ++ [τ]) (σ ++ [v]) := by
  refine ⟨by simp [hσ.1], ?_⟩
  intro l w τ' hw hτ
  have hp : Ψ <+: Ψ ++ [τ] := List.prefix_append _ _
  by_cases hlt : l < σ.length
  · have hlt' : l < Ψ.length := by rw [← hσ.1]; exact hlt
    rw [List.getElem?_append_left hlt] at hw
    rw [List.getElem?_append_left hlt'] at hτ
    exact (hσ.2 l w τ' hw hτ).mono hp
  · have hge : σ.length ≤ l := Nat.le_of_not_lt hlt
    have hge' : Ψ.length ≤ l := by rw [← hσ.1]; exact hge
    rw [List.getElem?_append_right hge] at hw
    rw [List.getElem?_append_right hge'] at hτ
    rw [hσ.1] at hw
    generalize l - Ψ.length = j at hw hτ
    cases j with
    | zero => simp at hw hτ; subst hw; subst hτ; exact hv.mono hp
    | succ j => simp at hw

theorem StoreOK.set {Φ : Sig} {Ψ : List Ty} {σ : Store} (hσ : StoreOK Φ Ψ σ) {l : Nat} {v : Val} {τ : Ty}
    (hl : Ψ[l]? = some τ) (hv : VT Φ Ψ v τ) : StoreOK Φ Ψ (List.set σ l v) := by
  refine ⟨by simp [hσ.1], ?_⟩
  intro l' w τ' hw hτ
  by_cases h : l = l'
  · subst h
    have hlt : l < σ.length := by rw [hσ.1]; exact (List.getElem?_eq_some_iff.mp hl).1
    rw [List.getElem?_set_self hlt] at hw
    cases hw
    rw [hl] at hτ; cases hτ
    exact hv
  · rw [List.getElem?_set_ne h] at hw
    exact hσ.2 l' w τ' hw hτ

/-- binding parameters / pattern variables: the environment and the context stay related, the store stays typed -/
theorem bindAll_ok {Φ : Sig} : ∀ (xs : List String) (τs : List Ty) (vs : List Val) (env : Env) (σ : Store) (Γ : Ctx) (Ψ : List Ty),
    xs.length = τs.length → VTs Φ Ψ vs τs → EnvOK Ψ env Γ → StoreOK Φ Ψ σ →
    EnvOK (Ψ ++ τs) (bindAll env σ xs vs).1 (bindCtx Γ xs τs) ∧ StoreOK Φ (Ψ ++ τs) (bindAll env σ xs vs).2
  | [], [], vs, env, σ, Γ, Ψ, _, hvs, he, hσ => by
    cases hvs
    simpa [bindAll, bindCtx] using And.intro he hσ
  | [], _ :: _, _, _, _, _, _, hl, _, _, _ => by simp at hl
  | _ :: _, [], _, _, _, _, _, hl, _, _, _ => by simp at hl
  | x :: xs, τ :: τs, _, env, σ, Γ, Ψ, hl, .cons (v := v) (vs := vs) hv hvs, he, hσ => by
    simp only [bindAll, bindCtx]
    have hp : Ψ <+: Ψ ++ [τ] := List.prefix_append _ _
    have he' := he.push x τ
    rw [← hσ.1] at he'
    have := bindAll_ok xs τs vs ((x, σ.length) :: env) (σ ++ [v]) ((x, τ) :: Γ) (Ψ ++ [τ])
      (by simpa using hl) (hvs.mono hp) he' (hσ.push hv)
    simpa [List.append_assoc] using this

/-! ### first-order values -/
mutual
theorem HasTy.toVT {Φ : Sig} {Ψ : List Ty} : ∀ {v : Val} {τ : Ty}, HasTy v τ → VT Φ Ψ v τ
  | _, _, .num b => .num b
  | _, _, .tup hs => .tup (HasTys.toVTs hs)
theorem HasTys.toVTs {Φ : Sig} {Ψ : List Ty} : ∀ {vs : List Val} {τs : List Ty}, HasTys vs τs → VTs Φ Ψ vs τs
  | _, _, .nil => .nil
  | _, _, .cons h hs => .cons (HasTy.toVT h) (HasTys.toVTs hs)
end

mutual
theorem VT.toHasTy {Φ : Sig} {Ψ : List Ty} : ∀ {v : Val} {τ : Ty}, VT Φ Ψ v τ → τ.fo = true → HasTy v τ
  | _, _, .num b, _ => .num b
  | _, _, .tup hs, h => .tup (VTs.toHasTys hs (by simpa [Ty.fo] using h))
  | _, _, .clo _ _ _ _, h => by simp [Ty.fo] at h
theorem VTs.toHasTys {Φ : Sig} {Ψ : List Ty} : ∀ {vs : List Val} {τs : List Ty}, VTs Φ Ψ vs τs → foL τs = true → HasTys vs τs
  | _, _, .nil, _ => .nil
  | _, _, .cons hv hs, h => by
    simp only [foL, Bool.and_eq_true] at h
    exact .cons (VT.toHasTy hv h.1) (VTs.toHasTys hs h.2)
end

mutual
theorem fo_tyOfShape : ∀ (s : Shape), (tyOfShape s).fo = true
  | .num => rfl
  | .tup ss => by simp only [tyOfShape, Ty.fo]; exact fo_tyOfShapes ss
theorem fo_tyOfShapes : ∀ (ss : List Shape), foL (tyOfShapes ss) = true
  | [] => rfl
  | s :: ss => by simp only [tyOfShapes, foL, Bool.and_eq_true]; exact ⟨fo_tyOfShape s, fo_tyOfShapes ss⟩
end

mutual
theorem zero_hasTy : ∀ (s : Shape), HasTy (zeroOf s) (tyOfShape s)
  | .num => by simp only [zeroOf, tyOfShape]; exact HasTy.num 0
  | .tup ss => by simp only [zeroOf, tyOfShape]; exact HasTy.tup (zero_hasTys ss)
theorem zero_hasTys : ∀ (ss : List Shape), HasTys (zeroOf.zeroOfL ss) (tyOfShapes ss)
  | [] => by simp only [zeroOf.zeroOfL, tyOfShapes]; exact HasTys.nil
  | s :: ss => by simp only [zeroOf.zeroOfL, tyOfShapes]; exact HasTys.cons (zero_hasTy s) (zero_hasTys ss)
end

mutual
/-- the output width of a typed value (closures occupy no word) -/
theorem VT.flatten_length {Φ : Sig} {Ψ : List Ty} : ∀ {v : Val} {τ : Ty}, VT Φ Ψ v τ → (flattenVal v).length = wordSize τ
  | _, _, .num b => by simp [flattenVal, wordSize]
  | _, _, .tup hs => by simp only [flattenVal, wordSize]; exact VTs.flatten_length hs
  | _, _, .clo _ _ _ _ => by simp [flattenVal, wordSize]
theorem VTs.flatten_length {Φ : Sig} {Ψ : List Ty} : ∀ {vs : List Val} {τs : List Ty}, VTs Φ Ψ vs τs →
    (flattenVals vs).length = wordSizeL τs
  | _, _, .nil => by simp [flattenVals, wordSizeL]
  | _, _, .cons h hs => by
    simp only [flattenVals, wordSizeL, List.length_append]
    rw [VT.flatten_length h, VTs.flatten_length hs]
end

/-- a first-order store typing does not depend on the rest of the store -/
theorem VT.fo_indep {Φ Φ' : Sig} {Ψ Ψ' : List Ty} {v : Val} {τ : Ty} (h : VT Φ Ψ v τ) (hfo : τ.fo = true) : VT Φ' Ψ' v τ :=
  (h.toHasTy hfo).toVT

/-! ### state trees -/
theorem lookupCell_setCell_self (cs : List (Nat × SCell)) (site : Nat) (c : SCell) :
    lookupCell (setCell cs site c) site = some c := by
  induction cs with
  | nil => simp [setCell, lookupCell]
  | cons kc rest ih =>
    obtain ⟨k, c'⟩ := kc
    by_cases h : k = site
    · simp [setCell, lookupCell, h]
    · have : (k == site) = false := by simpa using h
      simp [setCell, lookupCell, this, ih]

theorem lookupCell_setCell_ne (cs : List (Nat × SCell)) (s s' : Nat) (c : SCell) (h : s ≠ s') :
    lookupCell (setCell cs s c) s' = lookupCell cs s' := by
  induction cs with
  | nil =>
    have : (s == s') = false := by simpa using h
    simp [setCell, lookupCell, this]
  | cons kc rest ih =>
    obtain ⟨k, c'⟩ := kc
    by_cases hk : k = s
    · subst hk
      have : (k == s') = false := by simpa using h
      simp [setCell, lookupCell, this]
    · have h1 : (k == s) = false := by simpa using hk
      by_cases hk' : k = s'
      · subst hk'
        simp [setCell, lookupCell, h1]
      · have h2 : (k == s') = false := by simpa using hk'
        simp [setCell, lookupCell, h1, h2, ih]

theorem StOK.empty (P : Prog) (C : List (Nat × String)) (ρ : Option Ty) : StOK P C ρ SNode.empty := by
  refine StOK.mk ?_ ?_
  · intro τ v _ h; cases h
  · intro k n f d h; simp [lookupCell] at h

theorem StOK.childAt {P : Prog} {C : List (Nat × String)} {ρ : Option Ty} {st : SNode} (h : StOK P C ρ st)
    {k : Nat} {f : String} {d : FnDecl} (hk : (k, f) ∈ C) (hf : findFn P.fns f = some d) :
    StOK P (calls d.body) d.selfTy (st.childAt k) := by
  cases h with
  | mk h1 h2 =>
    rename_i s cells
    simp only [SNode.childAt, SNode.cells]
    cases hc : lookupCell cells k with
    | none => exact StOK.empty _ _ _
    | some c =>
      cases c with
      | child n => exact h2 k n f d hc hk hf
      | mem w => exact StOK.empty _ _ _
      | delay r => exact StOK.empty _ _ _

/-- writing a cell keeps the node typed, provided a child written at a call site belongs to the callee -/
theorem StOK.setCell {P : Prog} {C : List (Nat × String)} {ρ : Option Ty} {st : SNode} (h : StOK P C ρ st)
    (k : Nat) (c : SCell)
    (hc : ∀ n, c = .child n → ∀ f d, (k, f) ∈ C → findFn P.fns f = some d → StOK P (calls d.body) d.selfTy n) :
    StOK P C ρ (st.setCell k c) := by
  cases h with
  | mk h1 h2 =>
    rename_i s cells
    simp only [SNode.setCell]
    refine StOK.mk h1 ?_
    intro k' n f d hl hk hf
    by_cases hkk : k = k'
    · subst hkk
      rw [lookupCell_setCell_self] at hl
      cases hl
      exact hc n rfl f d hk hf
    · rw [lookupCell_setCell_ne _ _ _ _ hkk] at hl
      exact h2 k' n f d hl hk hf

theorem SNode.selfv_setCell (st : SNode) (k : Nat) (c : SCell) : (st.setCell k c).selfv = st.selfv := by
  cases st; rfl

theorem RunOK.setCell {P : Prog} {C : List (Nat × String)} {ρ : Option Ty} {st : SNode} (h : RunOK P C ρ st)
    (k : Nat) (c : SCell)
    (hc : ∀ n, c = .child n → ∀ f d, (k, f) ∈ C → findFn P.fns f = some d → StOK P (calls d.body) d.selfTy n) :
    RunOK P C ρ (st.setCell k c) :=
  ⟨h.1.setCell k c hc, by rw [SNode.selfv_setCell]; exact h.2⟩

theorem StOK.setSelf {P : Prog} {C : List (Nat × String)} {ρ : Option Ty} {st : SNode} (h : StOK P C ρ st)
    {v : Val} (hv : ∀ τ, ρ = some τ → HasTy v τ) : StOK P C ρ (st.setSelf v) := by
  cases h with
  | mk h1 h2 =>
    simp only [SNode.setSelf]
    refine StOK.mk ?_ h2
    intro τ w hρ hw; cases hw; exact hv τ hρ

/-- a stored instance becomes a running one: `self` starts as the zero value of the declared shape -/
theorem StOK.initSelf {P : Prog} {C : List (Nat × String)} {st : SNode} {sh : Option Shape}
    (h : StOK P C (sh.map tyOfShape) st) : RunOK P C (sh.map tyOfShape) (initSelf st sh) := by
  unfold Core.initSelf
  cases sh with
  | none => cases hs : st.selfv <;> exact ⟨h, by simp⟩
  | some s =>
    cases hs : st.selfv with
    | none =>
      refine ⟨h.setSelf ?_, ?_⟩
      · intro τ hτ; simp at hτ; subst hτ; exact zero_hasTy s
      · intro _; cases st; simp [SNode.setSelf, SNode.selfv]
    | some v => exact ⟨h, by intro _; simp [hs]⟩

/-- … and is stored again with the returned value as the new `self` -/
theorem StOK.finishSelf {P : Prog} {C : List (Nat × String)} {st : SNode} {sh : Option Shape} {v : Val}
    (h : StOK P C (sh.map tyOfShape) st) (hv : ∀ s, sh = some s → HasTy v (tyOfShape s)) :
    StOK P C (sh.map tyOfShape) (finishSelf st sh v) := by
  unfold Core.finishSelf
  cases sh with
  | none => simpa using h
  | some s =>
    simp only [Option.isSome_some, if_true]
    refine h.setSelf ?_
    intro τ hτ; simp at hτ; subst hτ; exact hv s rfl

/-! ### call sites -/
theorem Agree.subset {C C' : List (Nat × String)} (h : Agree C) (hs : C' ⊆ C) : Agree C' :=
  fun k f g hf hg => h k f g (hs hf) (hs hg)

theorem Agree.nil : Agree [] := fun _ _ _ h => by cases h

mutual
theorem calls_fst_sublist : ∀ (e : Expr), ((calls e).map Prod.fst).Sublist (sites e)
  | .lit _ => by simp [calls, sites]
  | .var _ => by simp [calls, sites]
  | .un _ e => by simpa [calls, sites] using calls_fst_sublist e
  | .bin _ a b => by
    simp only [calls, sites, List.map_append]; exact (calls_fst_sublist a).append (calls_fst_sublist b)
  | .ite c a b => by
    simp only [calls, sites, List.map_append]
    exact (calls_fst_sublist c).append ((calls_fst_sublist a).append (calls_fst_sublist b))
  | .letE _ e b => by
    simp only [calls, sites, List.map_append]; exact (calls_fst_sublist e).append (calls_fst_sublist b)
  | .letTup _ e b => by
    simp only [calls, sites, List.map_append]; exact (calls_fst_sublist e).append (calls_fst_sublist b)
  | .tup es => by simpa [calls, sites] using callsL_fst_sublist es
  | .proj e _ => by simpa [calls, sites] using calls_fst_sublist e
  | .call _ args site => by
    simp only [calls, sites, List.map_cons]; exact (callsL_fst_sublist args).cons_cons _
  | .app f args => by
    simp only [calls, sites, List.map_append]; exact (calls_fst_sublist f).append (callsL_fst_sublist args)
  | .lam _ b => by simpa [calls, sites] using calls_fst_sublist b
  | .self => by simp [calls, sites]
  | .mem e _ => by simp only [calls, sites]; exact (calls_fst_sublist e).cons _
  | .delay _ e t _ => by
    simp only [calls, sites, List.map_append]; exact ((calls_fst_sublist e).append (calls_fst_sublist t)).cons _
  | .now => by simp [calls, sites]
  | .samplerate => by simp [calls, sites]
  | .assign _ e r => by
    simp only [calls, sites, List.map_append]; exact (calls_fst_sublist e).append (calls_fst_sublist r)
theorem callsL_fst_sublist : ∀ (es : List Expr), ((callsL es).map Prod.fst).Sublist (sitesL es)
  | [] => by simp [callsL, sitesL]
  | e :: es => by
    simp only [callsL, sitesL, List.map_append]; exact (calls_fst_sublist e).append (callsL_fst_sublist es)
end

theorem agree_of_nodup_fst : ∀ (C : List (Nat × String)), (C.map Prod.fst).Nodup → Agree C
  | [], _ => Agree.nil
  | p :: rest, h => by
    simp only [List.map_cons, List.nodup_cons, List.mem_map, not_exists, not_and] at h
    have ih := agree_of_nodup_fst rest h.2
    intro k f g hf hg
    simp only [List.mem_cons] at hf hg
    rcases hf with hf | hf <;> rcases hg with hg | hg
    · rw [← hg] at hf; exact (Prod.mk.inj hf).2
    · exact absurd (by rw [← hf]) (h.1 (k, g) hg)
    · exact absurd (by rw [← hg]) (h.1 (k, f) hf)
    · exact ih k f g hf hg

/-- pairwise distinct site identifiers imply what soundness needs -/
theorem SitesUnique.agree {e : Expr} (h : SitesUnique e) : Agree (calls e) :=
  agree_of_nodup_fst _ ((calls_fst_sublist e).nodup h)

end Mimium.Core
