import Mimium.Proofs.CoreSound
/-!
Type soundness at the level of the per-sample machine: `Machine.init` of a well-typed program never fails with a type
error and establishes the invariant `MachineOK` (globals typed by Ψg, root state typed for `dsp`); `Machine.step`
preserves it and outputs exactly `wordSize τout` words; hence so does a run of any length.
-/
namespace Mimium.Core

/-! ### the global environment -/
/-- `globalEnv` in accumulator form -/
def genvFrom : Nat → Env → List (String × Expr) → Env
  | _, acc, [] => acc
  | k, acc, (x, _) :: gs => genvFrom (k + 1) ((x, k) :: acc) gs

theorem genvFrom_eq : ∀ (gs : List (String × Expr)) (k : Nat) (acc : Env),
    ((gs.zipIdx k).map fun (g, i) => (g.1, i)).reverse ++ acc = genvFrom k acc gs
  | [], k, acc => by simp [genvFrom]
  | (x, e) :: gs, k, acc => by
    simp only [List.zipIdx_cons, List.map_cons, List.reverse_cons, List.append_assoc, List.singleton_append, genvFrom]
    exact genvFrom_eq gs (k + 1) ((x, k) :: acc)

theorem globalEnv_eq (P : Prog) : globalEnv P = genvFrom 0 [] P.globals := by
  rw [← genvFrom_eq]; simp [globalEnv]

theorem genvFrom_ok : ∀ (gs : List (String × Expr)) (τs : List Ty) (k : Nat) (acc : Env) (Γ : Ctx) (Ψ : List Ty),
    Ψ.length = k → gs.length = τs.length → EnvOK Ψ acc Γ →
    EnvOK (Ψ ++ τs) (genvFrom k acc gs) (bindCtx Γ (gs.map (·.1)) τs)
  | [], [], k, acc, Γ, Ψ, _, _, he => by simpa [genvFrom, bindCtx] using he
  | [], _ :: _, _, _, _, _, _, hl, _ => by simp at hl
  | _ :: _, [], _, _, _, _, _, hl, _ => by simp at hl
  | (x, e) :: gs, τ :: τs, k, acc, Γ, Ψ, hk, hl, he => by
    simp only [genvFrom, List.map_cons, bindCtx]
    have he' := he.push x τ
    rw [hk] at he'
    have := genvFrom_ok gs τs (k + 1) ((x, k) :: acc) ((x, τ) :: Γ) (Ψ ++ [τ]) (by simp [hk]) (by simpa using hl) he'
    simpa [List.append_assoc] using this

theorem GlobalsOK.length : ∀ {Γ : Ctx} {gs : List (String × Expr)} {τs : List Ty}, GlobalsOK Γ gs τs → gs.length = τs.length
  | _, _, _, .nil => rfl
  | _, _, _, .cons _ _ h => by simp [GlobalsOK.length h]

theorem GlobalsOK.fo : ∀ {Γ : Ctx} {gs : List (String × Expr)} {τs : List Ty}, GlobalsOK Γ gs τs → ∀ τ ∈ τs, τ.fo = true
  | _, _, _, .nil => by simp
  | _, _, _, .cons _ hfo h => by
    intro τ hτ
    simp only [List.mem_cons] at hτ
    rcases hτ with rfl | hτ
    · exact hfo
    · exact GlobalsOK.fo h τ hτ

theorem WellTyped.progOK {Φ : Sig} {Ψg : List Ty} {τout : Ty} {P : Prog} (h : WellTyped Φ Ψg τout P) :
    ProgOK Φ (globalCtx P Ψg) Ψg P := by
  refine ⟨h.fns, ?_⟩
  rw [globalEnv_eq]
  have := genvFrom_ok P.globals Ψg 0 [] [] [] rfl h.globals.length (EnvOK.nil _ _)
  simpa [globalCtx] using this

/-! ### an expression typed without function signatures makes no calls -/
mutual
theorem HasType.calls_nil : ∀ {Γ : Ctx} {ρ : Option Ty} {e : Expr} {τ : Ty}, HasType [] Γ ρ e τ → calls e = []
  | _, _, _, _, .lit => by simp [calls]
  | _, _, _, _, .var _ => by simp [calls]
  | _, _, _, _, .un ha => by simp [calls, ha.calls_nil]
  | _, _, _, _, .bin ha hb => by simp [calls, ha.calls_nil, hb.calls_nil]
  | _, _, _, _, .ite hc ha hb => by simp [calls, hc.calls_nil, ha.calls_nil, hb.calls_nil]
  | _, _, _, _, .letE ha hb => by simp [calls, ha.calls_nil, hb.calls_nil]
  | _, _, _, _, .letTup ha _ hb => by simp [calls, ha.calls_nil, hb.calls_nil]
  | _, _, _, _, .tup hes => by simp [calls, hes.calls_nil]
  | _, _, _, _, .proj ha _ => by simp [calls, ha.calls_nil]
  | _, _, _, _, .call hΦ _ => by simp [List.lookup] at hΦ
  | _, _, _, _, .app hf hargs => by simp [calls, hf.calls_nil, hargs.calls_nil]
  | _, _, _, _, .lam _ hb => by simp [calls, hb.calls_nil]
  | _, _, _, _, .self => by simp [calls]
  | _, _, _, _, .mem ha => by simp [calls, ha.calls_nil]
  | _, _, _, _, .delay ha hb => by simp [calls, ha.calls_nil, hb.calls_nil]
  | _, _, _, _, .now => by simp [calls]
  | _, _, _, _, .samplerate => by simp [calls]
  | _, _, _, _, .assign _ ha hr => by simp [calls, ha.calls_nil, hr.calls_nil]
theorem HasTypes.calls_nil : ∀ {Γ : Ctx} {ρ : Option Ty} {es : List Expr} {τs : List Ty}, HasTypes [] Γ ρ es τs → callsL es = []
  | _, _, _, _, .nil => by simp [callsL]
  | _, _, _, _, .cons he hes => by simp [callsL, he.calls_nil, hes.calls_nil]
end

/-! ### global initialisation -/
theorem progOK_nil (P : Prog) : ProgOK [] [] [] P :=
  ⟨fun f τs τ h => by simp [List.lookup] at h, EnvOK.nil _ _⟩

theorem initGlobals_cons (fuel : Nat) (P : Prog) (rt : Rt) (x : String) (e : Expr) (rest : List (String × Expr))
    (env : Env) (σ : Store) :
    initGlobals fuel P rt ((x, e) :: rest) env σ =
      andThen (eval fuel P rt env e σ SNode.empty) (fun r => initGlobals fuel P rt rest ((x, σ.length) :: env) (σ ++ [r.1])) := by
  rw [initGlobals]
  cases eval fuel P rt env e σ SNode.empty with
  | error e => rfl
  | ok r => obtain ⟨v, σ', st'⟩ := r; rfl

theorem initGlobals_ok (fuel : Nat) (P : Prog) (rt : Rt) : ∀ (gs : List (String × Expr)) (τs : List Ty) (env : Env) (σ : Store)
    (Γ : Ctx) (Ψ : List Ty), GlobalsOK Γ gs τs → EnvOK Ψ env Γ → StoreOK [] Ψ σ →
    Good (fun σ' => StoreOK [] (Ψ ++ τs) σ') (initGlobals fuel P rt gs env σ)
  | [], _, env, σ, Γ, Ψ, .nil, _, hσ => by
    rw [initGlobals]; simpa using Good.ok (R := fun σ' => StoreOK [] Ψ σ') hσ
  | (x, e) :: gs, _, env, σ, Γ, Ψ, .cons (τ := τ) (τs := τs) hty hfo hrest, he, hσ => by
    rw [initGlobals_cons]
    have hs := (sound rt (progOK_nil P) fuel).1 e Γ none τ env σ SNode.empty Ψ (calls e) hty he hσ (List.nil_prefix)
      (List.Subset.refl _) (by rw [hty.calls_nil]; exact Agree.nil) ⟨StOK.empty _ _ _, by simp⟩
    refine Good.andThen hs ?_
    rintro ⟨v, σ', st'⟩ ⟨Ψ', _, hv, _, _⟩
    have hv' : VT [] Ψ v τ := VT.fo_indep hv hfo
    have he' := he.push x τ
    rw [← hσ.1] at he'
    have := initGlobals_ok fuel P rt gs τs ((x, σ.length) :: env) (σ ++ [v]) ((x, τ) :: Γ) (Ψ ++ [τ]) hrest he' (hσ.push hv')
    simpa [List.append_assoc] using this

theorem StoreOK.fo_indep {Φ Φ' : Sig} {Ψ : List Ty} {σ : Store} (h : StoreOK Φ Ψ σ) (hfo : ∀ τ ∈ Ψ, τ.fo = true) :
    StoreOK Φ' Ψ σ :=
  ⟨h.1, fun l v τ hv hτ => VT.fo_indep (h.2 l v τ hv hτ) (hfo τ (List.mem_of_getElem? hτ))⟩

/-- the invariant of the machine between samples -/
def MachineOK (Φ : Sig) (Ψg : List Ty) (P : Prog) (m : Machine) : Prop :=
  StoreOK Φ Ψg m.store ∧ StOK P (calls P.dsp.body) P.dsp.selfTy m.root

theorem init_ok {Φ : Sig} {Ψg : List Ty} {τout : Ty} {P : Prog} (h : WellTyped Φ Ψg τout P) (fuel : Nat) (sr : UInt64) :
    Good (MachineOK Φ Ψg P) (Machine.init fuel P sr) := by
  have := initGlobals_ok fuel P ⟨natToF64Bits 0, sr⟩ P.globals Ψg [] [] [] [] h.globals (EnvOK.nil _ _) ⟨rfl, by simp⟩
  unfold Machine.init
  cases hi : initGlobals fuel P ⟨natToF64Bits 0, sr⟩ P.globals [] [] with
  | error e => rw [hi] at this; cases e <;> first | trivial | exact this.elim
  | ok σ =>
    rw [hi] at this
    have hσ : StoreOK [] Ψg σ := by simpa [Good] using this
    exact Good.ok ⟨hσ.fo_indep h.globals.fo, StOK.empty _ _ _⟩

/-! ### one sample -/
theorem step_eq (fuel : Nat) (P : Prog) (sr : UInt64) (m : Machine) (inputs : List UInt64) :
    Machine.step fuel P sr m inputs =
      andThen (eval fuel P ⟨natToF64Bits m.t, sr⟩
          (bindAll (globalEnv P) m.store P.dsp.params (P.dsp.params.zipIdx.map fun (_, i) => Val.num (inputs.getD i 0))).1
          P.dsp.body
          (bindAll (globalEnv P) m.store P.dsp.params (P.dsp.params.zipIdx.map fun (_, i) => Val.num (inputs.getD i 0))).2
          (initSelf m.root P.dsp.selfShape))
        (fun r => .ok (flattenVal r.1, ⟨r.2.1.take m.store.length, finishSelf r.2.2 P.dsp.selfShape r.1, m.t + 1⟩)) := by
  unfold Machine.step
  simp only [initSelf, finishSelf]
  cases eval fuel P ⟨natToF64Bits m.t, sr⟩ _ P.dsp.body _ _ with
  | error e => rfl
  | ok r => obtain ⟨v, σ', st'⟩ := r; rfl

theorem VTs_nums {Φ : Sig} {Ψ : List Ty} (g : Nat → UInt64) : ∀ (l : List (String × Nat)),
    VTs Φ Ψ (l.map fun (_, i) => Val.num (g i)) (List.replicate l.length .num)
  | [] => .nil
  | _ :: l => by simpa [List.replicate_succ] using VTs.cons (.num _) (VTs_nums g l)

theorem StoreOK.take_fo {Φ : Sig} {Ψg Ψ' : List Ty} {σ : Store} (h : StoreOK Φ Ψ' σ) (hp : Ψg <+: Ψ')
    (hfo : ∀ τ ∈ Ψg, τ.fo = true) : StoreOK Φ Ψg (σ.take Ψg.length) := by
  have hle : Ψg.length ≤ Ψ'.length := hp.length_le
  refine ⟨by simp [h.1, hle], ?_⟩
  intro l v τ hv hτ
  have hlt : l < Ψg.length := (List.getElem?_eq_some_iff.mp hτ).1
  rw [List.getElem?_take_of_lt hlt] at hv
  exact VT.fo_indep (h.2 l v τ hv (getElem?_of_prefix hp hτ)) (hfo τ (List.mem_of_getElem? hτ))

theorem step_ok {Φ : Sig} {Ψg : List Ty} {τout : Ty} {P : Prog} (h : WellTyped Φ Ψg τout P) (fuel : Nat) (sr : UInt64)
    (m : Machine) (inputs : List UInt64) (hm : MachineOK Φ Ψg P m) :
    Good (fun r => r.1.length = wordSize τout ∧ MachineOK Φ Ψg P r.2) (Machine.step fuel P sr m inputs) := by
  rw [step_eq]
  have hP := h.progOK
  have hargs : VTs Φ Ψg (P.dsp.params.zipIdx.map fun (_, i) => Val.num (inputs.getD i 0))
      (List.replicate P.dsp.params.length .num) := by
    have := VTs_nums (Φ := Φ) (Ψ := Ψg) (fun i => inputs.getD i 0) P.dsp.params.zipIdx
    simpa using this
  obtain ⟨he, hσ⟩ := bindAll_ok P.dsp.params _ _ (globalEnv P) m.store (globalCtx P Ψg) Ψg h.dsp.arity hargs hP.genv hm.1
  have hp : Ψg <+: Ψg ++ List.replicate P.dsp.params.length Ty.num := List.prefix_append _ _
  refine Good.andThen ((sound _ hP fuel).1 P.dsp.body _ _ τout _ _ _ _ (calls P.dsp.body) h.dsp.body he hσ hp
    (List.Subset.refl _) h.dsp.agree hm.2.initSelf) ?_
  rintro ⟨v, σ', st'⟩ ⟨Ψ', hext, hv, hσ', hst'⟩
  refine Good.ok ⟨hv.flatten_length, ?_, ?_⟩
  · have := hσ'.take_fo (hp.trans hext) h.globals.fo
    rw [hm.1.1]; exact this
  · refine StOK.finishSelf hst'.1 ?_
    intro s hs
    have hτ := h.dsp.selfRet s hs
    subst hτ
    exact VT.toHasTy hv (fo_tyOfShape s)

/-! ### any number of samples -/
/-- run `k` samples (inputs indexed by the sample counter), collecting the output frames; errors are propagated -/
def runSamples (fuel : Nat) (P : Prog) (sr : UInt64) (inputs : Nat → List UInt64) : Nat → Machine → Res (List (List UInt64) × Machine)
  | 0, m => .ok ([], m)
  | k + 1, m =>
    andThen (Machine.step fuel P sr m (inputs m.t)) (fun r =>
      andThen (runSamples fuel P sr inputs k r.2) (fun q => .ok (r.1 :: q.1, q.2)))

theorem run_ok {Φ : Sig} {Ψg : List Ty} {τout : Ty} {P : Prog} (h : WellTyped Φ Ψg τout P) (fuel : Nat) (sr : UInt64)
    (inputs : Nat → List UInt64) : ∀ (k : Nat) (m : Machine), MachineOK Φ Ψg P m →
    Good (fun r => r.1.length = k ∧ (∀ o ∈ r.1, o.length = wordSize τout) ∧ MachineOK Φ Ψg P r.2)
      (runSamples fuel P sr inputs k m)
  | 0, m, hm => by simpa [runSamples] using Good.ok (R := fun r : List (List UInt64) × Machine =>
      r.1.length = 0 ∧ (∀ o ∈ r.1, o.length = wordSize τout) ∧ MachineOK Φ Ψg P r.2) (a := ([], m)) ⟨rfl, by simp, hm⟩
  | k + 1, m, hm => by
    rw [runSamples]
    refine Good.andThen (step_ok h fuel sr m (inputs m.t) hm) ?_
    rintro ⟨o, m'⟩ ⟨ho, hm'⟩
    refine Good.andThen (run_ok h fuel sr inputs k m' hm') ?_
    rintro ⟨os, m''⟩ ⟨hl, hos, hm''⟩
    refine Good.ok ⟨by simp [hl], ?_, hm''⟩
    intro o' ho'
    simp only [List.mem_cons] at ho'
    rcases ho' with rfl | ho'
    · exact ho
    · exact hos o' ho'

end Mimium.Core

namespace Mimium.Core

/-- to establish the `fns` clause of `WellTyped` it suffices to check every entry of the signature list -/
theorem fns_of_all {Φ Φ' : Sig} {Γg : Ctx} {P : Prog}
    (h : ∀ s ∈ Φ', ∃ d, findFn P.fns s.1 = some d ∧ FnOK Φ Γg d s.2.1 s.2.2) :
    ∀ f τs τ, Φ'.lookup f = some (τs, τ) → ∃ d, findFn P.fns f = some d ∧ FnOK Φ Γg d τs τ := by
  induction Φ' with
  | nil => intro f τs τ hl; simp [List.lookup] at hl
  | cons s rest ih =>
    obtain ⟨g, sg⟩ := s
    intro f τs τ hl
    by_cases hfg : f = g
    · subst hfg
      simp only [List.lookup, beq_self_eq_true] at hl
      cases hl
      exact h (f, τs, τ) (by simp)
    · have hb : (f == g) = false := by simpa using hfg
      simp only [List.lookup, hb] at hl
      exact ih (fun s hs => h s (List.mem_cons_of_mem _ hs)) f τs τ hl

end Mimium.Core
