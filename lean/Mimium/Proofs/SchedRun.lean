import Mimium.Proofs.Sched
/-!
# Whole runs of both scheduler models satisfy the ideal-scheduler specification (C11)
-/
namespace Mimium.Sched

theorem filter_zero_le (l : List Task) : l.filter (fun x => decide (0 ≤ x.when)) = l := by
  rw [List.filter_eq_self]; intro x _; simp

theorem Vm.init_inv {σ : Type} {env : Env σ} (hf : env.Future) (s0 : σ) :
    VmInv 0 (env.global s0).2 (Vm.init env s0) := by
  refine ⟨rfl, ?_, ?_⟩
  · intro x hx
    exact hf.global s0 x hx
  · rw [filter_zero_le]; simp [Vm.init]

theorem Vm.run_spec {σ : Type} (env : Env σ) (ch : Nat → Nat) (n : Nat) (s0 : σ) (hf : env.Future) :
    ∃ st', (Vm.run env ch n s0).final = some st' ∧ (Vm.run env ch n s0).ticks.length = n ∧
      Ideal env 0 (env.global s0).2 (env.global s0).1 (Vm.run env ch n s0).ticks ∧
      VmInv (0 + n) ((env.global s0).2 ++ (Vm.run env ch n s0).ticks.flatMap (·.reqs)) st' :=
  runFrom_spec (env := env) (tick := Vm.tick env ch) (user := fun st => st.user) (Inv := VmInv)
    (fun t issued st inv => Vm.tick_step hf ch t issued st inv) n 0 (env.global s0).2 (Vm.init env s0)
    (Vm.init_inv hf s0)

theorem W.run_spec {σ : Type} (env : Env σ) (ch : Nat → Nat) (n : Nat) (s0 : σ) (hf : env.Future) :
    ∃ st', (W.run env ch n s0).final = some st' ∧ (W.run env ch n s0).ticks.length = n ∧
      Ideal env 0 (env.global s0).2 (env.global s0).1 (W.run env ch n s0).ticks ∧
      WInv (0 + n) ((env.global s0).2 ++ (W.run env ch n s0).ticks.flatMap (·.reqs)) st' := by
  have hp := pushAll_future 0 (env.global s0).2 [] (hf.global s0)
  have inv0 : WInv (σ := σ) 0 (env.global s0).2
      { currentTime := 0, heap := (env.global s0).2.reverse ++ [], pops := 0, user := (env.global s0).1 } := by
    refine ⟨rfl, ?_⟩
    simp only [List.append_nil, filter_zero_le]
    exact List.reverse_perm _
  have := runFrom_spec (env := env) (tick := W.tick env ch) (user := fun st => st.user) (Inv := WInv)
    (fun t issued st inv => W.tick_step hf ch t issued st inv) n 0 (env.global s0).2 _ inv0
  simpa only [W.run, hp] using this

@[simp] theorem Vm.run_greqs {σ : Type} (env : Env σ) (ch : Nat → Nat) (n : Nat) (s0 : σ) :
    (Vm.run env ch n s0).greqs = (env.global s0).2 := rfl

@[simp] theorem W.run_greqs {σ : Type} (env : Env σ) (ch : Nat → Nat) (n : Nat) (s0 : σ) :
    (W.run env ch n s0).greqs = (env.global s0).2 := by
  unfold W.run
  simp only
  split <;> rfl

end Mimium.Sched
