import Mimium.Model.Stage
open Mimium Mimium.Core
def valBits : Val → Option UInt64 | .num b => some b | _ => none
def P0 : Prog := ⟨[], [], ⟨"dsp", [], .letE "y" (.lit 1) (.letE "y" (.lit 10) (.var "y")), none⟩⟩
def run1 (P : Prog) : Option UInt64 :=
  match Core.eval 1000 P ⟨0, 0⟩ [] P.dsp.body [] SNode.empty with
  | .ok (v, _, _) => valBits v
  | .error _ => none
theorem t1 : run1 P0 = some 10 := by decide +kernel

open Mimium.Stage
def src1 : Ex := .escape (.letE "m" (.lam ["x"] (.bracket (.block (.letE "y" (.flt 10) (.escape (.var "x"))))))
   (.bracket (.letE "dsp" (.lam [] (.letE "y" (.flt 1) (.macroExpand (.var "m") [.bracket (.var "y")]))) Ex.unit)))
def isOk : R0 Ex → Bool | .ok _ => true | _ => false
theorem t2 : isOk (expand src1 1000) = true := by decide +kernel
