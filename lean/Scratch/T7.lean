import Mimium.Model.StageCore
open Mimium Mimium.Stage Mimium.Core
inductive Out | num (b : UInt64) | tuple | other deriving DecidableEq, Repr
def outOf (P : Except String Prog) : Out :=
  match P with
  | .error _ => .other
  | .ok P =>
    match Core.eval 1000 P ⟨0, 0⟩ [] P.dsp.body [] SNode.empty with
    | .ok (.num b, _, _) => .num b
    | .ok (.tup _, _, _) => .tuple
    | _ => .other
/-- stage-0 program for `fn dsp(){ let <user> = 5; let ((a,b),c) = ((1,2),3); <user> }` in a fresh compiler thread (counter 0) -/
def dtProg (user : String) : Ex :=
  ap "code_let" [.str "dsp", ap "code_lam_finish_typed" [.arr [], .arr [], tyTag,
    ap "code_let" [.str user, trCode (.flt 5),
      (trLetTuple 3 0 [.tuple [.single "a", .single "b"], .single "c"]
        (trCode (.tup [.tup [.flt 1, .flt 2], .flt 3])) (trCode (.var user))).1]], trCode Ex.unit]
def dtRun (user : String) : Out :=
  match ev0 1000 [] (dtProg user) with
  | .ok (.code e) => outOf (toCoreProg [] e)
  | _ => .other
theorem w : dtRun "zz" = .num 5 ∧ dtRun "__dt0" = .tuple := by decide +kernel
