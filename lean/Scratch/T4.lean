import Mimium.Model.Stage
open Mimium Mimium.Stage
def isSome' : Option (Ex × Bool) → Bool | some _ => true | _ => false
def s0 : Ex := .escape (.app (.var "x") [.var "y", .lam ["a"] .selfL])
theorem a0 : isSome' (convSelf none s0) = true := by decide +kernel
def r0ok : R0 V0 → Bool | .ok _ => true | _ => false
theorem a4 : r0ok (ev0 1000 [] (.app (.var "add") [.flt 1, .flt 2])) = true := by decide +kernel
theorem a5 : hasStaging s0 = true := by decide +kernel
