import Mimium.Model.StageCore
open Mimium Mimium.Stage
deriving instance DecidableEq for Ex
example : (Ex.app (.var "a") [.flt 1]) = (Ex.app (.var "a") [.flt 1]) := by decide +kernel
