import Mimium.Model.Stage
open Mimium Mimium.Stage
def src1 : Ex := .escape (.letE "m" (.lam ["x"] (.bracket (.block (.letE "y" (.flt 10) (.escape (.var "x"))))))
   (.bracket (.letE "dsp" (.lam [] (.letE "y" (.flt 1) (.macroExpand (.var "m") [.bracket (.var "y")]))) Ex.unit)))
def isOk : R0 Ex → Bool | .ok _ => true | _ => false
def isSome' : Option (Ex × Bool) → Bool | some _ => true | _ => false
def isBr : Ex → Bool | .escape _ => true | _ => false
theorem a1 : isBr (convMacro src1) = true := by decide +kernel
theorem a2 : isSome' (convSelf none (convMacro src1)) = true := by decide +kernel
def fe : Ex := match convSelf none (convMacro src1) with | some (e, _) => e | none => .now
def isApp : Ex → Bool | .letE .. => true | _ => false
theorem a3 : isApp (trStage0 (.bracket fe)) = true := by decide +kernel
def r0ok : R0 V0 → Bool | .ok _ => true | _ => false
theorem a4 : r0ok (ev0 1000 [] (trStage0 (.bracket fe))) = true := by decide +kernel
