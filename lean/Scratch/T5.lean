import Mimium.Model.StageCore
open Mimium Mimium.Stage Mimium.Core
def valBits : Val → Option UInt64 | .num b => some b | _ => none
/-- first output sample of `dsp` (programs without globals / inputs) -/
def firstOut (P : Except String Prog) : Option UInt64 :=
  match P with
  | .error _ => none
  | .ok P =>
    match Core.eval 1000 P ⟨0, 0⟩ [] P.dsp.body [] SNode.empty with
    | .ok (v, _, _) => valBits v
    | .error _ => none
def witness (binder : String) : Ex := .escape (.letE "m" (.lam ["x"] (.bracket (.block (.letE binder (.flt 10) (.escape (.var "x"))))))
   (.bracket (.letE "dsp" (.lam [] (.letE "y" (.flt 1) (.macroExpand (.var "m") [.bracket (.var "y")]))) Ex.unit)))
theorem w1 : firstOut (expandToCore [] (witness "y") 1000) = some 10 ∧ firstOut (expandToCore [] (witness "z") 1000) = some 1 := by decide +kernel
