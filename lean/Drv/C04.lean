import Mimium.Model.LexerIO
import Mimium.Model.ParserLoops
import Mimium.Model.Occurs
import Mimium.Gen.TypingFacts
/-! `drv_c04`: line protocol driver for C04.

`drv_c04 spans` — input line (from `c04 spans`): `hex(src) \t classes \t idx:start:end,…`
  (every parser error of the real `parse_cst` plus synthetic out-of-range indices, with the span the real
  `parser_errors_to_reportable` gave it).  Output: `agree \t judge \t n`
  agree = `ok` | `DIFF:<idx>:<model span>`   (model `errorSpan (tokenize …) idx` vs implementation)
  judge = `ok` | `bad:<idx>`                (implementation span inside the text, ordered, on character boundaries)
-/
open Mimium Mimium.Lexer Mimium.LexerIO

def parseTriples (s : String) : Option (List (Nat × Nat × Nat)) :=
  if s == "-" then some [] else
  (s.splitOn ",").mapM fun e => match e.splitOn ":" with
    | [a, b, c] => do pure ((← a.toNat?), (← b.toNat?), (← c.toNat?))
    | _ => none

def spansLine (line : String) : String :=
  match line.splitOn "\t" with
  | hex :: cls :: errs :: _ =>
    match decodeHex hex, parseTriples errs with
    | some s, some es =>
      let C := parseClasses cls
      let toks := tokenize C genTables s
      let bs := boundaries 0 s
      let n := utf8Len s
      let diff := es.find? fun (i, a, b) => errorSpan toks i != (a, b)
      let bad := es.find? fun (_, a, b) => !(a ≤ b && b ≤ n && bs.contains a && bs.contains b)
      let agree := match diff with
        | none => "ok"
        | some (i, _, _) => s!"DIFF:{i}:{(errorSpan toks i).1}..{(errorSpan toks i).2}"
      let judge := match bad with
        | none => "ok"
        | some (i, _, _) => s!"bad:{i}"
      s!"{agree}\t{judge}\t{es.length}"
    | _, _ => "bad-input\tbad-input\t0"
  | _ => "bad-input\tbad-input\t0"

def hexOf (s : String) : String :=
  let digit (n : Nat) : Char := if n < 10 then Char.ofNat (48 + n) else Char.ofNat (87 + n)
  String.ofList (s.toUTF8.toList.flatMap fun b => [digit (b.toNat / 16), digit (b.toNat % 16)])

/-- `drv_c04 occurs <depth>`: one line per type `t` (bare variables excluded):
`hex(program) \t verdict of the occurs check as written \t verdict with || \t does ?0 occur in t` -/
def occursLines (depth : Nat) : List String :=
  (Mimium.Occurs.enumTy depth).filterMap fun t =>
    match t with
    | .var _ => none
    | _ =>
      let show' (o : Option Bool) : String := match o with | some true => "circular" | some false => "bind" | none => "diverge"
      -- first column: the verdict of the occurs check AS WRITTEN in /repo (the operator is re-extracted on every run)
      some (hexOf (Mimium.Occurs.program t) ++ "\t" ++ show' (Mimium.Occurs.occ [] (!Mimium.Gen.occursFnArmIsOr) 0 64 t) ++ "\t" ++
        show' (Mimium.Occurs.occ [] false 0 64 t) ++ "\t" ++ (if (Mimium.Occurs.vars t).contains 0 then "occurs" else "fresh"))

partial def loop (h : IO.FS.Stream) (out : IO.FS.Stream) (f : String → String) : IO Unit := do
  let line ← h.getLine
  if line.isEmpty then return ()
  let line := if line.endsWith "\n" then (line.dropEnd 1).toString else line
  out.putStrLn (f line)
  loop h out f

def main (args : List String) : IO UInt32 := do
  let stdin ← IO.getStdin
  let stdout ← IO.getStdout
  match args with
  | ["spans"] => loop stdin stdout spansLine; return 0
  | ["occurs", d] => do
    for l in occursLines (d.toNat?.getD 1) do
      stdout.putStrLn l
    return 0
  | _ => IO.eprintln "usage: drv_c04 spans < cases | drv_c04 occurs <depth>"; return 2
