import Mimium.Model.LexerIO
import Mimium.Model.ParserLoops
/-! `drv_c04`: line protocol driver for C04.

`drv_c04 spans` — input line (from `c04 spans`): `hex(src) \t classes \t idx:start:end,…`
  (every parser error of the real `parse_cst` plus synthetic out-of-range indices, with the span the real
  `parser_errors_to_reportable` gave it).  Output: `agree \t judge \t n`
  agree = `ok` | `DIFF:<idx>:<model span>`   (model `errorSpan (tokenize …) idx` vs implementation)
  judge = `ok` | `bad:<idx>`                (implementation span inside the text, ordered, on character boundaries)
-/
open Mimium Mimium.Lexer Mimium.LexerIO

def parseTriples (s : String) : Option (List (Nat × Nat × Nat)) :=
  if s == "-" then some [] else
  (s.splitOn ",").mapM fun e => match e.splitOn ":" with
    | [a, b, c] => do pure ((← a.toNat?), (← b.toNat?), (← c.toNat?))
    | _ => none

def spansLine (line : String) : String :=
  match line.splitOn "\t" with
  | hex :: cls :: errs :: _ =>
    match decodeHex hex, parseTriples errs with
    | some s, some es =>
      let C := parseClasses cls
      let toks := tokenize C genTables s
      let bs := boundaries 0 s
      let n := utf8Len s
      let diff := es.find? fun (i, a, b) => errorSpan toks i != (a, b)
      let bad := es.find? fun (_, a, b) => !(a ≤ b && b ≤ n && bs.contains a && bs.contains b)
      let agree := match diff with
        | none => "ok"
        | some (i, _, _) => s!"DIFF:{i}:{(errorSpan toks i).1}..{(errorSpan toks i).2}"
      let judge := match bad with
        | none => "ok"
        | some (i, _, _) => s!"bad:{i}"
      s!"{agree}\t{judge}\t{es.length}"
    | _, _ => "bad-input\tbad-input\t0"
  | _ => "bad-input\tbad-input\t0"

partial def loop (h : IO.FS.Stream) (out : IO.FS.Stream) (f : String → String) : IO Unit := do
  let line ← h.getLine
  if line.isEmpty then return ()
  let line := if line.endsWith "\n" then (line.dropEnd 1).toString else line
  out.putStrLn (f line)
  loop h out f

def main (args : List String) : IO UInt32 := do
  let stdin ← IO.getStdin
  let stdout ← IO.getStdout
  match args with
  | ["spans"] => loop stdin stdout spansLine; return 0
  | _ => IO.eprintln "usage: drv_c04 spans < cases"; return 2
