import Mimium.Model.RustGenIO
/-! `drv_c18`: line protocol driver for C18. stdin lines:
  `cfg \t id \t <block graph>`            -> `id \t <nested> \t <dispatch-loop encoding | refuse> \t <arms>`
  `st \t id \t <storage size> \t <ops>`   -> `id \t <pos> \t <storage> \t <outputs> \t <vm: same|oob|differs>`
  `lay \t id \t <expression shape>`      -> `id \t <arms of mirgen's block numbering>` -/
open Mimium.RustGen

def c18Line (line : String) : String :=
  match line.splitOn "\t" with
  | ["cfg", id, g] => s!"{id}\t{cfgLine g}"
  | ["st", id, size, ops] => s!"{id}\t{stLine size ops}"
  | ["lay", id, sh] => s!"{id}\t{layLine sh}"
  | _ => "?\tbad-line"

partial def loop (h : IO.FS.Stream) (out : IO.FS.Stream) (f : String → String) : IO Unit := do
  let line ← h.getLine
  if line.isEmpty then return ()
  let line := if line.endsWith "\n" then (line.dropEnd 1).toString else line
  out.putStrLn (f line)
  loop h out f

def main (_args : List String) : IO UInt32 := do
  loop (← IO.getStdin) (← IO.getStdout) c18Line
  return 0
