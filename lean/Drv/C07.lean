import Mimium.Model.Migration
import Mimium.Model.StateTreeIO
import Mimium.Model.LiveCoding
import Mimium.Model.CoreIO
/-! `drv_c07`: (1) does the (model of the pinned) migration plan carry sibling i of the old dsp layout onto sibling j of the new one?
Input: `id \t oldSkeleton \t newSkeleton \t i:j,i:j,…`   Output: `id \t 1,0,…`
(2) the PREDICTED output stream of a whole live-coding session (`Model/LiveCoding.lean: session`):
Input: `id \t session \t times \t inputs \t t:k,t:k,… \t sx0 \t sx1 \t …`  (inputs as for `drv_prog`; before sample `t` the event
`t:k` swaps to program `k` of the list; `sx0` runs first; a program given as `BROKEN` does not compile)
Output: `id \t ok w,w;w,w;…` (samples separated by `;`, channels by `,`) or `id \t error` (evaluation error / no migration in the model) -/
open Mimium Mimium.StateTree Mimium.Migration

def parseInputs (s : String) : List (List UInt64) :=
  if s == "-" || s.isEmpty then [] else
  (s.splitOn ";").map fun smp => if smp.isEmpty then [] else (smp.splitOn ",").map Core.parseHex

def parseEvents (s : String) : Option (List (Nat × Nat)) :=
  if s == "-" || s.isEmpty then some [] else
  (s.splitOn ",").mapM fun ev =>
    match ev.splitOn ":" with
    | [t, k] => (match t.toNat?, k.toNat? with
        | some t, some k => some (t, k)
        | _, _ => none)
    | _ => none

def parseProgOrBroken (sx : String) : Option Core.Prog :=
  if sx == "BROKEN" then some LiveCoding.brokenProg else Core.parseProg sx

def sessionLine (id times inputs events : String) (sxs : List String) : String :=
  match times.toNat?, parseEvents events, sxs.mapM parseProgOrBroken with
  | some n, some evs, some (P0 :: progs) =>
    let all := P0 :: progs
    match evs.mapM fun (t, k) => (all[k]?).map fun Q => (t, Q) with
    | none => s!"{id}\tbad-event"
    | some swaps =>
      let ins := parseInputs inputs
      match LiveCoding.session 200000 (48000.0 : Float).toBits P0 swaps (fun t => ins.getD t []) n with
      | none => s!"{id}\terror"
      | some rows => s!"{id}\tok " ++ ";".intercalate (rows.map fun r => ",".intercalate (r.map Core.showWord))
  | _, _, _ => s!"{id}\tbad-input"

def c07Line (line : String) : String :=
  match line.splitOn "\t" with
  | id :: "session" :: times :: inputs :: events :: sxs => sessionLine id times inputs events sxs
  | [id, o, n, pairs] =>
    match parseSk o, parseSk n with
    | some o, some n =>
      let rs := (pairs.splitOn ",").map fun pr =>
        match pr.splitOn ":" with
        | ["-", j] => (match j.toNat? with
            | some j => if childReceives o n j then "R" else "Z"      -- fresh voice: Receives old words / stays Zero
            | none => "?")
        | [i, j] => (match i.toNat?, j.toNat? with
            | some i, some j => if carriesChild o n i j then "1" else "0"
            | _, _ => "?")
        | _ => "?"
      s!"{id}\t" ++ ",".intercalate rs
    | _, _ => s!"{id}\tbad-skeleton"
  | _ => "?\tbad-line"

partial def loop (h : IO.FS.Stream) (out : IO.FS.Stream) (f : String → String) : IO Unit := do
  let line ← h.getLine
  if line.isEmpty then return ()
  let line := if line.endsWith "\n" then (line.dropEnd 1).toString else line
  out.putStrLn (f line)
  loop h out f

def main (_ : List String) : IO UInt32 := do
  loop (← IO.getStdin) (← IO.getStdout) c07Line
  return 0
