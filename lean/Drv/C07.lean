import Mimium.Model.Migration
import Mimium.Model.StateTreeIO
/-! `drv_c07`: does the (model of the pinned) migration plan carry sibling i of the old dsp layout onto sibling j of the new one?
Input: `id \t oldSkeleton \t newSkeleton \t i:j,i:j,…`   Output: `id \t 1,0,…` -/
open Mimium Mimium.StateTree Mimium.Migration

def c07Line (line : String) : String :=
  match line.splitOn "\t" with
  | [id, o, n, pairs] =>
    match parseSk o, parseSk n with
    | some o, some n =>
      let rs := (pairs.splitOn ",").map fun pr =>
        match pr.splitOn ":" with
        | ["-", j] => (match j.toNat? with
            | some j => if childReceives o n j then "R" else "Z"      -- fresh voice: Receives old words / stays Zero
            | none => "?")
        | [i, j] => (match i.toNat?, j.toNat? with
            | some i, some j => if carriesChild o n i j then "1" else "0"
            | _, _ => "?")
        | _ => "?"
      s!"{id}\t" ++ ",".intercalate rs
    | _, _ => s!"{id}\tbad-skeleton"
  | _ => "?\tbad-line"

partial def loop (h : IO.FS.Stream) (out : IO.FS.Stream) (f : String → String) : IO Unit := do
  let line ← h.getLine
  if line.isEmpty then return ()
  let line := if line.endsWith "\n" then (line.dropEnd 1).toString else line
  out.putStrLn (f line)
  loop h out f

def main (_ : List String) : IO UInt32 := do
  loop (← IO.getStdin) (← IO.getStdout) c07Line
  return 0
