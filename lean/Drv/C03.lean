import Mimium.Model.CoreCheckIO
/-! `drv_c03`: the algorithmic type checker of the core language (`Model/CoreCheck`, `Model/CoreInfer`).
Input line: `id \t times \t inputs \t sexpr` (`sexpr` = `(prog …)` or `(aprog (prog …) (binders …) (rets …))`; inputs as for `drv_prog`).
Output line: `id \t <infer verdict> \t <annotated verdict> \t <run>` where a verdict is `accept <words> <type> su|nsu` or
`reject <where>`; the infer verdict keeps the binder types the text states and guesses the rest; the annotated verdict uses the annotations of the text (all parameters / returns `num` when there are none);
`<run>` is the reference evaluator's outcome class on an ACCEPTED program (`ok <nout>`, `fuel`, or the error — which
`C03_check_run_output_width` excludes), `-` for a rejected one. -/
open Mimium.Core

def parseInputs (s : String) : List (List UInt64) :=
  if s == "-" || s.isEmpty then [] else
  (s.splitOn ";").map fun smp => if smp.isEmpty then [] else (smp.splitOn ",").map parseHex

def runClass (P : Prog) (times : Nat) (inputs : List (List UInt64)) : String :=
  let r := runProg P times inputs (fuel := 100000)
  match r.splitOn " " with
  | "ok" :: n :: _ => s!"ok {n}"
  | _ => if (r.splitOn "fuel").length > 1 then "fuel" else r.replace "\t" " "

def line (l : String) : String :=
  match l.splitOn "\t" with
  | [id, times, inputs, sx] =>
    match parseAProg sx, times.toNat? with
    | some (P, ann), some n =>
      let vi := verdictInfer P ((ann.map (·.binders)).getD [])
      let va := verdict (ann.getD ⟨[], []⟩) P
      let run := if vi.startsWith "accept" || va.startsWith "accept" then runClass P n (parseInputs inputs) else "-"
      s!"{id}\t{vi}\t{va}\t{run}"
    | _, _ => s!"{id}\tbad-input"
  | _ => "?\tbad-line"

partial def loop (h : IO.FS.Stream) (out : IO.FS.Stream) (f : String → String) : IO Unit := do
  let l ← h.getLine
  if l.isEmpty then return ()
  let l := if l.endsWith "\n" then (l.dropEnd 1).toString else l
  out.putStrLn (f l)
  loop h out f

def main (_args : List String) : IO UInt32 := do
  loop (← IO.getStdin) (← IO.getStdout) line
  return 0
