import Mimium.Model.Unify
/-! `drv_c03u`: the ported unification (`Model/Unify.lean`) behind the line protocol of `harness/src/bin/c03u.rs`.

stdin : `id \t op;op;…`, op = `U t1 t2` (`unify_types`) | `A t1 t2` (`unify_types_args`), one store per line.
stdout: `id \t verdict|verdict|… \t ?0=parent:subst|?1=…`  (see c03u.rs; `fuel` as a verdict = the model ran out of fuel) -/
open Mimium.Unify

inductive Sx where
  | atom (s : String)
  | list (xs : List Sx)
deriving Inhabited

def tokens (s : String) : List String :=
  let (out, cur) := s.toList.foldl (fun (acc : List String × List Char) c =>
    let (out, cur) := acc
    if c == '(' || c == ')' || c == ' ' then
      let out := if cur.isEmpty then out else String.ofList cur.reverse :: out
      let out := if c == '(' || c == ')' then String.singleton c :: out else out
      (out, [])
    else (out, c :: cur)) ([], [])
  (if cur.isEmpty then out else String.ofList cur.reverse :: out).reverse

/-- one S-expression from the token list (fuel = number of tokens) -/
def parseSx : Nat → List String → Option (Sx × List String)
  | 0, _ => none
  | _, [] => none
  | n + 1, t :: rest =>
    if t == "(" then
      let rec items : Nat → List String → List Sx → Option (Sx × List String)
        | 0, _, _ => none
        | _, [], _ => none
        | _ + 1, ")" :: rest, acc => some (.list acc.reverse, rest)
        | k + 1, toks, acc =>
          match parseSx n toks with
          | some (x, rest) => items k rest (x :: acc)
          | none => none
      items (n + 1) rest []
    else if t == ")" then none
    else some (.atom t, rest)

partial def build : Sx → Option Ty
  | .atom "num" => some (.prim .num)
  | .atom "int" => some (.prim .int)
  | .atom "str" => some (.prim .str)
  | .atom "unit" => some (.prim .unit)
  | .atom "any" => some .any
  | .atom "fail" => some .failure
  | .atom "unk" => some .unknown
  | .atom a => if a.startsWith "?" then ((a.drop 1).toString.toNat?).map .var else none
  | .list (.atom "arr" :: [x]) => (build x).map .array
  | .list (.atom "ref" :: [x]) => (build x).map .ref
  | .list (.atom "code" :: [x]) => (build x).map .code
  | .list (.atom "box" :: [x]) => (build x).map .boxed
  | .list (.atom "tup" :: xs) => (xs.mapM build).map .tuple
  | .list (.atom "uni" :: xs) => (xs.mapM build).map .union
  | .list (.atom "fn" :: [a, r]) => do pure (.fn (← build a) (← build r))
  | .list (.atom "rec" :: fs) =>
    (fs.mapM fun (f : Sx) => match f with
      | .list [.atom "f", .atom k, .atom d, t] => do pure ({ key := (← k.toNat?), dflt := d == "1", ty := (← build t) } : F)
      | _ => none).map .record
  | .list [.atom "sum", .atom n] => n.toNat?.map .usersum
  | .list [.atom "sch", .atom n] => n.toNat?.map .scheme
  | .list [.atom "ali", .atom n] => n.toNat?.map .alias
  | _ => none

partial def showTy : Ty → String
  | .prim .num => "num"
  | .prim .int => "int"
  | .prim .str => "str"
  | .prim .unit => "unit"
  | .any => "any"
  | .failure => "fail"
  | .unknown => "unk"
  | .var v => s!"?{v}"
  | .array t => s!"(arr {showTy t})"
  | .ref t => s!"(ref {showTy t})"
  | .code t => s!"(code {showTy t})"
  | .boxed t => s!"(box {showTy t})"
  | .tuple ts => "(tup" ++ String.join (ts.map fun t => " " ++ showTy t) ++ ")"
  | .union ts => "(uni" ++ String.join (ts.map fun t => " " ++ showTy t) ++ ")"
  | .fn a r => s!"(fn {showTy a} {showTy r})"
  | .record fs => "(rec" ++ String.join (fs.map fun f => s!" (f {f.key} {if f.dflt then 1 else 0} {showTy f.ty})") ++ ")"
  | .usersum n => s!"(sum {n})"
  | .scheme n => s!"(sch {n})"
  | .alias n => s!"(ali {n})"

partial def varsOf : Ty → List Nat
  | .var v => [v]
  | .array t | .ref t | .code t | .boxed t => varsOf t
  | .tuple ts | .union ts => ts.flatMap varsOf
  | .record fs => fs.flatMap fun f => varsOf f.ty
  | .fn a r => varsOf a ++ varsOf r
  | _ => []

def showRel : Rel → String
  | .sub => "Subtype" | .ident => "Identical" | .sup => "Supertype"
def showErr : Err → String
  | .mismatch => "TypeMismatch" | .length => "LengthMismatch" | .circular => "CircularType" | .records => "ImcompatibleRecords"

def parseOp (op : String) : Option (Bool × Ty × Ty) :=
  match tokens op with
  | k :: toks =>
    match parseSx (toks.length + 1) toks with
    | some (a, rest) =>
      match parseSx (rest.length + 1) rest with
      | some (b, _) => do pure (k == "A", (← build a), (← build b))
      | none => none
    | none => none
  | [] => none

def insertSorted (x : Nat) : List Nat → List Nat
  | [] => [x]
  | y :: ys => if x < y then x :: y :: ys else if x = y then y :: ys else y :: insertSorted x ys

def runLine (ops : String) : String × String :=
  let parsed := (ops.splitOn ";").filter (fun o => !(tokens o).isEmpty) |>.map parseOp
  let sz := parsed.foldl (fun n o => match o with | some (_, a, b) => n + size a + size b | none => n) 0
  let fuel := 8 * sz + 64
  let (σ, verdicts, vars, _) := parsed.foldl (fun (acc : Store × List String × List Nat × Bool) o =>
    let (σ, vs, vars, stop) := acc
    if stop then acc else
    match o with
    | none => (σ, "bad-input" :: vs, vars, true)
    | some (args, a, b) =>
      let vars := (varsOf a ++ varsOf b).foldl (fun l v => insertSorted v l) vars
      -- exactly the fuel of the proved bound (`C04_unify_terminates`): `fuel` as an answer would refute it
      match go (fuelG σ a b) (fuelF σ a b) args σ a b with
      | none => (σ, "fuel" :: vs, vars, true)
      | some (σ', .ok r) => (σ', s!"ok:{showRel r}" :: vs, vars, false)
      | some (σ', .error es) => (σ', ("err:" ++ ",".intercalate (es.map showErr)) :: vs, vars, false)) ([], [], [], false)
  let fuel2 := fuel + 8 * (σ.foldl (fun n e => n + size e.2) 0)
  let binds := vars.map fun v =>
    let p := match Mimium.Occurs.parent σ v with | some t => showTy t | none => "-"
    let s := match subst σ fuel2 (.var v) with | some t => showTy t | none => "CYCLE"
    s!"?{v}={p}:{s}"
  ("|".intercalate verdicts.reverse, "|".intercalate binds)

partial def loop (h : IO.FS.Stream) (out : IO.FS.Stream) : IO Unit := do
  let line ← h.getLine
  if line.isEmpty then return ()
  let line := if line.endsWith "\n" then (line.dropEnd 1).toString else line
  match line.splitOn "\t" with
  | id :: ops :: _ =>
    let (v, b) := runLine ops
    out.putStrLn s!"{id}\t{v}\t{b}"
  | _ => pure ()
  loop h out

def main (_args : List String) : IO UInt32 := do
  loop (← IO.getStdin) (← IO.getStdout)
  return 0
