import Mimium.Model.InternerIO
/-! `drv_c15`: runs the interner/arena model (`Model/Interner.lean`) on schedules read from stdin, one per line. -/
open Mimium

partial def loopC15 (h : IO.FS.Stream) (out : IO.FS.Stream) : IO Unit := do
  let line ← h.getLine
  if line.isEmpty then return ()
  let line := if line.endsWith "\n" then (line.dropEnd 1).toString else line
  out.putStrLn (Interner.runLine line)
  loopC15 h out

def main (_args : List String) : IO UInt32 := do
  loopC15 (← IO.getStdin) (← IO.getStdout)
  return 0
