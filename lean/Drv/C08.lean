import Mimium.Model.StateTree
import Mimium.Model.StateTreeIO
import Mimium.Model.StateTreeCheck
/-! `drv_c08`: line protocol driver for C08. One input line per case on stdin, one output line per case. -/
open Mimium

def c08Line (line : String) : String :=
  match line.splitOn "\t" with
  | o :: n :: rest =>
    match StateTree.parseSk o, StateTree.parseSk n with
    | some o, some n =>
      let (p, a) := StateTree.modelLine o n
      let verdict := match rest with
        | ip :: ia :: _ => StateTree.judgeImpl o n ip ia
        | _ => "nojudge"
      s!"{p}\t{a}\t{verdict}"
    | _, _ => "bad-input"
  | _ => "bad-input"

partial def loop (h : IO.FS.Stream) (out : IO.FS.Stream) (f : String → String) : IO Unit := do
  let line ← h.getLine
  if line.isEmpty then return ()
  let line := if line.endsWith "\n" then (line.dropEnd 1).toString else line
  out.putStrLn (f line)
  loop h out f

def main (args : List String) : IO UInt32 := do
  let stdin ← IO.getStdin
  let stdout ← IO.getStdout
  match args with
  | [] => loop stdin stdout c08Line; return 0
  | _ => IO.eprintln "usage: drv_c08 < cases"; return 2
