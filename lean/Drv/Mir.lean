import Mimium.Model.MirIO
import Mimium.Model.MirState
import Mimium.Model.MirWf
/-! `drv_mir`: the Lean MIR semantics on a dump of the real compiler's MIR (`harness/src/bin/mir.rs`).
Input line: `id \t times \t inputs \t dump` (inputs as for `drv_prog`: samples separated by `;`, channels by `,`, 16-hex-digit words, `-` = none).
Output line: `id \t ok <nout> w,w,… | unsupported <what> | stuck <why> | fuel | bad-input` -/
open Mimium.Mir
open Mimium.Core (parseHex)

def parseInputs (s : String) : List (List UInt64) :=
  if s == "-" || s.isEmpty then [] else
  (s.splitOn ";").map fun smp => if smp.isEmpty then [] else (smp.splitOn ",").map parseHex

/-- static checks of every function of a dump: `stateok <nfns> <npass> ok=<i,j,…> fail=<label,…>` -/
def staticLine (P : Prog) : String :=
  let ok := okSet P
  let checked := okSetChecked P ok
  let idx := List.range P.fns.length
  let fails := idx.filter (fun g => !ok.contains g)
  let labels := fails.map fun g => match P.fns[g]? with
    | some f => s!"{g}:{f.label}"
    | none => s!"{g}:?"
  let wfFails := idx.filter fun g => match P.fns[g]? with
    | some f => !wfFn P f (inferWf f)
    | none => true
  let wfLabels := wfFails.map fun g => match P.fns[g]? with
    | some f => s!"{g}:{f.label}"
    | none => s!"{g}:?"
  let enc := (P.fns.filter fun f => (Mimium.RustGen.encode f.cfg).isSome).length
  let fwd := (P.fns.filter fun f => Mimium.RustGen.forward f.cfg && Mimium.RustGen.nested f.cfg).length
  s!"stateok {P.fns.length} {ok.length} checked={checked} fail={",".intercalate labels} wf={P.fns.length - wfFails.length} wffail={",".intercalate wfLabels} enc={enc} fwdnested={fwd}"

def mirLine (line : String) : String :=
  match line.splitOn "\t" with
  | [id, "static", _, dump] =>
    match parseMir dump with
    | some P => s!"{id}\t{staticLine P}"
    | none => s!"{id}\tbad-input"
  | [id, "trace", times, inputs, dump] =>
    match parseMir dump, times.toNat? with
    | some P, some n => s!"{id}\t{runTrace P n (parseInputs inputs)}"
    | _, _ => s!"{id}\tbad-input"
  | [id, times, inputs, dump] =>
    match parseMir dump, times.toNat? with
    | some P, some n => s!"{id}\t{runProg P n (parseInputs inputs)}"
    | _, _ => s!"{id}\tbad-input"
  | _ => "?\tbad-line"

partial def loop (h : IO.FS.Stream) (out : IO.FS.Stream) (f : String → String) : IO Unit := do
  let line ← h.getLine
  if line.isEmpty then return ()
  let line := if line.endsWith "\n" then (line.dropEnd 1).toString else line
  out.putStrLn (f line)
  loop h out f

def main (_args : List String) : IO UInt32 := do
  loop (← IO.getStdin) (← IO.getStdout) mirLine
  return 0
