import Mimium.Model.MirIO
/-! `drv_mir`: the Lean MIR semantics on a dump of the real compiler's MIR (`harness/src/bin/mir.rs`).
Input line: `id \t times \t inputs \t dump` (inputs as for `drv_prog`: samples separated by `;`, channels by `,`, 16-hex-digit words, `-` = none).
Output line: `id \t ok <nout> w,w,… | unsupported <what> | stuck <why> | fuel | bad-input` -/
open Mimium.Mir
open Mimium.Core (parseHex)

def parseInputs (s : String) : List (List UInt64) :=
  if s == "-" || s.isEmpty then [] else
  (s.splitOn ";").map fun smp => if smp.isEmpty then [] else (smp.splitOn ",").map parseHex

def mirLine (line : String) : String :=
  match line.splitOn "\t" with
  | [id, times, inputs, dump] =>
    match parseMir dump, times.toNat? with
    | some P, some n => s!"{id}\t{runProg P n (parseInputs inputs)}"
    | _, _ => s!"{id}\tbad-input"
  | _ => "?\tbad-line"

partial def loop (h : IO.FS.Stream) (out : IO.FS.Stream) (f : String → String) : IO Unit := do
  let line ← h.getLine
  if line.isEmpty then return ()
  let line := if line.endsWith "\n" then (line.dropEnd 1).toString else line
  out.putStrLn (f line)
  loop h out f

def main (_args : List String) : IO UInt32 := do
  loop (← IO.getStdin) (← IO.getStdout) mirLine
  return 0
