import Mimium.Model.LexerIO
import Mimium.Model.LowerIO
/-! `drv_c16`: line protocol driver of the lowering correspondence (text → tokens → CST → AST).
Input line (from `harness/src/bin/c13.rs` run with `C13_LOWER=1`):  `hex(src) \t classes \t program \t errors [\t file=…]`
  program = `parse_program(src)` printed by `harness/src/lower_print.rs` (S-expression, spans `@start..end`), `PANIC` on a panic
  errors  = `token_index|Display` of the errors `parse_program` returns, joined by ` ## `, `-` if none
Output line: `agree \t nTokens \t nStatements \t nErrors \t detail`
  agree = `ok` | `DIFF:spans` (equal modulo spans) | `DIFF:ast` | `DIFF:errors` | `DIFF:fuel` | `bad-input`
-/
open Mimium Mimium.Lexer Mimium.LexerIO Mimium.Lower Mimium.LowerIO

/-- first position where two strings differ, with some context -/
def firstDiff (a b : String) : String :=
  let rec go (xs ys : List Char) (i : Nat) : Nat :=
    match xs, ys with
    | x :: xs', y :: ys' => if x == y then go xs' ys' (i + 1) else i
    | _, _ => i
  let i := go a.toList b.toList 0
  let lo := i - 60
  s!"at {i}: model …{String.ofList ((a.toList.drop lo).take 160)}… impl …{String.ofList ((b.toList.drop lo).take 160)}…"

def c16Line (line : String) : String :=
  match line.splitOn "\t" with
  | hex :: cls :: iprog :: ierrs :: _ =>
    match decodeHex hex with
    | none => "bad-input\t0\t0\t0\thex"
    | some s =>
      let fe := frontEnd (parseClasses cls) genTables s
      let mProg := showFrontEnd fe
      let mErrs := showErrors fe.parse.errs fe.reserved
      let nerr := fe.parse.errs.length + fe.reserved.length
      let head := fun (a : String) (d : String) => s!"{a}\t{fe.toks.length}\t{fe.prog.length}\t{nerr}\t{d}"
      if fe.parse.oof then head "DIFF:fuel" "out of fuel"
      else if mProg != iprog then
        if stripSpans mProg == stripSpans iprog then head "DIFF:spans" (firstDiff mProg iprog)
        else head "DIFF:ast" (firstDiff mProg iprog)
      else if mErrs != ierrs then head "DIFF:errors" (firstDiff mErrs ierrs)
      else head "ok" ""
  | _ => "bad-input\t0\t0\t0\tfields"

/-- `show <hex> [classes]`: print the model's program (debugging aid) -/
def showCase (hex cls : String) : String :=
  match decodeHex hex with
  | none => "bad hex"
  | some s =>
    let fe := frontEnd (parseClasses cls) genTables s
    showFrontEnd fe ++ "\n" ++ showErrors fe.parse.errs fe.reserved

partial def loop (h : IO.FS.Stream) (out : IO.FS.Stream) (f : String → String) : IO Unit := do
  let line ← h.getLine
  if line.isEmpty then return ()
  let line := if line.endsWith "\n" then (line.dropEnd 1).toString else line
  out.putStrLn (f line)
  loop h out f

def main (args : List String) : IO UInt32 := do
  let stdin ← IO.getStdin
  let stdout ← IO.getStdout
  match args with
  | [] => loop stdin stdout c16Line; return 0
  | ["show", hex] => IO.println (showCase hex "-"); return 0
  | ["show", hex, cls] => IO.println (showCase hex cls); return 0
  | _ => IO.eprintln "usage: drv_c16 < cases | drv_c16 show <hex> [classes]"; return 2
