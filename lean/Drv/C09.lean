import Mimium.Model.StageIO
/-! `drv_c09` (shared by C09 and C10): the Lean model of the staging pipeline.
Input line: `id \t times \t inputs \t sexpr` (inputs as for `drv_prog`; sexpr = `(sprog (macro …) (main …))`).
Output line: `id \t <tree after the front end> \t <expanded tree | error …> \t <ok nout w,w,… | error …>` -/
open Mimium.Stage

def parseInputs (s : String) : List (List UInt64) :=
  if s == "-" || s.isEmpty then [] else
  (s.splitOn ";").map fun smp => if smp.isEmpty then [] else (smp.splitOn ",").map Mimium.Core.parseHex

def c09Line (line : String) : String :=
  match line.splitOn "\t" with
  | [id, times, inputs, sx] =>
    match parseSProg sx, times.toNat? with
    | some p, some n =>
      let (front, expanded, out) := runStaged p n (parseInputs inputs)
      s!"{id}\t{front}\t{expanded}\t{out}"
    | _, _ => s!"{id}\tbad-input\t-\t-"
  | _ => "?\tbad-line\t-\t-"

partial def loop (h : IO.FS.Stream) (out : IO.FS.Stream) (f : String → String) : IO Unit := do
  let line ← h.getLine
  if line.isEmpty then return ()
  let line := if line.endsWith "\n" then (line.dropEnd 1).toString else line
  out.putStrLn (f line)
  loop h out f

def main (_args : List String) : IO UInt32 := do
  loop (← IO.getStdin) (← IO.getStdout) c09Line
  return 0
