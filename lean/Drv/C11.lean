import Mimium.Model.Sched
import Mimium.Model.SchedIO
import Mimium.Model.SchedMem
import Mimium.Model.SchedHeap
/-! `drv_c11`: line protocol driver for C11. One input line per case on stdin (as printed by the harness `c11`),
one output line per case:
  `H <model obs> <verdict> <exact|order-differs>`  for handle histories (verdict: any tie order; 4th: vs the BinaryHeap port)
  `P <vm model obs> <wasm queue model obs> <info> <old WASM discipline: model with closure memory obs, or `-`> <vm model over the BinaryHeap port>
     <wasm queue model over the BinaryHeap port>`    for task tables -/
open Mimium.Sched

def c11Line (line : String) : String :=
  let f := line.splitOn "\t"
  match f with
  | "H" :: ops :: rest =>
    let ops := parseOps ops
    let m := runHandle oracle ops { cur := 0, heap := [], pops := 0 }
    let verdict := match rest with
      | impl :: _ => judgeHandle ops m ((impl.splitOn " ").filter (· != ""))
      | _ => "nojudge"
    let exact := match rest with
      | impl :: _ => if showHandle (runHandleStd ops 0 #[]) == impl then "exact" else "order-differs"
      | _ => "nojudge"
    s!"H\t{showHandle m}\t{verdict}\t{exact}"
  | "P" :: _ =>
    match parseTable f with
    | some tb =>
      let vm := Vm.run tb.env oracle tb.ticks ()
      let w := W.run tb.env (fun k => k * 31 + 5) tb.ticks ()
      -- the memory model of the OLD discipline (finding F17, repaired): a statistic only, evaluated when the harness says it is
      -- affordable (9th field `m`; under that discipline the task population of some tables explodes), `-` otherwise.
      -- closure-style tables allocate no record per `@`: the memory model does not apply, the queue model is the prediction
      -- tables with `selK(t, v)` requests (records of two cells): the memory model with record layout
      let mobs := if f.getD 8 "m" != "m" then "-"
        else if tb.closureStyle then showRun w
        else if tb.hasUpv then showRun (R.run tableFmt stdHeap tb.env tb.ticks ()) else showRun (M.run stdHeap tb.env tb.ticks ())
      -- the same two loops with the literal BinaryHeap port inside (the `…_on_binary_heap` theorems are about these)
      let vmH := Vm.runH stdHeap tb.env tb.ticks ()
      let wH := W.runH stdHeap tb.env tb.ticks ()
      s!"P\t{showRun vm}\t{showRun w}\t{runInfo vm}\t{mobs}\t{showRun vmH}\t{showRun wH}"
    | none => "bad-input"
  | _ => "bad-input"

partial def loop (h : IO.FS.Stream) (out : IO.FS.Stream) (f : String → String) : IO Unit := do
  let line ← h.getLine
  if line.isEmpty then return ()
  let line := if line.endsWith "\n" then (line.dropEnd 1).toString else line
  out.putStrLn (f line)
  loop h out f

def main (args : List String) : IO UInt32 := do
  let stdin ← IO.getStdin
  let stdout ← IO.getStdout
  match args with
  | [] => loop stdin stdout c11Line; return 0
  | _ => IO.eprintln "usage: drv_c11 < cases"; return 2
