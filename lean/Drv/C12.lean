import Mimium.Model.Heap
/-! `drv_c12 <N0> <N>`: judge the heap/closure traffic recorded from the real VM (harness `c12`).

Input (stdin), per case:
  `case <id> <status…>` / `i <ops>` / `s <ops>` / `n <closures.len> <heap.len>` / `x <message>` / `end`
  op = `<c|h><A|+|-|F|U|C><slot>.<gen>=<rc>` or `…!` when the implementation found the handle dead.
Output, per case, one line `id \t verdict \t key=value …`:
  verdict = balanced | unbalanced | unsafe | mismatch | crash | skip
  * every op is replayed on the model (`Heap.step`); the model's liveness / refcount / predicted slot-map key are
    compared with what the implementation recorded, and `liveCount` with `closures.len()` / `heap.len()`  (mismatch)
  * an op the model rejects is a use after release / release below zero / reused generation  (unsafe)
  * every sample `≥ N0` is judged by the verified checker `Heap.balanced`  (unbalanced)
-/
open Mimium.Heap

structure RecOp where
  op : Op
  valid : Bool
  rc : Nat
deriving Inhabited

def parseOp (tok : String) : Option RecOp := do
  let cs := tok.toList
  match cs with
  | sp :: kd :: rest =>
    let space ← match sp with | 'c' => some Space.cls | 'h' => some Space.heap | _ => none
    let kind ← match kd with
      | 'A' => some Kind.alloc | '+' => some Kind.retain | '-' => some Kind.release
      | 'F' => some Kind.free | 'U' => some Kind.use | 'C' => some Kind.close | _ => none
    let body := String.ofList rest
    let (keyPart, valid, rc) ←
      if body.endsWith "!" then some ((body.dropEnd 1).toString, false, 0)
      else match body.splitOn "=" with
        | [k, r] => do some (k, true, ← r.toNat?)
        | _ => none
    match keyPart.splitOn "." with
    | [a, b] => do some ⟨⟨kind, ⟨space, ← a.toNat?, ← b.toNat?⟩⟩, valid, rc⟩
    | _ => none
  | _ => none

def showKey (k : Key) : String := (match k.space with | .cls => "c" | .heap => "h") ++ s!"{k.slot}.{k.gen}"
def showKind : Kind → String
  | .alloc => "A" | .retain => "+" | .release => "-" | .free => "F" | .use => "U" | .close => "C"
def showOp (o : Op) : String :=
  (match o.key.space with | .cls => "c" | .heap => "h") ++ showKind o.kind ++ s!"{o.key.slot}.{o.key.gen}"

/-- why the model rejects the op -/
def reason (s : Store) (o : Op) : String :=
  match o.kind with
  | .alloc => "insert-into-occupied-slot-or-reused-generation"
  | .free => match rcOf s o.key with
    | none => "remove-of-dead-handle"
    | some n => s!"remove-with-refcount-{n}"
  | .release => match rcOf s o.key with
    | none => "release-of-dead-handle"
    | some _ => "release-below-zero"
  | _ => match rcOf s o.key with
    | none => (match find s o.key with
      | some c => if c.gen > o.key.gen then "use-after-release(slot-reused)" else "use-after-release"
      | none => "unknown-handle(the-word-is-not-a-reference-to-a-live-or-past-object)")
    | some _ => "use-of-object-with-refcount-0"

structure St where
  id : String := ""
  active : Bool := false
  store : Store := []
  acls : Alloc := Alloc.init
  aheap : Alloc := Alloc.init
  sample : Nat := 0          -- number of `s` lines seen
  ops : Nat := 0
  illegal : Option String := none
  nillegal : Nat := 0
  mismatch : Option String := none
  nmismatch : Nat := 0
  judged : Nat := 0
  unbalanced : Nat := 0
  firstUnb : Option Nat := none
  strict : Nat := 0
  crash : Option String := none
  atN : Option (Nat × Nat × Nat × Nat) := none     -- model cls, heap ; observed cls, heap
  at2N : Option (Nat × Nat × Nat × Nat) := none
  lastDelta : String := "-"
  lastStory : String := "-"
  pendingCounts : Option (Nat × Nat) := none
  allocd : Nat := 0
  freed : Nat := 0

def St.noteMismatch (st : St) (msg : String) : St :=
  { st with nmismatch := st.nmismatch + 1, mismatch := st.mismatch <|> some msg }

/-- replay one recorded op: cross-check with the record, then advance the model -/
def replayOp (st : St) (idx : Nat) (r : RecOp) : St := Id.run do
  let mut st := { st with ops := st.ops + 1 }
  let o := r.op
  let loc := s!"{st.sample}:{idx}:{showOp o}"
  -- liveness as the implementation saw it
  if o.kind != .alloc then
    let l := live st.store o.key
    if l != r.valid then
      st := st.noteMismatch s!"{loc}:liveness-model={l}-impl={r.valid}"
  -- slot-map key prediction
  if o.kind == .alloc then
    let a := match o.key.space with | .cls => st.acls | .heap => st.aheap
    let (ps, pg) := a.next
    if ps != o.key.slot || pg != o.key.gen then
      st := st.noteMismatch s!"{loc}:predicted-key={ps}.{pg}"
    st := match o.key.space with
      | .cls => { st with acls := a.insert, allocd := st.allocd + 1 }
      | .heap => { st with aheap := a.insert, allocd := st.allocd + 1 }
  if o.kind == .free && r.valid then
    st := match o.key.space with
      | .cls => { st with acls := st.acls.remove o.key.slot o.key.gen, freed := st.freed + 1 }
      | .heap => { st with aheap := st.aheap.remove o.key.slot o.key.gen, freed := st.freed + 1 }
  match step st.store o with
  | some s' =>
    if r.valid && o.kind != .free then
      match rcOf s' o.key with
      | some n => if n != r.rc then st := st.noteMismatch s!"{loc}:refcount-model={n}-impl={r.rc}"
      | none => st := st.noteMismatch s!"{loc}:dead-in-model-after-op"
    st := { st with store := s' }
  | none =>
    st := { st with nillegal := st.nillegal + 1,
                    illegal := st.illegal <|> some s!"{loc}:{reason st.store o}" }
  return st

/-- the life of every object inserted in this frame that is still live at its end, e.g. `c:AC=1` -/
def stories (s' : Store) (t : Trace) : String :=
  let keys := (t.filter (·.kind == .alloc)).map (·.key)
  let surv := keys.filter (live s' ·)
  let one (k : Key) : String :=
    let ks := (t.filter (fun o => o.key == k && o.kind != .use)).map (fun o => showKind o.kind)
    (match k.space with | .cls => "c:" | .heap => "h:") ++ String.join ks ++ s!"={(rcOf s' k).getD 0}"
  if surv.isEmpty then "-" else ",".intercalate (surv.map one)

/-- refcount changes of objects that existed before the frame and survive it, e.g. `h1.1:+3` -/
def drift (s s' : Store) : String :=
  let ds := s.filterMap fun c => match c.rc with
    | none => none
    | some n => match rcOf s' ⟨c.space, c.slot, c.gen⟩ with
      | some m => if m != n then some (showKey ⟨c.space, c.slot, c.gen⟩ ++ (if m > n then s!":+{m - n}" else s!":-{n - m}")) else none
      | none => none
  if ds.isEmpty then "-" else ",".intercalate (ds.take 6)

def processFrame (st : St) (n0 : Nat) (isInit : Bool) (toks : List String) : St := Id.run do
  let mut st := st
  let mut trace : Trace := []
  let before := st.store
  let mut idx := 0
  let mut bad := false
  for tk in toks do
    match parseOp tk with
    | some r =>
      st := replayOp st idx r
      trace := r.op :: trace
    | none => bad := true
    idx := idx + 1
  if bad then st := st.noteMismatch s!"{st.sample}:unparsable-op"
  let t := trace.reverse
  if !isInit then
    if st.sample ≥ n0 then
      let b := balanced before t
      st := { st with judged := st.judged + 1 }
      if b then
        if strictlyBalanced before t then st := { st with strict := st.strict + 1 }
      else
        st := { st with unbalanced := st.unbalanced + 1, firstUnb := st.firstUnb <|> some st.sample }
        let dc : Int := (liveCount .cls st.store : Int) - liveCount .cls before
        let dh : Int := (liveCount .heap st.store : Int) - liveCount .heap before
        st := { st with lastDelta := s!"{dc},{dh}", lastStory := stories st.store t ++ "/" ++ (if dc == 0 && dh == 0 then drift before st.store else "-") }
    st := { st with sample := st.sample + 1 }
  return st

def verdictLine (st : St) : String :=
  let verdict :=
    if st.mismatch.isSome then "mismatch"
    else if st.illegal.isSome then "unsafe"
    else if st.crash.isSome then "crash"
    else if st.unbalanced > 0 then "unbalanced"
    else "balanced"
  let f (o : Option (Nat × Nat × Nat × Nat)) := match o with
    | some (a, b, c, d) => s!"{a},{b}/{c},{d}"
    | none => "-"
  s!"{st.id}\t{verdict}\tsamples={st.sample} ops={st.ops} allocs={st.allocd} frees={st.freed} judged={st.judged} unbalanced={st.unbalanced} first={(st.firstUnb.map toString).getD "-"} strict={st.strict} atN={f st.atN} at2N={f st.at2N} delta={st.lastDelta} story={st.lastStory} illegal={st.nillegal} mismatches={st.nmismatch}\t{st.illegal.getD "-"}\t{st.mismatch.getD "-"}\t{st.crash.getD "-"}"

partial def loop (h out : IO.FS.Stream) (n0 n : Nat) (st : St) : IO Unit := do
  let line ← h.getLine
  if line.isEmpty then
    if st.active then out.putStrLn (verdictLine { st with crash := some "harness-output-truncated" })
    return ()
  let line := if line.endsWith "\n" then (line.dropEnd 1).toString else line
  let toks := (line.splitOn " ").filter (· != "")
  match toks with
  | "case" :: id :: status =>
    if st.active then out.putStrLn (verdictLine { st with crash := some "harness-output-truncated" })
    if status.head? == some "ok" then
      loop h out n0 n { id := id, active := true }
    else
      out.putStrLn s!"{id}\tskip\t{" ".intercalate status}"
      loop h out n0 n {}
  | "i" :: ops => loop h out n0 n (if st.active then processFrame st n0 true ops else st)
  | "s" :: ops => loop h out n0 n (if st.active then processFrame st n0 false ops else st)
  | ["n", a, b] =>
    if st.active then
      let oc := a.toNat?.getD 0
      let oh := b.toNat?.getD 0
      let mc := liveCount .cls st.store
      let mh := liveCount .heap st.store
      let mut st := st
      if mc != oc || mh != oh then
        st := st.noteMismatch s!"{st.sample}:live-count-model={mc},{mh}-impl={oc},{oh}"
      if st.sample == n then st := { st with atN := some (mc, mh, oc, oh) }
      if st.sample == 2 * n then st := { st with at2N := some (mc, mh, oc, oh) }
      loop h out n0 n st
    else loop h out n0 n st
  | "x" :: msg => loop h out n0 n (if st.active then { st with crash := some ("_".intercalate msg) } else st)
  | ["end"] =>
    if st.active then out.putStrLn (verdictLine st)
    loop h out n0 n {}
  | _ => loop h out n0 n st

/-- `drv_c12 witnesses`: the traces the `C12_witness_*` theorems talk about, in the harness' notation (without counts) -/
def printWitnesses : IO Unit := do
  for (name, t) in [("k1_let_closure", witnessLetClosure), ("k2_fn_arg", witnessFnArg), ("k3_fn_ret", witnessFnRet),
                    ("k4_box", witnessBox)] do
    IO.println s!"{name}\t{" ".intercalate (t.map showOp)}"

def main (args : List String) : IO UInt32 := do
  if args.head? == some "witnesses" then
    printWitnesses
    return 0
  let n0 := (args[0]? >>= String.toNat?).getD 16
  let n := (args[1]? >>= String.toNat?).getD 2000
  loop (← IO.getStdin) (← IO.getStdout) n0 n {}
  return 0
