import Mimium.Model.Pretty
import Mimium.Model.NewlineRule
/-! `drv_c14`: line protocol driver for C14 (layout-engine model).
Input line: `width \t tree [\t anything]`; output line: hex of the UTF-8 bytes of `render width tree`, then
`\t` number of newline pieces `\t` number of content pieces.
Tree syntax (no spaces): `N` nil, `H` hardline, `T<len>:<hex>.` text, `A(l,r)` append, `F(b,f)` flat_alt,
`G(d)` group, `E<off>(d)` nest (offset may be negative). -/
open Mimium.Pretty

def hexVal (c : Char) : Option Nat :=
  if '0' ≤ c ∧ c ≤ '9' then some (c.toNat - 48)
  else if 'a' ≤ c ∧ c ≤ 'f' then some (c.toNat - 87)
  else none

partial def unhex (cs : List Char) (acc : ByteArray) : Option (ByteArray × List Char) :=
  match cs with
  | '.' :: r => some (acc, r)
  | a :: b :: r =>
    match hexVal a, hexVal b with
    | some x, some y => unhex r (acc.push (UInt8.ofNat (x * 16 + y)))
    | _, _ => none
  | _ => none

def readNat (cs : List Char) : Nat × List Char :=
  let ds := cs.takeWhile Char.isDigit
  (ds.foldl (fun a c => a * 10 + (c.toNat - 48)) 0, cs.dropWhile Char.isDigit)

partial def parseDoc (cs : List Char) : Option (Doc × List Char) :=
  match cs with
  | 'N' :: r => some (.nil, r)
  | 'H' :: r => some (.hardline, r)
  | 'T' :: r =>
    let (len, r) := readNat r
    match r with
    | ':' :: r =>
      match unhex r ByteArray.empty with
      | some (bs, r) =>
        match String.fromUTF8? bs with
        | some s => some (.text len s, r)
        | none => none
      | none => none
    | _ => none
  | 'A' :: '(' :: r => two Doc.append r
  | 'F' :: '(' :: r => two Doc.flatAlt r
  | 'G' :: '(' :: r =>
    match parseDoc r with
    | some (d, ')' :: r) => some (.group d, r)
    | _ => none
  | 'E' :: r =>
    let (neg, r) := match r with
      | '-' :: r => (true, r)
      | _ => (false, r)
    let (n, r) := readNat r
    match r with
    | '(' :: r =>
      match parseDoc r with
      | some (d, ')' :: r) => some (.nest (if neg then -(Int.ofNat n) else Int.ofNat n) d, r)
      | _ => none
    | _ => none
  | _ => none
where
  two (mk : Doc → Doc → Doc) (r : List Char) : Option (Doc × List Char) :=
    match parseDoc r with
    | some (a, ',' :: r) =>
      match parseDoc r with
      | some (b, ')' :: r) => some (mk a b, r)
      | _ => none
    | _ => none

def hexDigit (n : Nat) : Char := if n < 10 then Char.ofNat (48 + n) else Char.ofNat (87 + n)

def toHex (s : String) : String :=
  String.ofList (s.toUTF8.toList.flatMap (fun b => [hexDigit (b.toNat / 16), hexDigit (b.toNat % 16)]))

open Mimium.NewlineRule in
def tkOf (c : Char) : Option TK :=
  match c with
  | 'a' => some .atom
  | 'm' => some .minus
  | '(' => some .lparen
  | ')' => some .rparen
  | '[' => some .lbrack
  | ']' => some .rbrack
  | '.' => some .dot
  | ',' => some .comma
  | 'X' => some (.op 10)
  | c => if '2' ≤ c ∧ c ≤ '9' then some (.op (c.toNat - 48)) else none

/-- `P \t classes \t nlbits ...` → shape of the model's tree, then `\t` 1 if the model recorded an error -/
def nlLine (cls bits : String) : String :=
  match cls.toList.mapM tkOf with
  | some ts =>
    let bs := bits.toList.toArray
    let nl := fun (i : Nat) => bs.getD i '0' == '1'
    let sh := (Mimium.NewlineRule.parse ts nl).show
    s!"{sh}\t{if sh.contains '!' then 1 else 0}"
  | none => "bad-input"

def c14Line (line : String) : String :=
  match line.splitOn "\t" with
  | "P" :: cls :: bits :: _ => nlLine cls bits
  | w :: t :: _ =>
    match w.toNat?, parseDoc t.toList with
    | some w, some (d, []) =>
      let ps := renderP w d
      s!"{toHex (String.ofList (flatten ps))}\t{newlines ps}\t{(toks ps).length}"
    | _, _ => "bad-input"
  | _ => "bad-input"

partial def loop (h : IO.FS.Stream) (out : IO.FS.Stream) (f : String → String) : IO Unit := do
  let line ← h.getLine
  if line.isEmpty then return ()
  let line := if line.endsWith "\n" then (line.dropEnd 1).toString else line
  out.putStrLn (f line)
  loop h out f

def main (args : List String) : IO UInt32 := do
  let stdin ← IO.getStdin
  let stdout ← IO.getStdout
  match args with
  | [] => loop stdin stdout c14Line; return 0
  | _ => IO.eprintln "usage: drv_c14 < cases"; return 2
