import Mimium.Model.Pretty
import Mimium.Model.NewlineRule
import Mimium.Model.CstPrintSpec
import Mimium.Model.CstStrict
import Mimium.Model.CstGrammar
import Mimium.Model.LexerIO
/-! `drv_c14`: line protocol driver for C14 (layout-engine model).
Input line: `width \t tree [\t anything]`; output line: hex of the UTF-8 bytes of `render width tree`, then
`\t` number of newline pieces `\t` number of content pieces.
`F \t hex(src) \t classes \t widths \t cfgs [\t show]`: the ported formatter (tokenizer + preparse + grammar + `Model/CstPrint.lean` +
layout engine) on a source text; `widths` = `i:w,…` display width of every non-ASCII raw token (`-` if none), `cfgs` = `width:indent,…`;
answer `ok \t fnv64 of the output per configuration \t #leaves \t keepsAll \t kind of the first node outside the class \t content = expected \t strictTree \t only covered kinds \t keepsAllOn covered` (with `show`: hex of the outputs instead of hashes) or `ERR` when the
ported parser reports a syntax error (the real `pretty_print` returns `Err`).
Tree syntax (no spaces): `N` nil, `H` hardline, `T<len>:<hex>.` text, `A(l,r)` append, `F(b,f)` flat_alt,
`G(d)` group, `E<off>(d)` nest (offset may be negative). -/
open Mimium.Pretty

def hexVal (c : Char) : Option Nat :=
  if '0' ≤ c ∧ c ≤ '9' then some (c.toNat - 48)
  else if 'a' ≤ c ∧ c ≤ 'f' then some (c.toNat - 87)
  else none

partial def unhex (cs : List Char) (acc : ByteArray) : Option (ByteArray × List Char) :=
  match cs with
  | '.' :: r => some (acc, r)
  | a :: b :: r =>
    match hexVal a, hexVal b with
    | some x, some y => unhex r (acc.push (UInt8.ofNat (x * 16 + y)))
    | _, _ => none
  | _ => none

def readNat (cs : List Char) : Nat × List Char :=
  let ds := cs.takeWhile Char.isDigit
  (ds.foldl (fun a c => a * 10 + (c.toNat - 48)) 0, cs.dropWhile Char.isDigit)

partial def parseDoc (cs : List Char) : Option (Doc × List Char) :=
  match cs with
  | 'N' :: r => some (.nil, r)
  | 'H' :: r => some (.hardline, r)
  | 'T' :: r =>
    let (len, r) := readNat r
    match r with
    | ':' :: r =>
      match unhex r ByteArray.empty with
      | some (bs, r) =>
        match String.fromUTF8? bs with
        | some s => some (.text len s, r)
        | none => none
      | none => none
    | _ => none
  | 'A' :: '(' :: r => two Doc.append r
  | 'F' :: '(' :: r => two Doc.flatAlt r
  | 'G' :: '(' :: r =>
    match parseDoc r with
    | some (d, ')' :: r) => some (.group d, r)
    | _ => none
  | 'E' :: r =>
    let (neg, r) := match r with
      | '-' :: r => (true, r)
      | _ => (false, r)
    let (n, r) := readNat r
    match r with
    | '(' :: r =>
      match parseDoc r with
      | some (d, ')' :: r) => some (.nest (if neg then -(Int.ofNat n) else Int.ofNat n) d, r)
      | _ => none
    | _ => none
  | _ => none
where
  two (mk : Doc → Doc → Doc) (r : List Char) : Option (Doc × List Char) :=
    match parseDoc r with
    | some (a, ',' :: r) =>
      match parseDoc r with
      | some (b, ')' :: r) => some (mk a b, r)
      | _ => none
    | _ => none

def hexDigit (n : Nat) : Char := if n < 10 then Char.ofNat (48 + n) else Char.ofNat (87 + n)

def toHex (s : String) : String :=
  String.ofList (s.toUTF8.toList.flatMap (fun b => [hexDigit (b.toNat / 16), hexDigit (b.toNat % 16)]))

open Mimium.NewlineRule in
def tkOf (c : Char) : Option TK :=
  match c with
  | 'a' => some .atom
  | 'm' => some .minus
  | '(' => some .lparen
  | ')' => some .rparen
  | '[' => some .lbrack
  | ']' => some .rbrack
  | '.' => some .dot
  | ',' => some .comma
  | 'X' => some (.op 10)
  | c => if '2' ≤ c ∧ c ≤ '9' then some (.op (c.toNat - 48)) else none

/-- `P \t classes \t nlbits ...` → shape of the model's tree, then `\t` 1 if the model recorded an error -/
def nlLine (cls bits : String) : String :=
  match cls.toList.mapM tkOf with
  | some ts =>
    let bs := bits.toList.toArray
    let nl := fun (i : Nat) => bs.getD i '0' == '1'
    let sh := (Mimium.NewlineRule.parse ts nl).show
    s!"{sh}\t{if sh.contains '!' then 1 else 0}"
  | none => "bad-input"

/-- FNV-1a, 64 bit, over the UTF-8 bytes -/
def fnv64 (s : String) : UInt64 :=
  s.toUTF8.foldl (fun h b => (h ^^^ b.toUInt64) * 0x100000001b3) 0xcbf29ce484222325

def hex64 (h : UInt64) : String :=
  String.ofList ((List.range 16).map fun i => hexDigit ((h >>> (UInt64.ofNat (60 - 4 * i))).toNat % 16))

open Mimium Mimium.Lexer Mimium.LexerIO in
/-- the ported `pretty_print` on a text -/
def fmtLine (hex cls wids cfgs : String) (shw : Bool) : String :=
  match decodeHex hex with
  | none => "bad-input"
  | some s =>
    let C := parseClasses cls
    let ls := splitProj none (lex C genTables s)
    let ks := ls.map (·.kind) ++ [Gen.Kind.Eof]
    let lens := ls.map (fun l => utf8Len l.text) ++ [0]
    let texts : Array String := (ls.map fun l => String.ofList l.text).toArray
    let wmap : List (Nat × Nat) := (wids.splitOn ",").filterMap fun e =>
      match e.splitOn ":" with
      | [a, b] => match a.toNat?, b.toNat? with
        | some a, some b => some (a, b)
        | _, _ => none
      | _ => none
    let warr : Array (Option Nat) := wmap.foldl (fun a e => a.setIfInBounds e.1 (some e.2)) (Array.replicate texts.size none)
    let txt := fun (i : Nat) =>
      let t := texts.getD i ""
      (match warr.getD i none with | some w => w | none => t.length, t)
    let st := Grammar.parseTokens ks lens
    if st.oof then "OOF"
    else if !st.errs.isEmpty then "ERR"
    else match st.b.root with
      | none => "NOROOT"
      | some root =>
        let pre := Preparse.preparse ks
        let sd := CstPrint.formatS ks pre root
        let outs := (cfgs.splitOn ",").filterMap fun e =>
          match e.splitOn ":" with
          | [w, i] => match w.toNat?, i.toNat? with
            | some w, some i => some (CstPrint.formatText ks pre root i txt w)
            | _, _ => none
          | _ => none
        let body := ",".intercalate (outs.map fun o => if shw then toHex o else hex64 (fnv64 o))
        let cx : CstPrint.Ctx := ⟨ks.toArray, pre⟩
        let keeps := CstPrint.keepsAll cx root
        let same := CstPrint.content cx sd == CstPrint.expected cx root
        let loss := match CstPrint.firstLoss cx root with
          | some k => Gen.skNames.getD k "?"
          | none => "-"
        let strict := CstPrint.strictTree cx root
        let cov := CstPrint.usesOnly CstPrint.covered root
        let keepsOn := CstPrint.keepsAllOn CstPrint.covered cx root
        s!"ok\t{body}\t{sd.leaves.length}\t{if keeps then 1 else 0}\t{loss}\t{if same then 1 else 0}\t{if strict then 1 else 0}\t{if cov then 1 else 0}\t{if keepsOn then 1 else 0}"

def c14Line (line : String) : String :=
  match line.splitOn "\t" with
  | "F" :: hex :: cls :: wids :: cfgs :: rest => fmtLine hex cls wids cfgs (rest.head? == some "show")
  | "P" :: cls :: bits :: _ => nlLine cls bits
  | w :: t :: _ =>
    match w.toNat?, parseDoc t.toList with
    | some w, some (d, []) =>
      let ps := renderP w d
      s!"{toHex (String.ofList (flatten ps))}\t{newlines ps}\t{(toks ps).length}"
    | _, _ => "bad-input"
  | _ => "bad-input"

partial def loop (h : IO.FS.Stream) (out : IO.FS.Stream) (f : String → String) : IO Unit := do
  let line ← h.getLine
  if line.isEmpty then return ()
  let line := if line.endsWith "\n" then (line.dropEnd 1).toString else line
  out.putStrLn (f line)
  loop h out f

def main (args : List String) : IO UInt32 := do
  let stdin ← IO.getStdin
  let stdout ← IO.getStdout
  match args with
  | [] => loop stdin stdout c14Line; return 0
  | _ => IO.eprintln "usage: drv_c14 < cases"; return 2
