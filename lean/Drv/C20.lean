import Mimium.Model.Ffi
import Mimium.Model.FfiIO
/-! `drv_c20`: reads the lines printed by `harness/src/bin/c20.rs`, runs the Lean model on the same case and prints
`<verdict>\t<model ser>\t<model back>`; verdict = `agree|MISMATCH` `;` property verdict on the implementation's output. -/
open Mimium.Ffi

def agree (a b c d : String) : String := if a == b && c == d then "agree" else "MISMATCH"

/-- refusals of the hand-written serializers: the model says `ERR`, the code `ERR:<serde message>` -/
def agreeE (ms ser mb back : String) : String :=
  if (ms == ser || (ms == "ERR" && ser.startsWith "ERR:")) && mb == back then "agree" else "MISMATCH"

def c20Line (line : String) : String :=
  match line.splitOn "\t" with
  | ["V", txt, ser, back] =>
    match parseValueStr txt with
    | none => "bad-input\t-\t-"
    | some v =>
      let (ms, mb) := modelV v
      s!"{agree ms ser mb back};{judgeV v ser back}\t{ms}\t{mb}"
  | ["M", txt, ser, back] =>
    match parseArgsStr txt with
    | none => "bad-input\t-\t-"
    | some as =>
      let (ms, mb) := modelM as
      s!"{agree ms ser mb back};{judgeM as ser back}\t{ms}\t{mb}"
  | ["B", hex, res] =>
    match bytesOfHex hex with
    | none => "bad-input\t-\t-"
    | some bs =>
      let m := match deserializeValue (σ := String) id bs with
        | some v => showValue symStr v
        | none => "ERR"
      s!"{agree m res "" ""};{if res == "PANIC" then "PROPFAIL:panic" else "ok"}\t-\t{m}"
  | ["A", hex, res] =>
    match bytesOfHex hex with
    | none => "bad-input\t-\t-"
    | some bs =>
      let m := match deserializeMacroArgs (σ := String) id bs with
        | some as => showArgs as
        | none => "ERR"
      s!"{agree m res "" ""};{if res == "PANIC" then "PROPFAIL:panic" else "ok"}\t-\t{m}"
  | ["T", txt, ser, back] =>
    match parseTy txt with
    | none => "bad-input\t-\t-"
    | some t =>
      let (ms, mb) := modelT t
      s!"{agreeE ms ser mb back};{judgeT t ser back}\t{ms}\t{mb}"
  | ["W", txt, ser, back] =>
    match parseRawStr txt with
    | none => "bad-input\t-\t-"
    | some v =>
      let (ms, mb) := modelW v
      s!"{agreeE ms ser mb back};{judgeW v ser back}\t{ms}\t{mb}"
  | ["Y", hex, res] =>
    match bytesOfHex hex with
    | none => "bad-input\t-\t-"
    | some bs =>
      let m := match decodeTyTop bs with
        | some t => showTy t
        | none => "ERR"
      s!"{agree m res "" ""};{if res == "PANIC" then "PROPFAIL:panic" else "ok"}\t-\t{m}"
  | ["Z", hex, res] =>
    match bytesOfHex hex with
    | none => "bad-input\t-\t-"
    | some bs =>
      let m := match decodeValTop bs with
        | some v => showRaw v
        | none => "ERR"
      s!"{agree m res "" ""};{if res == "PANIC" then "PROPFAIL:panic" else "ok"}\t-\t{m}"
  | _ => "skip\t-\t-"

partial def loop (h : IO.FS.Stream) (out : IO.FS.Stream) (f : String → String) : IO Unit := do
  let line ← h.getLine
  if line.isEmpty then return ()
  let line := if line.endsWith "\n" then (line.dropEnd 1).toString else line
  out.putStrLn (f line)
  loop h out f

def main (args : List String) : IO UInt32 := do
  let stdin ← IO.getStdin
  let stdout ← IO.getStdout
  match args with
  | [] => loop stdin stdout c20Line; return 0
  | _ => IO.eprintln "usage: drv_c20 < harness-lines"; return 2
