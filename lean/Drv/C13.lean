import Mimium.Model.LexerIO
import Mimium.Model.CstGrammarIO
/-! `drv_c13`: line protocol driver for C13.
Input line (from `harness/src/bin/c13.rs`):
  `hex(src) \t classes \t tokens \t token_indices \t leading \t trailing \t leaves \t flags`
Output line:
  `agree \t judge \t nTokens \t nTrivia \t nDropped \t detail`
  agree  = `ok` or `DIFF:<first differing field>`      (model vs implementation)
  judge  = `ok` | `F7a` | `F7b` | `bad:<clause>`        (implementation output vs the property, by the executable checker)
-/
open Mimium Mimium.Lexer Mimium.Preparse Mimium.LexerIO

/-- the ported parser on the token list; `none` = agrees with the real tree, error list and relabelling -/
def cstDiff (ks : List Gen.Kind) (widths : List Nat) (itree ierrs irel : String) : Option String :=
  let st := Grammar.parseTokens ks widths
  let mTree := GrammarIO.showRoot st
  let mErrs := GrammarIO.showErrs st.errs
  let mRel := GrammarIO.showRelabels ks st
  if st.oof then some s!"DIFF:fuel\tout of fuel {Grammar.fuelBound (preparse ks).tokenIndices.length}"
  else if mTree != itree then some s!"DIFF:cst\t{mTree}"
  else if mErrs != ierrs then some s!"DIFF:cst-errors\t{mErrs}"
  else if mRel != irel then some s!"DIFF:cst-relabels\t{mRel}"
  else none

/-- `K` lines: arbitrary kind sequences fed to the real `preparse`/`parse_cst`; only the preparse model and the judge apply -/
def c13Kinds (itoks iidx ilead itrail ileaves itree ierrs irel : String) : String :=
  match parseTokens itoks with
  | none => "bad-input\tbad-input\t0\t0\t0\ttokens"
  | some ts =>
    let ks := ts.map Token.kind
    let r := preparse ks
    let mI := showNats r.tokenIndices
    let mL := showMap r.leading
    let mR := showMap r.trailing
    let agree :=
      if mI != iidx then s!"DIFF:token_indices\t{mI}"
      else if mL != ilead then s!"DIFF:leading\t{mL}"
      else if mR != itrail then s!"DIFF:trailing\t{mR}"
      else if mI != ileaves then s!"DIFF:leaves\t{mI}"
      else match cstDiff ks (ts.map Token.len) itree ierrs irel with
        | some d => d
        | none => "ok\t"
    let (judge, nTriv, nDrop) :=
      match parseNats iidx, parseMap ilead, parseMap itrail, parseNats ileaves with
      | some idx, some ld, some tr, some lv =>
        let rep := triviaJudge ks ⟨idx, ld, tr⟩
        let j :=
          if idx != LexerIO.syntaxIndices ks then "bad:token_indices"
          else if lv != idx then "bad:cst-leaves"
          else if rep.bad != 0 then s!"bad:trivia@{rep.firstBad.getD 0}"
          else if rep.droppedClass != 0 then (if idx.isEmpty then "F7b" else "F7a")
          else "ok"
        (j, rep.trivia, rep.droppedClass)
      | _, _, _, _ => ("bad:unparsable(" ++ ileaves.take 40 ++ ")", 0, 0)
    match agree.splitOn "\t" with
    | [a, d] => s!"{a}\t{judge}\t{ts.length}\t{nTriv}\t{nDrop}\t{d}"
    | _ => s!"{agree}\t{judge}\t{ts.length}\t{nTriv}\t{nDrop}\t"

def c13Line (line : String) : String :=
  match line.splitOn "\t" with
  | "K" :: _ :: itoks :: iidx :: ilead :: itrail :: ileaves :: _ :: itree :: ierrs :: irel :: _ =>
    c13Kinds itoks iidx ilead itrail ileaves itree ierrs irel
  | hex :: cls :: itoks :: iidx :: ilead :: itrail :: ileaves :: _flags :: itree :: ierrs :: irel :: _ =>
    match decodeHex hex with
    | none => "bad-input\tbad-input\t0\t0\t0\thex"
    | some s =>
      let C := parseClasses cls
      let mtoks := tokenize C genTables s
      let ks := mtoks.map Token.kind
      let r := preparse ks
      let mT := showTokens mtoks
      let mI := showNats r.tokenIndices
      let mL := showMap r.leading
      let mR := showMap r.trailing
      let mLeaves := showNats r.tokenIndices     -- C13_cst_leaves: the leaves are the bumped tokens = token_indices
      let agree :=
        if mT != itoks then s!"DIFF:tokens\t{mT}"
        else if mI != iidx then s!"DIFF:token_indices\t{mI}"
        else if mL != ilead then s!"DIFF:leading\t{mL}"
        else if mR != itrail then s!"DIFF:trailing\t{mR}"
        else if mLeaves != ileaves then s!"DIFF:leaves\t{mLeaves}"
        else match cstDiff ks (mtoks.map Token.len) itree ierrs irel with
          | some d => d
          | none => "ok\t"
      -- judge the implementation's own output
      let (judge, nTriv, nDrop) :=
        match parseTokens itoks, parseNats iidx, parseMap ilead, parseMap itrail, parseNats ileaves with
        | some ts, some idx, some ld, some tr, some lv =>
          let iks := ts.map Token.kind
          let rep := triviaJudge iks ⟨idx, ld, tr⟩
          let j :=
            if !tilesOk s ts then "bad:tiling"
            else if idx != syntaxIndices iks then "bad:token_indices"
            else if lv != idx then "bad:cst-leaves"
            else if rep.bad != 0 then s!"bad:trivia@{rep.firstBad.getD 0}"
            else if rep.droppedClass != 0 then (if idx.isEmpty then "F7b" else "F7a")
            else "ok"
          (j, rep.trivia, rep.droppedClass)
        | _, _, _, _, _ => ("bad:unparsable(" ++ ileaves.take 40 ++ ")", 0, 0)
      match agree.splitOn "\t" with
      | [a, d] => s!"{a}\t{judge}\t{mtoks.length}\t{nTriv}\t{nDrop}\t{d}"
      | _ => s!"{agree}\t{judge}\t{mtoks.length}\t{nTriv}\t{nDrop}\t"
  | _ => "bad-input\tbad-input\t0\t0\t0\tfields"

partial def loop (h : IO.FS.Stream) (out : IO.FS.Stream) (f : String → String) : IO Unit := do
  let line ← h.getLine
  if line.isEmpty then return ()
  let line := if line.endsWith "\n" then (line.dropEnd 1).toString else line
  out.putStrLn (f line)
  loop h out f

def main (args : List String) : IO UInt32 := do
  let stdin ← IO.getStdin
  let stdout ← IO.getStdout
  match args with
  | [] => loop stdin stdout c13Line; return 0
  | _ => IO.eprintln "usage: drv_c13 < cases"; return 2
