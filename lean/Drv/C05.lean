import Mimium.Model.Layout
import Mimium.Model.StateTreeIO
import Mimium.Model.CoreIO
import Mimium.Model.Publish
/-! `drv_c05`: judge recorded VM state-access traces against the published dsp layout, and compare the layout the
Lean model of mirgen (`Model/Publish.lean`) publishes for `dsp` with the skeleton of the real compiler.
Input: `id \t status \t skeleton \t rec|rec|… [\t sexpr]` with rec = `trace@cursor@vmwords@wasmwords`, trace = `K:g:pos:size;…`.
Output: `id \t ok <samples> <accesses> mode=<strict|sel> skipped=<n>` or `id \t bad:<sample>:<reason>` or `id \t skip:<status>`, then (third field)
`same|diff model=<skeleton>` + ` cells=<n> depth=<d> delays=<k> zero=<pruned children> cls=<0|1> clsz=<0|1> sites=<0|1>`, or `nomodel:<why>` -/
open Mimium Mimium.Layout Mimium.StateTree Mimium.Core Mimium.FlatTree Mimium.Publish

def nodupB : List Nat → Bool
  | [] => true
  | x :: xs => !(xs.contains x) && nodupB xs

def sitesOkB (e : Expr) : Bool :=
  nodupB ((siteLens e).map (·.1)) && (siteLens e).all (fun p => p.2 < 2 ^ 64)

partial def countSk : Sk → Nat
  | .fn cs => cs.foldl (fun a c => a + countSk c) 1
  | _ => 1

/-- cells of a skeleton (every node except the root and `Feed` cells) -/
partial def skCellCount : Sk → Nat
  | .fn cs => cs.foldl (fun a c => a + (match c with | .feed _ => 0 | .fn _ => 1 + skCellCount c | _ => 1)) 0
  | _ => 0

/-- nesting depth of `FnCall` children -/
partial def skDepth : Sk → Nat
  | .fn cs => cs.foldl (fun a c => max a (match c with | .fn _ => 1 + skDepth c | _ => 0)) 0
  | _ => 0

/-- compare the model's published skeleton of `dsp` with the implementation's -/
def pubLine (skel : String) (sx : String) : String :=
  if sx == "-" || sx.isEmpty then "nomodel:nosx" else
  match parseProg sx with
  | none => "nomodel:unparsable-sexpr"
  | some P =>
    match publishFn P P.dsp with
    | none => "nomodel:no-layout(undefined-callee-or-recursion)"
    | some lay =>
      let m := (publishedSk lay).show
      let cls := noStateInArms P P.dsp.body
      let clsz := noStatefulInArms P P.dsp.body
      let sites := sitesOkB P.dsp.body && P.fns.all (fun d => sitesOkB d.body)
      let nzero := countSk lay.sk - countSk (publishedSk lay)
      let info := s!" cells={skCellCount (publishedSk lay)} depth={skDepth (publishedSk lay)} delays={countDelays lay.cells} zero={nzero} cls={if cls then 1 else 0} clsz={if clsz then 1 else 0} sites={if sites then 1 else 0}"
      if m == skel then "same" ++ info else s!"diff model={m}" ++ info

def parseAccess (s : String) : Option (Bool × Access) :=
  match s.splitOn ":" with
  | [k, g, p, z] => do
    let kind ← match k with | "G" => some Kind.get | "S" => some Kind.set | "M" => some Kind.mem | "D" => some Kind.delay | _ => none
    some (g == "1", ⟨kind, ← p.toNat?, ← z.toNat?⟩)
  | _ => none

/-- judge one dsp call.  `strict`: the program has no stateful construct inside an `if` arm (class `noStatefulInArms`), every
cell is accessed in every call (`conforms`); otherwise a call touches the cells outside arms and those of the arms taken
(`conformsSel`).  Returns (accesses judged, accesses of the layout not performed). -/
def judgeRec (strict : Bool) (sk : Sk) (r : String) : Except String (Nat × Nat) :=
  match r.splitOn "@" with
  | tr :: cur :: _ =>
    let items := if tr == "." then [] else tr.splitOn ";"
    match items.mapM parseAccess, cur.toNat? with
    | some accs, some cursor =>
      let globals := (accs.filter (·.1)).map (·.2)
      let ok := if strict then conforms sk globals cursor else conformsSel sk globals cursor
      if ok then .ok (globals.length, (expectedTrace sk 0).length - globals.length)
      else if cursor != 0 then .error s!"cursor={cursor}"
      else .error ((s!"trace-differs({if strict then "strict" else "selected"}) expected={repr (expectedTrace sk 0)} got={repr globals}").replace "\n" " ")
    | _, _ => .error "unparsable-record"
  | _ => .error "unparsable-record"

def c05Line4 (strict : Bool) (id status skel recs : String) : String :=
    if status != "ok" then s!"{id}\tskip:{status}" else
    match parseSk skel with
    | none => s!"{id}\tbad:0:unparsable-skeleton"
    | some sk =>
      if !(WF sk) then s!"{id}\tbad:0:layout-not-wellformed {skel}" else
      let mode := if strict then "strict" else "sel"
      let rec go (rs : List String) (k : Nat) (n : Nat) (sk' : Nat) : String :=
        match rs with
        | [] => s!"{id}\tok {k} {n} mode={mode} skipped={sk'}"
        | r :: rs => match judgeRec strict sk r with
          | .ok (m, z) => go rs (k + 1) (n + m) (sk' + z)
          | .error e => s!"{id}\tbad:{k}:{e}"
      if recs == "-" || recs.isEmpty then s!"{id}\tok 0 0 mode={mode} skipped=0" else
      go (recs.splitOn "|") 0 0 0

/-- the strict judge applies when the program is known and has no stateful construct inside an `if` arm -/
def strictFor (sx : String) : Bool :=
  if sx == "-" || sx.isEmpty then false else
  match parseProg sx with
  | none => false
  | some P => noStatefulInArms P P.dsp.body

def c05Line (line : String) : String :=
  match line.splitOn "\t" with
  | [id, status, skel, recs] => c05Line4 false id status skel recs
  | [id, status, skel, recs, sx] =>
    c05Line4 (strictFor sx) id status skel recs ++ "\t" ++ (if skel == "-" then "nomodel:not-compiled" else pubLine skel sx)
  | _ => "?\tbad-line"

partial def loop (h : IO.FS.Stream) (out : IO.FS.Stream) (f : String → String) : IO Unit := do
  let line ← h.getLine
  if line.isEmpty then return ()
  let line := if line.endsWith "\n" then (line.dropEnd 1).toString else line
  out.putStrLn (f line)
  loop h out f

def main (_ : List String) : IO UInt32 := do
  loop (← IO.getStdin) (← IO.getStdout) c05Line
  return 0
