import Mimium.Model.Layout
import Mimium.Model.StateTreeIO
/-! `drv_c05`: judge recorded VM state-access traces against the published dsp layout.
Input: `id \t status \t skeleton \t rec|rec|…` with rec = `trace@cursor@vmwords@wasmwords`, trace = `K:g:pos:size;…`.
Output: `id \t ok <samples> <accesses>` or `id \t bad:<sample>:<reason>` or `id \t skip:<status>` -/
open Mimium Mimium.Layout Mimium.StateTree

def parseAccess (s : String) : Option (Bool × Access) :=
  match s.splitOn ":" with
  | [k, g, p, z] => do
    let kind ← match k with | "G" => some Kind.get | "S" => some Kind.set | "M" => some Kind.mem | "D" => some Kind.delay | _ => none
    some (g == "1", ⟨kind, ← p.toNat?, ← z.toNat?⟩)
  | _ => none

def judgeRec (sk : Sk) (r : String) : Except String Nat :=
  match r.splitOn "@" with
  | tr :: cur :: _ =>
    let items := if tr == "." then [] else tr.splitOn ";"
    match items.mapM parseAccess, cur.toNat? with
    | some accs, some cursor =>
      let globals := (accs.filter (·.1)).map (·.2)
      if conforms sk globals cursor then .ok globals.length
      else if cursor != 0 then .error s!"cursor={cursor}"
      else .error s!"trace-differs expected={repr (expectedTrace sk 0)} got={repr globals}"
    | _, _ => .error "unparsable-record"
  | _ => .error "unparsable-record"

def c05Line (line : String) : String :=
  match line.splitOn "\t" with
  | [id, status, skel, recs] =>
    if status != "ok" then s!"{id}\tskip:{status}" else
    match parseSk skel with
    | none => s!"{id}\tbad:0:unparsable-skeleton"
    | some sk =>
      if !(WF sk) then s!"{id}\tbad:0:layout-not-wellformed {skel}" else
      let rec go (rs : List String) (k : Nat) (n : Nat) : String :=
        match rs with
        | [] => s!"{id}\tok {k} {n}"
        | r :: rs => match judgeRec sk r with
          | .ok m => go rs (k + 1) (n + m)
          | .error e => s!"{id}\tbad:{k}:{e}"
      go (recs.splitOn "|") 0 0
  | _ => "?\tbad-line"

partial def loop (h : IO.FS.Stream) (out : IO.FS.Stream) (f : String → String) : IO Unit := do
  let line ← h.getLine
  if line.isEmpty then return ()
  let line := if line.endsWith "\n" then (line.dropEnd 1).toString else line
  out.putStrLn (f line)
  loop h out f

def main (_ : List String) : IO UInt32 := do
  loop (← IO.getStdin) (← IO.getStdout) c05Line
  return 0
