import Mimium.Model.CoreIO
/-! `drv_prog`: reference evaluator of core-language programs.
Input line: `id \t times \t inputs \t sexpr` where inputs = samples separated by `;`, channels by `,`, each a 16-hex-digit word (`-` = none).
Output line: `id \t ok <nout> w,w,… | error …` -/
open Mimium.Core

def parseInputs (s : String) : List (List UInt64) :=
  if s == "-" || s.isEmpty then [] else
  (s.splitOn ";").map fun smp => if smp.isEmpty then [] else (smp.splitOn ",").map parseHex

def progLine (line : String) : String :=
  match line.splitOn "\t" with
  | [id, times, inputs, sx] =>
    match parseProg sx, times.toNat? with
    | some P, some n => s!"{id}\t{runProg P n (parseInputs inputs)}"
    | _, _ => s!"{id}\tbad-input"
  | _ => "?\tbad-line"

partial def loop (h : IO.FS.Stream) (out : IO.FS.Stream) (f : String → String) : IO Unit := do
  let line ← h.getLine
  if line.isEmpty then return ()
  let line := if line.endsWith "\n" then (line.dropEnd 1).toString else line
  out.putStrLn (f line)
  loop h out f

def main (_args : List String) : IO UInt32 := do
  loop (← IO.getStdin) (← IO.getStdout) progLine
  return 0
