import Mimium.Model.ModRes
import Mimium.Model.ModResIO
/-! `drv_c17`: line protocol driver for C17.

stdin : one module tree per line, prefix notation, blank-separated tokens
```
program := <n> item*n
item    := F <pub 0|1> <name> <np> name*np expr
         | M <pub> <name> <n> item*n
         | U <pub> <k> seg*k ( S | W | L <n> name*n )
         | L <pub> <name> expr
expr    := u | k <nat> | v <name> | q <k> seg*k | c expr | l <name> expr expr | a <n> name*n expr
```
stdout: `class \t value \t json-string(source text)` — the source text is rendered from the same `Item` tree the
model judges; the harness compiles exactly that text. -/
open Mimium Mimium.ModRes

abbrev P := StateT (List String) Option

def tok : P String := do
  match (← get) with
  | [] => failure
  | t :: ts => set ts; pure t

def pNat : P Nat := do
  match (← tok).toNat? with
  | some n => pure n
  | none => failure

def pBool : P Bool := do pure ((← pNat) != 0)

def many (n : Nat) (p : P α) : P (List α) := do
  let mut out := []
  for _ in [0:n] do
    out := (← p) :: out
  pure out.reverse

partial def pExpr : P Expr := do
  match (← tok) with
  | "u" => pure .unit
  | "k" => pure (.lit (← pNat))
  | "v" => pure (.var [← pNat])
  | "q" => do let k ← pNat; pure (.qvar (← many k pNat))
  | "c" => pure (.call (← pExpr))
  | "l" => do let x ← pNat; let e ← pExpr; let t ← pExpr; pure (.letE x e t)
  | "a" => do let n ← pNat; let ps ← many n pNat; pure (.lam ps (← pExpr))
  | _ => failure

partial def pItem : P Item := do
  match (← tok) with
  | "F" => do
    let p ← pBool; let x ← pNat; let np ← pNat; let ps ← many np pNat; let b ← pExpr
    pure (.fn p x ps b)
  | "M" => do
    let p ← pBool; let x ← pNat; let n ← pNat; let sub ← many n pItem
    pure (.mod p x sub)
  | "U" => do
    let p ← pBool; let k ← pNat; let path ← many k pNat
    match (← tok) with
    | "S" => pure (.use p path .single)
    | "W" => pure (.use p path .wildcard)
    | "L" => do let n ← pNat; pure (.use p path (.multiple (← many n pNat)))
    | _ => failure
  | "L" => do
    let p ← pBool; let x ← pNat; let e ← pExpr
    pure (.letD p x e)
  | _ => failure

def pProgram : P (List Item) := do
  let n ← pNat
  many n pItem

def jsonStr (s : String) : String :=
  "\"" ++ s.foldl (fun acc c =>
    if c = '\n' then acc ++ "\\n" else if c = '"' then acc ++ "\\\"" else if c = '\\' then acc ++ "\\\\" else acc.push c) "" ++ "\""

def c17Line (line : String) : String :=
  let toks := (line.splitOn " ").filter (· ≠ "")
  match pProgram.run toks with
  | some (p, []) =>
    let (cls, v) := observe p
    s!"{cls}\t{v}\t{jsonStr (renderL p)}"
  | _ => "bad-input"

partial def loop (h : IO.FS.Stream) (out : IO.FS.Stream) (f : String → String) : IO Unit := do
  let line ← h.getLine
  if line.isEmpty then return ()
  let line := if line.endsWith "\n" then (line.dropEnd 1).toString else line
  out.putStrLn (f line)
  loop h out f

def main (args : List String) : IO UInt32 := do
  let stdin ← IO.getStdin
  let stdout ← IO.getStdout
  match args with
  | [] => loop stdin stdout c17Line; return 0
  | _ => IO.eprintln "usage: drv_c17 < cases"; return 2
