import Mimium.Gen.Consts
import Mimium.Model.StateTree
import Mimium.Model.StateTreeCheck
import Mimium.Model.StateTreeIO
import Mimium.Proofs.StateTree
import Mimium.Proofs.StateTreeApply
import Mimium.Proofs.StateTreeDiff
import Mimium.Props.C08
