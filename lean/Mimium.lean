import Mimium.Model.StateTree
import Mimium.Model.StateTreeIO
import Mimium.Model.StateTreeCheck
