//! Detects optional `cfg(mimium_verif)` hooks of the compiler tree the harness is built against, so that a binary that needs a
//! hook which is not there yet degrades to a stub instead of breaking the build of every other binary.
use std::{env, fs, path::PathBuf};

fn main() {
    println!("cargo:rustc-check-cfg=cfg(has_unify_hook)");
    println!("cargo:rerun-if-changed=build.rs");
    println!("cargo:rerun-if-changed=Cargo.toml");
    let manifest = PathBuf::from(env::var("CARGO_MANIFEST_DIR").unwrap()).join("Cargo.toml");
    let text = fs::read_to_string(&manifest).unwrap_or_default();
    // mimium-lang = { path = "…/crates/lib/mimium-lang" }
    let lang = text
        .lines()
        .find(|l| l.trim_start().starts_with("mimium-lang"))
        .and_then(|l| l.split('"').nth(1))
        .map(PathBuf::from);
    if let Some(lang) = lang {
        let uni = lang.join("src/compiler/typing/unification.rs");
        let typing = lang.join("src/compiler/typing.rs");
        println!("cargo:rerun-if-changed={}", uni.display());
        println!("cargo:rerun-if-changed={}", typing.display());
        let has = fs::read_to_string(&uni).map(|s| s.contains("pub mod verif")).unwrap_or(false)
            && fs::read_to_string(&typing).map(|s| s.contains("verif_unify")).unwrap_or(false);
        if has {
            println!("cargo:rustc-cfg=has_unify_hook");
        }
    }
}
