//! C13: run the real `tokenize`, `preparse`, `parse_cst` of mimium-lang on source texts.
//! Output line (tab separated):
//!   hex(src)  classes  tokens  token_indices  leading  trailing  leaves  flags
//!   classes       = `cp:sc` for every distinct non-ASCII code point (s = XID_Start, c = XID_Continue, from `unicode-ident`), `-` if none
//!   tokens        = `Kind:start:len` joined by `,`
//!   token_indices = `preparsed.token_indices`
//!   leading/trailing = `key=i;i;i` joined by `,`, keys sorted (hash order removed), `-` if empty
//!   leaves        = token indices of the CST's token leaves, left to right; `PANIC`, `BADROOT`, `SPANS`, `WIDTH` on anomalies
//!   flags         = `errs=<n>` | `panic=<where>`
//!   tree          = the green tree as an S-expression `(Kind child …)`, leaves = raw token indices
//!   errors        = `token_index|Display of the error` joined by ` ## `, `-` if none
//!   relabels      = `i:Kind` for every token whose kind `parse_cst` changed (IdentFunction / IdentParameter), `-` if none
use mimium_lang::compiler::parser::green::GreenNode;
use mimium_lang::compiler::parser::{self, GreenNodeArena, GreenNodeId, SyntaxKind, Token};
use mmh::rng::Rng;
use std::collections::HashMap;
use std::io::{BufRead, Write};

fn hex(s: &str) -> String {
    if s.is_empty() {
        return "-".into();
    }
    let mut o = String::with_capacity(s.len() * 2);
    for b in s.bytes() {
        o.push_str(&format!("{b:02x}"));
    }
    o
}

fn unhex(h: &str) -> Option<String> {
    if h == "-" {
        return Some(String::new());
    }
    let b = h.as_bytes();
    if b.len() % 2 != 0 {
        return None;
    }
    let mut v = Vec::with_capacity(b.len() / 2);
    for i in (0..b.len()).step_by(2) {
        v.push(u8::from_str_radix(std::str::from_utf8(&b[i..i + 2]).ok()?, 16).ok()?);
    }
    String::from_utf8(v).ok()
}

fn classes(s: &str) -> String {
    let mut cs: Vec<char> = s.chars().filter(|c| !c.is_ascii()).collect();
    cs.sort();
    cs.dedup();
    if cs.is_empty() {
        return "-".into();
    }
    cs.iter()
        .map(|&c| {
            format!(
                "{}:{}{}",
                c as u32,
                unicode_ident::is_xid_start(c) as u8,
                unicode_ident::is_xid_continue(c) as u8
            )
        })
        .collect::<Vec<_>>()
        .join(",")
}

fn show_tokens(ts: &[Token]) -> String {
    if ts.is_empty() {
        return "-".into();
    }
    ts.iter().map(|t| format!("{:?}:{}:{}", t.kind, t.start, t.length)).collect::<Vec<_>>().join(",")
}

fn show_nats(v: &[usize]) -> String {
    if v.is_empty() {
        return "-".into();
    }
    v.iter().map(|x| x.to_string()).collect::<Vec<_>>().join(",")
}

fn show_map(m: &HashMap<usize, Vec<usize>>) -> String {
    if m.is_empty() {
        return "-".into();
    }
    let mut ks: Vec<_> = m.keys().copied().collect();
    ks.sort();
    ks.iter()
        .map(|k| format!("{}={}", k, m[k].iter().map(|x| x.to_string()).collect::<Vec<_>>().join(";")))
        .collect::<Vec<_>>()
        .join(",")
}

fn leaves(arena: &GreenNodeArena, id: GreenNodeId, out: &mut Vec<(usize, usize)>) {
    match arena.get(id) {
        GreenNode::Token { token_index, width } => out.push((*token_index, *width)),
        GreenNode::Internal { children, .. } => {
            for &c in children {
                leaves(arena, c, out)
            }
        }
    }
}

fn sexp(arena: &GreenNodeArena, id: GreenNodeId, out: &mut String) {
    match arena.get(id) {
        GreenNode::Token { token_index, .. } => out.push_str(&token_index.to_string()),
        GreenNode::Internal { kind, children, .. } => {
            out.push('(');
            out.push_str(&format!("{kind}"));
            for &c in children {
                out.push(' ');
                sexp(arena, c, out);
            }
            out.push(')');
        }
    }
}

fn show_errors(errors: &[parser::ParserError]) -> String {
    if errors.is_empty() {
        return "-".into();
    }
    errors.iter().map(|e| format!("{}|{}", e.token_index, e.detail)).collect::<Vec<_>>().join(" ## ")
}

fn show_relabels(before: &[Token], after: &[Token]) -> String {
    let d: Vec<String> = before
        .iter()
        .zip(after.iter())
        .enumerate()
        .filter(|(_, (a, b))| a.kind != b.kind)
        .map(|(i, (_, b))| format!("{}:{:?}", i, b.kind))
        .collect();
    if d.is_empty() { "-".into() } else { d.join(",") }
}

/// `C13_LOWER=1`: the line is `hex(src) \t classes \t program \t errors` — the real `parse_program` (tokenize, preparse, parse_cst,
/// `Lowerer::lower_program`, reserved-name diagnostics) printed by `mmh::lower_print` for the lowering correspondence (`drv_c16`)
fn lower_mode() -> bool {
    static M: std::sync::OnceLock<bool> = std::sync::OnceLock::new();
    *M.get_or_init(|| std::env::var("C13_LOWER").map(|v| v == "1").unwrap_or(false))
}

pub fn run_lower(src: &str) -> String {
    let s = src.to_string();
    let r = std::panic::catch_unwind(move || {
        let (prog, errors) = parser::parse_program(&s, std::path::PathBuf::new());
        (mmh::lower_print::program(&prog), show_errors(&errors))
    });
    match r {
        Ok((p, e)) => format!("{}\t{}\t{}\t{}", hex(src), classes(src), p, e),
        Err(_) => format!("{}\t{}\tPANIC\tPANIC", hex(src), classes(src)),
    }
}

pub fn run_case(src: &str) -> String {
    if lower_mode() {
        return run_lower(src);
    }
    let s = src.to_string();
    let r = std::panic::catch_unwind(move || {
        let tokens = parser::tokenize(&s);
        let pre = parser::preparse(&tokens);
        let t = show_tokens(&tokens);
        let idx = show_nats(&pre.token_indices);
        let ld = show_map(&pre.leading_trivia_map);
        let tr = show_map(&pre.trailing_trivia_map);
        (tokens, pre, t, idx, ld, tr)
    });
    let (tokens, pre, t, idx, ld, tr) = match r {
        Ok(x) => x,
        Err(_) => return format!("{}\t{}\tPANIC\tPANIC\tPANIC\tPANIC\tPANIC\tpanic=front\tPANIC\tPANIC\tPANIC", hex(src), classes(src)),
    };
    let toks2 = tokens.clone();
    let r2 = std::panic::catch_unwind(std::panic::AssertUnwindSafe(|| {
        let (root, arena, out_tokens, errors) = parser::parse_cst(toks2, &pre);
        let mut lv = vec![];
        leaves(&arena, root, &mut lv);
        let root_ok = arena.kind(root) == Some(SyntaxKind::Program);
        let spans_ok = out_tokens.len() == tokens.len()
            && out_tokens.iter().zip(tokens.iter()).all(|(a, b)| a.start == b.start && a.length == b.length);
        let width_ok = lv.iter().all(|&(i, w)| tokens.get(i).map(|t| t.length) == Some(w))
            && arena.width(root) == lv.iter().map(|x| x.1).sum::<usize>();
        let s = if !root_ok {
            "BADROOT".to_string()
        } else if !spans_ok {
            "SPANS".to_string()
        } else if !width_ok {
            "WIDTH".to_string()
        } else {
            show_nats(&lv.iter().map(|x| x.0).collect::<Vec<_>>())
        };
        let mut tree = String::new();
        sexp(&arena, root, &mut tree);
        (s, errors.len(), tree, show_errors(&errors), show_relabels(&tokens, &out_tokens))
    }));
    let (lv, flags, tree, errs, rel) = match r2 {
        Ok((s, n, tree, errs, rel)) => (s, format!("errs={n}"), tree, errs, rel),
        Err(_) => ("PANIC".to_string(), "panic=parse_cst".to_string(), "PANIC".to_string(), "PANIC".to_string(), "PANIC".to_string()),
    };
    format!("{}\t{}\t{}\t{}\t{}\t{}\t{}\t{}\t{}\t{}\t{}", hex(src), classes(src), t, idx, ld, tr, lv, flags, tree, errs, rel)
}

/// the alphabet of the exhaustive scope: chosen to reach every alternative of `token_parser`
pub const ALPHABET: [char; 24] = [
    'a', '0', '1', '.', '"', '/', '*', '\n', '\r', ' ', '_', '|', '&', '=', '!', '<', '>', '-', ':', ';', '(', ')', 'é', '\u{3000}',
];

fn enumerate(maxlen: usize, shard: usize, nshards: usize, out: &mut impl Write) {
    // strings in length-lexicographic order; case number modulo nshards selects the shard
    let mut counter: usize = 0;
    for len in 0..=maxlen {
        let mut idx = vec![0usize; len];
        loop {
            if counter % nshards == shard {
                let s: String = idx.iter().map(|&i| ALPHABET[i]).collect();
                writeln!(out, "{}", run_case(&s)).unwrap();
            }
            counter += 1;
            // increment
            let mut p = len;
            loop {
                if p == 0 {
                    break;
                }
                p -= 1;
                idx[p] += 1;
                if idx[p] < ALPHABET.len() {
                    break;
                }
                idx[p] = 0;
                if p == 0 {
                    p = usize::MAX;
                    break;
                }
            }
            if len == 0 || p == usize::MAX {
                break;
            }
        }
    }
}

/// kinds used by the `kinds` mode: arbitrary token-kind sequences (also ones the tokenizer never produces) fed straight into
/// the public `preparse` / `parse_cst`
pub const KIND_ALPHABET: [parser::TokenKind; 7] = [
    parser::TokenKind::Whitespace,
    parser::TokenKind::LineBreak,
    parser::TokenKind::SingleLineComment,
    parser::TokenKind::Ident,
    parser::TokenKind::ParenEnd,
    parser::TokenKind::Error,
    parser::TokenKind::Eof,
];

/// Output line: `K \t - \t tokens \t token_indices \t leading \t trailing \t leaves \t flags` (tokens have width 1, contiguous)
pub fn run_kinds(kinds: &[parser::TokenKind]) -> String {
    let tokens: Vec<Token> = kinds.iter().enumerate().map(|(i, &k)| Token::new(k, i, 1)).collect();
    let toks = tokens.clone();
    let r = std::panic::catch_unwind(move || {
        let pre = parser::preparse(&toks);
        let idx = show_nats(&pre.token_indices);
        let ld = show_map(&pre.leading_trivia_map);
        let tr = show_map(&pre.trailing_trivia_map);
        (pre, idx, ld, tr)
    });
    let t = show_tokens(&tokens);
    let (pre, idx, ld, tr) = match r {
        Ok(x) => x,
        Err(_) => return format!("K\t-\t{t}\tPANIC\tPANIC\tPANIC\tPANIC\tpanic=preparse\tPANIC\tPANIC\tPANIC"),
    };
    let toks2 = tokens.clone();
    let r2 = std::panic::catch_unwind(std::panic::AssertUnwindSafe(|| {
        let (root, arena, out, errors) = parser::parse_cst(toks2, &pre);
        let mut lv = vec![];
        leaves(&arena, root, &mut lv);
        let mut tree = String::new();
        sexp(&arena, root, &mut tree);
        let lvs = if arena.kind(root) != Some(SyntaxKind::Program) {
            "BADROOT".to_string()
        } else {
            show_nats(&lv.iter().map(|x| x.0).collect::<Vec<_>>())
        };
        (lvs, errors.len(), tree, show_errors(&errors), show_relabels(&tokens, &out))
    }));
    let (lv, flags, tree, errs, rel) = match r2 {
        Ok((s, n, tree, errs, rel)) => (s, format!("errs={n}"), tree, errs, rel),
        Err(_) => ("PANIC".to_string(), "panic=parse_cst".to_string(), "PANIC".to_string(), "PANIC".to_string(), "PANIC".to_string()),
    };
    format!("K\t-\t{t}\t{idx}\t{ld}\t{tr}\t{lv}\t{flags}\t{tree}\t{errs}\t{rel}")
}

fn enumerate_kinds(maxlen: usize, out: &mut impl Write) {
    for len in 0..=maxlen {
        let total = KIND_ALPHABET.len().pow(len as u32);
        for mut code in 0..total {
            let mut ks = Vec::with_capacity(len);
            for _ in 0..len {
                ks.push(KIND_ALPHABET[code % KIND_ALPHABET.len()]);
                code /= KIND_ALPHABET.len();
            }
            writeln!(out, "{}", run_kinds(&ks)).unwrap();
        }
    }
}

fn mmm_files() -> Vec<std::path::PathBuf> {
    let repo = std::env::var("VERIF_REPO").unwrap_or("/repo".into());
    let mut out = vec![];
    let mut stack = vec![std::path::PathBuf::from(&repo)];
    while let Some(d) = stack.pop() {
        let Ok(rd) = std::fs::read_dir(&d) else { continue };
        for e in rd.flatten() {
            let p = e.path();
            let name = p.file_name().and_then(|x| x.to_str()).unwrap_or("");
            if p.is_dir() {
                if name != "target" && name != ".git" && name != "node_modules" {
                    stack.push(p);
                }
            } else if name.ends_with(".mmm") {
                out.push(p);
            }
        }
    }
    out.sort();
    out
}

const FRAGMENTS: &[&str] = &[
    "fn", "macro", "self", "now", "samplerate", "let", "letrec", "if", "else", "match", "float", "int", "string", "struct",
    "include", "stage", "main", "mod", "use", "pub", "type", "alias", "rec", "_", "dsp", "x1", "_a", "fnx", "letrecx",
    "->", "<-", "=>", "||>", "==", "!=", "<=", ">=", "&&", "||", "|>", "+", "-", "*", "/", "%", "^", "@", "<", ">", "=", "!",
    "::", "..", ".", ",", ":", ";", "(", ")", "[", "]", "{", "}", "`", "$", "#", "|", "&", "?", "~", "\\", "'",
    "0", "1", "42", "007", "3.14", "0.5", "1.", ".5", "1.2.3", "a.0.1", "t.0.1.2", "1..2", "0.0.0.0", "1.e", "9.9a",
    "//", "// c", "//\n", "/*", "*/", "/**/", "/* x */", "/*/", "/* \n */", "/* /* */ */", "///*\n",
    "\"", "\"\"", "\"a b\"", "\"\n\"", "\"//\"", "\"/*\"",
    " ", "  ", "\t", "\r", "\n", "\r\n", "\n\n", " \r", " \r\n", "\u{b}", "\u{c}", "\u{85}", "\u{2028}", "\u{2029}", "\u{3000}", "\u{a0}",
    "é", "日本", "ñ", "\u{301}", "e\u{301}", "٣", "x٣", "٣x", "𝛼", "😀", "a😀", "§", "©", "ª", "·", "a·b", "\u{200d}", "\u{feff}", "ℹ", "Ⅷ", "_é",
];

fn rand_char(r: &mut Rng) -> char {
    loop {
        let cp = match r.below(8) {
            0 => r.below(0x80) as u32,
            1 => 0x80 + r.below(0x180) as u32,
            2 => 0x300 + r.below(0x100) as u32,
            3 => 0x600 + r.below(0x100) as u32,
            4 => 0x2000 + r.below(0x100) as u32,
            5 => 0x3000 + r.below(0x100) as u32,
            6 => 0x1F600 + r.below(0x50) as u32,
            _ => r.below(0x11_0000) as u32,
        };
        if let Some(c) = char::from_u32(cp) {
            return c;
        }
    }
}

fn rand_text(r: &mut Rng, maxparts: usize, files: &[String]) -> String {
    let mode = r.below(10);
    if mode < 3 && !files.is_empty() {
        // mutate a window of a shipped source
        let f = r.pick(files);
        let cs: Vec<char> = f.chars().collect();
        if cs.is_empty() {
            return String::new();
        }
        let a = r.below(cs.len() as u64) as usize;
        let l = 1 + r.below(120.min(cs.len() as u64)) as usize;
        let mut w: Vec<char> = cs[a..(a + l).min(cs.len())].to_vec();
        let nm = r.below(5);
        for _ in 0..nm {
            if w.is_empty() {
                break;
            }
            let p = r.below(w.len() as u64) as usize;
            match r.below(4) {
                0 => {
                    w.remove(p);
                }
                1 => w.insert(p, rand_char(r)),
                2 => {
                    let frag: Vec<char> = r.pick(FRAGMENTS).chars().collect();
                    for (k, c) in frag.into_iter().enumerate() {
                        w.insert(p + k, c);
                    }
                }
                _ => {
                    let q = r.below(w.len() as u64) as usize;
                    w.swap(p, q);
                }
            }
        }
        return w.into_iter().collect();
    }
    let n = 1 + r.below(maxparts as u64) as usize;
    let mut s = String::new();
    for _ in 0..n {
        match r.below(10) {
            0 => s.push(rand_char(r)),
            1 => s.push(*r.pick(&ALPHABET[..])),
            _ => s.push_str(*r.pick::<&str>(FRAGMENTS)),
        }
    }
    s
}

fn main() {
    let args: Vec<String> = std::env::args().skip(1).collect();
    let stdout = std::io::stdout();
    let mut out = std::io::BufWriter::new(stdout.lock());
    std::panic::set_hook(Box::new(|_| {}));
    match args.get(0).map(|s| s.as_str()) {
        Some("enum") => {
            let maxlen: usize = args[1].parse().unwrap();
            let (k, n): (usize, usize) =
                if args.len() >= 4 { (args[2].parse().unwrap(), args[3].parse().unwrap()) } else { (0, 1) };
            enumerate(maxlen, k, n, &mut out);
        }
        Some("rand") => {
            let seed: u64 = args[1].parse().unwrap();
            let cnt: usize = args[2].parse().unwrap();
            let maxparts: usize = args[3].parse().unwrap();
            let files: Vec<String> = mmm_files().iter().filter_map(|p| std::fs::read_to_string(p).ok()).collect();
            let mut r = Rng::new(seed);
            for _ in 0..cnt {
                let s = rand_text(&mut r, maxparts, &files);
                writeln!(out, "{}", run_case(&s)).unwrap();
            }
        }
        Some("kinds") => {
            let maxlen: usize = args[1].parse().unwrap();
            enumerate_kinds(maxlen, &mut out);
        }
        Some("tokseq") => {
            // C04's enumeration: all sequences of <= maxlen spellings of the token alphabet (extracted.json), same order as `c04 enum`
            let v: serde_json::Value = serde_json::from_str(&std::fs::read_to_string(&args[1]).expect("alphabet file")).expect("json");
            let key = if args[2] == "core" { "C04_core_alphabet" } else { "C04_alphabet" };
            let alpha: Vec<String> = v[key].as_array().expect(key).iter().map(|x| x[1].as_str().unwrap().to_string()).collect();
            let maxlen: usize = args[3].parse().unwrap();
            let sep = if args[4] == "sep" { " " } else { "" };
            let (shard, nshards): (usize, usize) = (args[5].parse().unwrap(), args[6].parse().unwrap());
            let mut counter = 0usize;
            for len in 0..=maxlen {
                let total = alpha.len().pow(len as u32);
                for code in 0..total {
                    if counter % nshards == shard {
                        let mut c = code;
                        let mut parts: Vec<&str> = Vec::with_capacity(len);
                        for _ in 0..len {
                            parts.push(&alpha[c % alpha.len()]);
                            c /= alpha.len();
                        }
                        parts.reverse();
                        writeln!(out, "{}", run_case(&parts.join(sep))).unwrap();
                    }
                    counter += 1;
                }
            }
        }
        Some("files") => {
            for p in mmm_files() {
                if let Ok(s) = std::fs::read_to_string(&p) {
                    writeln!(out, "{}\tfile={}", run_case(&s), p.display()).unwrap();
                }
            }
        }
        Some("lines") => {
            // one hex-encoded source per stdin line (`-` = empty); anything after the first tab is ignored
            let stdin = std::io::stdin();
            for line in stdin.lock().lines() {
                let line = line.unwrap();
                if let Some(rest) = line.strip_prefix("K\t") {
                    // replay of a `kinds` case: comma separated kind names (optionally `Kind:start:len`)
                    let ks: Vec<parser::TokenKind> = rest
                        .split('\t')
                        .find(|f| *f != "-")
                        .unwrap_or("")
                        .split(',')
                        .filter_map(|n| {
                            let n = n.split(':').next().unwrap_or("");
                            KIND_ALPHABET.iter().copied().find(|k| format!("{k:?}") == n)
                        })
                        .collect();
                    writeln!(out, "{}", run_kinds(&ks)).unwrap();
                    continue;
                }
                let h = line.split('\t').next().unwrap_or("").trim();
                if h.is_empty() || h.starts_with('#') {
                    continue;
                }
                match unhex(h) {
                    Some(s) => writeln!(out, "{}", run_case(&s)).unwrap(),
                    None => writeln!(out, "{}\t-\tBADHEX\t-\t-\t-\t-\t-\t-\t-\t-", h).unwrap(),
                }
            }
        }
        _ => {
            eprintln!("usage: c13 enum <maxlen> [shard nshards] | kinds <maxlen> | tokseq <extracted.json> <full|core> <maxlen> <sep|nosep> <shard> <nshards> | rand <seed> <n> <maxparts> | files | lines");
            std::process::exit(2);
        }
    }
}
