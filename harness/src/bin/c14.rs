//! C14: run the real formatter (`mimium_fmt::pretty_print_cst`) and the real parser on source texts and judge the
//! three clauses of the property; plus `docs` mode: random documents rendered by the real `pretty` crate.
//!
//! Program modes print one JSON object per input text:
//!   {"id","origin","bytes","ntok","ncom","classes":[..],"distinct_outputs":k,"configs":n,"fails":[{"w","ind","kind","detail"}],"src"?}
//!   or {"id","origin","skip":"parse-errors"} when the input itself is not a syntactically valid program.
//! plus `pos_all` / `pos_lost`: comments per position key `<preceding token kind>@<owning CST node>` and how many were lost;
//! `gaps-*` modes (one comment per token gap x 4 kinds, 4 configurations) print failing variants and one summary row per base text.
//! kinds: fmt-error | fmt-panic | parse-error | ast-changed | comment-lost | not-idempotent | judge-panic
//! `docs` mode prints `width \t tree \t hex(rendered bytes)` per case (tree syntax: see `dump`).
use mimium_lang::compiler::parser::{TokenKind, parse_program, parse_to_expr, tokenize};
use mimium_lang::utils::miniprint::MiniPrint;
use mmh::rng::Rng;
use std::io::{BufRead, Write};
use std::path::PathBuf;

pub const WIDTHS: [usize; 8] = [1, 8, 20, 40, 50, 80, 120, 1_000_000];
pub const INDENTS: [usize; 2] = [2, 4];

// ---------------------------------------------------------------------------------------------
// observation of one text

fn set_indent(n: usize) {
    match mimium_fmt::GLOBAL_DATA.lock() {
        Ok(mut g) => g.indent_size = n,
        Err(p) => p.into_inner().indent_size = n,
    }
}

/// delete every `digits..digits` (spans) from a dump
fn strip_spans(s: &str) -> String {
    let b = s.as_bytes();
    let mut out = String::with_capacity(s.len());
    let mut i = 0;
    while i < b.len() {
        if b[i].is_ascii_digit() && (i == 0 || !(b[i - 1].is_ascii_alphanumeric() || b[i - 1] == b'.' || b[i - 1] == b'_')) {
            let mut j = i;
            while j < b.len() && b[j].is_ascii_digit() {
                j += 1;
            }
            if j + 2 < b.len() && b[j] == b'.' && b[j + 1] == b'.' && b[j + 2].is_ascii_digit() {
                let mut k = j + 2;
                while k < b.len() && b[k].is_ascii_digit() {
                    k += 1;
                }
                // drop a directly preceding ':' or ',' (the two span notations `:a..b` and `,a..b`)
                if out.ends_with(':') || out.ends_with(',') {
                    out.pop();
                }
                i = k;
                continue;
            }
            out.push_str(&s[i..j]);
            i = j;
            continue;
        }
        // copy one char
        let ch = s[i..].chars().next().unwrap();
        out.push(ch);
        i += ch.len_utf8();
    }
    out
}

pub struct Parsed {
    pub nerr: usize,
    pub ast: String,  // simple_print of the lowered expression, spans stripped
    pub prog: String, // Debug dump of the `Program` (finer: return types, defaults, visibility), spans stripped
    pub comments: Vec<String>,
    pub comment_ctx: Vec<(String, String)>, // (previous, next) significant token kind around each comment
    pub comment_pos: Vec<String>, // position key of each comment: prevKind@ownerNode>nextKind@ownerNode|L or B|own or same line|index in gap/comments in gap (kinds)
    pub ntok: usize,
    pub kinds: Vec<TokenKind>,
}

fn parse_all(src: &str, path: &Option<PathBuf>) -> Parsed {
    let toks = tokenize(src);
    // owner node kind of every token (innermost CST node that has the token as a direct child)
    let owners: std::collections::HashMap<usize, String> = {
        use mimium_lang::compiler::parser::green::GreenNode;
        use mimium_lang::compiler::parser::{parse_cst, preparse};
        let pre = preparse(&toks);
        let (root, arena, _t, _e) = parse_cst(toks.clone(), &pre);
        let mut m = std::collections::HashMap::new();
        let mut stack = vec![root];
        while let Some(id) = stack.pop() {
            if let GreenNode::Internal { kind, children, .. } = arena.get(id) {
                for &ch in children.iter() {
                    match arena.get(ch) {
                        GreenNode::Token { token_index, .. } => {
                            m.insert(*token_index, format!("{:?}", kind));
                        }
                        _ => stack.push(ch),
                    }
                }
            }
        }
        m
    };
    let mut comments = vec![];
    let mut comment_ctx: Vec<(String, String)> = vec![];
    let mut comment_pos: Vec<String> = vec![];
    let mut kinds = vec![];
    let mut prev = "Start".to_string();
    let mut prev_full = "Start@-".to_string();
    let mut pending: Vec<usize> = vec![];
    // per pending comment: (kind letter, own-line flag)
    let mut gap: Vec<(char, bool)> = vec![];
    let mut lb_seen = false;
    let flush = |pending: &mut Vec<usize>, gap: &mut Vec<(char, bool)>, comment_ctx: &mut Vec<(String, String)>, comment_pos: &mut Vec<String>, prev_full: &str, next: &str, next_full: &str| {
        let sig: String = gap.iter().map(|g| g.0).collect();
        for (j, i) in pending.drain(..).enumerate() {
            comment_ctx[i].1 = next.to_string();
            comment_pos[i] = format!("{}>{}|{}|{}|{}/{}", prev_full, next_full, gap[j].0, if gap[j].1 { "own" } else { "same" }, j + 1, sig);
        }
        gap.clear();
    };
    for (ti, t) in toks.iter().enumerate() {
        match t.kind {
            TokenKind::SingleLineComment | TokenKind::MultiLineComment => {
                comments.push(t.text(src).trim_end().to_string());
                comment_ctx.push((prev.clone(), "End".to_string()));
                comment_pos.push(String::new());
                pending.push(comment_ctx.len() - 1);
                gap.push((if t.kind == TokenKind::SingleLineComment { 'L' } else { 'B' }, lb_seen));
            }
            TokenKind::LineBreak => lb_seen = true,
            TokenKind::Whitespace => {}
            TokenKind::Eof => {}
            k => {
                kinds.push(k);
                let nk = format!("{:?}", k);
                let nfull = format!("{:?}@{}", k, owners.get(&ti).map(|s| s.as_str()).unwrap_or("-"));
                flush(&mut pending, &mut gap, &mut comment_ctx, &mut comment_pos, &prev_full, &nk, &nfull);
                prev = nk;
                prev_full = nfull;
                lb_seen = false;
            }
        }
    }
    flush(&mut pending, &mut gap, &mut comment_ctx, &mut comment_pos, &prev_full, "End", "End@-");
    let (prog, errs) = parse_program(src, path.clone().unwrap_or_default());
    let nerr = errs.len();
    let progd = strip_spans(&format!("{:?}", prog));
    let (e, _mi, _errs2) = parse_to_expr(src, path.clone());
    let ast = strip_spans(&e.to_expr().simple_print());
    Parsed { nerr, ast, prog: progd, comments, comment_ctx, comment_pos, ntok: kinds.len(), kinds }
}

fn first_diff(a: &str, b: &str) -> String {
    let ab = a.as_bytes();
    let bb = b.as_bytes();
    let mut i = 0;
    while i < ab.len() && i < bb.len() && ab[i] == bb[i] {
        i += 1;
    }
    let cut = |s: &str, i: usize| -> String {
        let mut st = i.saturating_sub(30);
        while !s.is_char_boundary(st) {
            st -= 1;
        }
        let mut en = (i + 50).min(s.len());
        while !s.is_char_boundary(en) {
            en += 1;
        }
        s[st..en].to_string()
    };
    format!("at {}: in[..{}..] out[..{}..]", i, cut(a, i), cut(b, i))
}

/// indices of the elements of `needle` that are not matched in a longest common subsequence with `hay`
fn lost_in(needle: &[String], hay: &[String]) -> Vec<usize> {
    let n = needle.len();
    let m = hay.len();
    let mut t = vec![vec![0u32; m + 1]; n + 1];
    for i in (0..n).rev() {
        for j in (0..m).rev() {
            t[i][j] = if needle[i] == hay[j] { t[i + 1][j + 1] + 1 } else { t[i + 1][j].max(t[i][j + 1]) };
        }
    }
    let (mut i, mut j) = (0, 0);
    let mut lost = vec![];
    while i < n {
        if j < m && needle[i] == hay[j] {
            i += 1;
            j += 1;
        } else if j < m && t[i][j + 1] >= t[i + 1][j] {
            j += 1;
        } else {
            lost.push(i);
            i += 1;
        }
    }
    lost
}


// ---------------------------------------------------------------------------------------------
// tie of the ported printer (Model/CstPrint.lean): every text that is formatted is logged with the outputs of the real
// `pretty_print_cst` (FNV-1a hashes) so that the Lean driver can format the same text and the check can compare exactly.
mod port {
    use std::sync::Mutex;
    pub static LOG: Mutex<Vec<String>> = Mutex::new(Vec::new());

    pub fn fnv64(s: &str) -> String {
        let mut h: u64 = 0xcbf29ce484222325;
        for b in s.bytes() {
            h = (h ^ b as u64).wrapping_mul(0x100000001b3);
        }
        format!("{h:016x}")
    }

    pub fn hex(s: &str) -> String {
        if s.is_empty() {
            return "-".into();
        }
        let mut o = String::with_capacity(s.len() * 2);
        for b in s.bytes() {
            o.push_str(&format!("{b:02x}"));
        }
        o
    }

    pub fn classes(s: &str) -> String {
        let mut cs: Vec<char> = s.chars().filter(|c| !c.is_ascii()).collect();
        cs.sort();
        cs.dedup();
        if cs.is_empty() {
            return "-".into();
        }
        cs.iter()
            .map(|&c| format!("{}:{}{}", c as u32, unicode_ident::is_xid_start(c) as u8, unicode_ident::is_xid_continue(c) as u8))
            .collect::<Vec<_>>()
            .join(",")
    }

    /// display width the `pretty` crate stores for a non-ASCII text (read back from the document it builds)
    fn render_len(t: &str) -> usize {
        use pretty::{Arena, Doc, DocAllocator};
        let a: Arena<'_, ()> = Arena::new();
        let d = a.text(t.to_string());
        match &*d.1 {
            Doc::RenderLen(n, _) => *n,
            _ => t.len(),
        }
    }

    /// `i:w` for every raw token with non-ASCII text
    pub fn widths(src: &str) -> String {
        let toks = mimium_lang::compiler::parser::tokenize(src);
        let v: Vec<String> = toks
            .iter()
            .enumerate()
            .filter_map(|(i, t)| {
                let tx = t.text(src);
                if tx.is_ascii() { None } else { Some(format!("{}:{}", i, render_len(tx))) }
            })
            .collect();
        if v.is_empty() { "-".into() } else { v.join(",") }
    }

    pub fn record(id: &str, src: &str, outs: &[(usize, usize, String)]) {
        if outs.is_empty() {
            return;
        }
        let src2 = src.to_string();
        let w = std::panic::catch_unwind(move || widths(&src2)).unwrap_or_else(|_| "-".into());
        let row = serde_json::json!({"origin": "port", "id": id, "hex": hex(src), "classes": classes(src), "widths": w,
            "outs": outs.iter().map(|(w, i, h)| serde_json::json!([w, i, h])).collect::<Vec<_>>()});
        LOG.lock().unwrap().push(row.to_string());
    }

    pub fn flush(out: &mut impl std::io::Write) {
        for l in LOG.lock().unwrap().drain(..) {
            writeln!(out, "{}", l).unwrap();
        }
    }
}

fn fmt(src: &str, path: &Option<PathBuf>, w: usize) -> Result<Result<String, ()>, ()> {
    let s = src.to_string();
    let p = path.clone();
    match std::panic::catch_unwind(move || mimium_fmt::pretty_print_cst(&s, &p, w)) {
        Ok(Ok(o)) => Ok(Ok(o)),
        Ok(Err(_)) => Ok(Err(())),
        Err(_) => Err(()),
    }
}

/// syntactic shape labels (on the CST / token stream of the *input*).  They keyed the class-shaped findings of the formatter; every
/// one of them is repaired, so they are statistics only (`texts_in_known_classes` of the evidence) — `OPEN_CLASSES` lists the labels
/// that still key an OPEN finding of known_findings.jsonl: texts carrying one of those are not mutated / gap-probed (their static
/// defect would mask everything else).
const OPEN_CLASSES: [&str; 3] = ["lenient-stray-comma", "lenient-assign-in-if", "lenient-assign-in-macro-arg"];

fn in_open_class(cs: &[&'static str]) -> bool {
    cs.iter().any(|c| OPEN_CLASSES.contains(c))
}

fn classes(p: &Parsed, src: &str) -> Vec<&'static str> {
    use mimium_lang::compiler::parser::green::GreenNode;
    use mimium_lang::compiler::parser::{SyntaxKind, parse_cst, preparse};
    let mut c: Vec<&'static str> = vec![];
    let toks = tokenize(src);
    let pre = preparse(&toks);
    let (root, arena, toks, _errs) = parse_cst(toks.clone(), &pre);
    // walk
    let mut stack = vec![root];
    let add = |x: &'static str, c: &mut Vec<&'static str>| {
        if !c.contains(&x) {
            c.push(x)
        }
    };
    while let Some(id) = stack.pop() {
        if let GreenNode::Internal { kind, children, .. } = arena.get(id) {
            let child_kind = |i: usize| -> Option<SyntaxKind> { children.get(i).and_then(|&ch| arena.kind(ch)) };
            let child_tok = |i: usize| -> Option<TokenKind> {
                children.get(i).and_then(|&ch| match arena.get(ch) {
                    GreenNode::Token { token_index, .. } => Some(toks[*token_index].kind),
                    _ => None,
                })
            };
            match kind {
                SyntaxKind::TypeDecl | SyntaxKind::VariantDef => add("type-decl", &mut c),
                SyntaxKind::MatchExpr | SyntaxKind::MatchArm | SyntaxKind::MatchArmList => add("match", &mut c),
                SyntaxKind::RecordPattern => add("record-pattern", &mut c),
                SyntaxKind::RecordType => add("record-type", &mut c),
                SyntaxKind::ParamList => {
                    for i in 0..children.len() {
                        if matches!(child_kind(i), Some(SyntaxKind::TypeAnnotation) | Some(SyntaxKind::ParamDefault)) {
                            add("typed-param", &mut c);
                        }
                        // a comma that follows no item: `(,` or `,,` (parse_param_list reports no error; Model/CstStrict.lean)
                        if i >= 1 && child_tok(i) == Some(TokenKind::Comma) && (i == 1 || child_tok(i - 1) == Some(TokenKind::Comma)) {
                            add("lenient-stray-comma", &mut c);
                        }
                    }
                }
                SyntaxKind::MacroExpansion => {
                    for i in 0..children.len() {
                        if child_kind(i) == Some(SyntaxKind::AssignExpr) {
                            add("lenient-assign-in-macro-arg", &mut c);
                        }
                    }
                }
                SyntaxKind::IfExpr => {
                    // `if` directly followed by something that does not start with `(`
                    let mut first_tok_after_if = None;
                    if child_tok(0) == Some(TokenKind::If) {
                        if let Some(&ch) = children.get(1) {
                            let mut cur = ch;
                            loop {
                                match arena.get(cur) {
                                    GreenNode::Token { token_index, .. } => {
                                        first_tok_after_if = Some(toks[*token_index].kind);
                                        break;
                                    }
                                    GreenNode::Internal { children, .. } => match children.first() {
                                        Some(&f) => cur = f,
                                        None => break,
                                    },
                                }
                            }
                        }
                    }
                    if first_tok_after_if != Some(TokenKind::ParenBegin) {
                        add("if-no-paren", &mut c);
                    }
                    // an assignment as condition or then-branch: an `AssignExpr` child in front of `else`
                    for i in 0..children.len() {
                        if child_tok(i) == Some(TokenKind::Else) {
                            break;
                        }
                        if child_kind(i) == Some(SyntaxKind::AssignExpr) {
                            add("lenient-assign-in-if", &mut c);
                        }
                    }
                }
                SyntaxKind::TupleExpr => {
                    // `(x,)`: one element and a trailing comma
                    let mut commas = 0;
                    let mut elems = 0;
                    for i in 0..children.len() {
                        match child_tok(i) {
                            Some(TokenKind::Comma) => commas += 1,
                            Some(TokenKind::ParenBegin) | Some(TokenKind::ParenEnd) => {}
                            _ => elems += 1,
                        }
                    }
                    if elems == 1 && commas >= 1 {
                        add("one-tuple", &mut c);
                    }
                }
                SyntaxKind::LambdaExpr => {
                    if child_tok(0) == Some(TokenKind::LambdaArgBeginEnd) && child_tok(1) == Some(TokenKind::LambdaArgBeginEnd) {
                        add("empty-lambda-params", &mut c);
                    }
                    // between the bars: a comma that follows no item
                    let mut i = 1;
                    while i < children.len() && child_tok(i) != Some(TokenKind::LambdaArgBeginEnd) {
                        if child_tok(i) == Some(TokenKind::Comma) && (i == 1 || child_tok(i - 1) == Some(TokenKind::Comma)) {
                            add("lenient-stray-comma", &mut c);
                        }
                        i += 1;
                    }
                }
                _ => {}
            }
            for &ch in children.iter() {
                stack.push(ch);
            }
        }
    }
    let _ = p;
    c.sort();
    c
}

fn judge(id: &str, origin: &str, src: &str, path: &Option<PathBuf>, configs: &[(usize, usize)], out: &mut impl Write) {
    let j = judge_value(id, origin, src, path, configs);
    writeln!(out, "{}", j).unwrap();
}

/// reduced position key of a comment: kind of the preceding significant token @ kind of the CST node that owns it
fn pos_key(full: &str) -> String {
    full.split('>').next().unwrap_or("?").to_string()
}

fn judge_value(id: &str, origin: &str, src: &str, path: &Option<PathBuf>, configs: &[(usize, usize)]) -> serde_json::Value {
    let src_owned = src.to_string();
    let p0 = path.clone();
    let base = match std::panic::catch_unwind(move || parse_all(&src_owned, &p0)) {
        Ok(b) => b,
        Err(_) => {
            return serde_json::json!({"id": id, "origin": origin, "skip": "parser-panic"});
        }
    };
    if base.nerr > 0 {
        if std::env::var("C14_SHOW_SKIPPED").is_ok() {
            return serde_json::json!({"id": id, "origin": origin, "skip": "parse-errors", "src": src});
        }
        return serde_json::json!({"id": id, "origin": origin, "skip": "parse-errors"});
    }
    let mut fails = vec![];
    let mut outs: Vec<String> = vec![];
    let mut dup_comments = 0usize;
    let mut port_outs: Vec<(usize, usize, String)> = vec![];
    for &(w, ind) in configs {
        set_indent(ind);
        macro_rules! fail {
            ($kind:expr, $detail:expr) => {
                fails.push(serde_json::json!({"w": w, "ind": ind, "kind": $kind, "detail": $detail}))
            };
        }
        let o = match fmt(src, path, w) {
            Err(()) => {
                port_outs.push((w, ind, "PANIC".into()));
                fail!("fmt-panic", String::new());
                continue;
            }
            Ok(Err(())) => {
                port_outs.push((w, ind, "ERR".into()));
                fail!("fmt-error", String::new());
                continue;
            }
            Ok(Ok(o)) => o,
        };
        port_outs.push((w, ind, port::fnv64(&o)));
        if !outs.contains(&o) {
            outs.push(o.clone());
        }
        let o2 = o.clone();
        let p2 = path.clone();
        let po = match std::panic::catch_unwind(move || parse_all(&o2, &p2)) {
            Ok(x) => x,
            Err(_) => {
                fail!("judge-panic", "parser panicked on formatter output".to_string());
                continue;
            }
        };
        // (c) every comment, in order (token level: judged also when the output does not parse)
        let lost = lost_in(&base.comments, &po.comments);
        if !lost.is_empty() {
            let ctx: Vec<String> = lost.iter().map(|&i| format!("{}>{}", base.comment_ctx[i].0, base.comment_ctx[i].1)).collect();
            fails.push(serde_json::json!({"w": w, "ind": ind, "kind": "comment-lost",
                "detail": format!("{} of {} comments lost, first: #{} {:?}", lost.len(), base.comments.len(), lost[0], base.comments[lost[0]]),
                "lost": lost, "lost_ctx": ctx, "lost_pos": lost.iter().map(|&i| base.comment_pos[i].clone()).collect::<Vec<_>>()}));
        } else if po.comments.len() > base.comments.len() {
            dup_comments += 1;
        }
        // (a) parses without errors
        if po.nerr > 0 {
            fail!("parse-error", format!("{} parser errors in output", po.nerr));
            continue; // (b) and (d) are not defined for an output that is not a program
        }
        // (b) same AST modulo spans
        if po.ast != base.ast {
            fail!("ast-changed", first_diff(&base.ast, &po.ast));
        } else if po.prog != base.prog {
            fail!("ast-changed", format!("program dump: {}", first_diff(&base.prog, &po.prog)));
        }
        // (d) fixed point
        match fmt(&o, path, w) {
            Ok(Ok(o3)) => {
                if o3 != o {
                    fail!("not-idempotent", first_diff(&o, &o3));
                }
            }
            Ok(Err(())) => fail!("not-idempotent", "second formatting reports a syntax error".to_string()),
            Err(()) => fail!("not-idempotent", "second formatting panicked".to_string()),
        }
    }
    port::record(id, src, &port_outs);
    let mut j = serde_json::json!({
        "id": id, "origin": origin, "bytes": src.len(), "ntok": base.ntok, "ncom": base.comments.len(),
        "classes": classes(&base, src), "distinct_outputs": outs.len(), "configs": configs.len(),
        "dup_comments": dup_comments, "fails": fails,
    });
    if !j["fails"].as_array().unwrap().is_empty() {
        j["src"] = serde_json::Value::String(src.to_string());
        if let Some(p) = path {
            j["path"] = serde_json::Value::String(p.to_string_lossy().to_string());
        }
    }
    // tallies per comment position (reduced key): how many comments sit there, how many were lost at >= 1 configuration
    let mut pos_all: std::collections::BTreeMap<String, usize> = Default::default();
    for k in &base.comment_pos {
        *pos_all.entry(pos_key(k)).or_default() += 1;
    }
    let mut lost_any: std::collections::BTreeSet<usize> = Default::default();
    for f in j["fails"].as_array().unwrap() {
        if let Some(l) = f["lost"].as_array() {
            for i in l {
                lost_any.insert(i.as_u64().unwrap() as usize);
            }
        }
    }
    let mut pos_lost: std::collections::BTreeMap<String, usize> = Default::default();
    for i in lost_any {
        *pos_lost.entry(pos_key(&base.comment_pos[i])).or_default() += 1;
    }
    j["pos_all"] = serde_json::json!(pos_all);
    j["pos_lost"] = serde_json::json!(pos_lost);
    j
}

fn all_configs() -> Vec<(usize, usize)> {
    let mut v = vec![];
    for &i in &INDENTS {
        for &w in &WIDTHS {
            v.push((w, i));
        }
    }
    v
}


// ---------------------------------------------------------------------------------------------
// layout / comment mutations of a valid source text (token-gap edits; the result is judged only if it still
// parses without errors). Steered away from the open findings: no comment is placed directly after a `}`.

/// tokens whose attached comments the printer is known to drop (finding F14): `,` `}` (and the `{` of a
/// `use m::{..}` list, excluded separately by `in_use_list`)
fn drops_trivia(k: Option<TokenKind>) -> bool {
    matches!(k, Some(TokenKind::Comma) | Some(TokenKind::BlockEnd))
}

fn is_trivia_kind(k: TokenKind) -> bool {
    matches!(k, TokenKind::Whitespace | TokenKind::LineBreak | TokenKind::SingleLineComment | TokenKind::MultiLineComment)
}

pub fn mutate(src: &str, r: &mut Rng, uniq: &mut usize) -> (String, Vec<&'static str>) {
    let toks = tokenize(src);
    let mut parts: Vec<(TokenKind, String)> = toks
        .iter()
        .filter(|t| t.kind != TokenKind::Eof)
        .map(|t| (t.kind, t.text(src).to_string()))
        .collect();
    let mut ops: Vec<&'static str> = vec![];
    let nops = 1 + r.below(4);
    for _ in 0..nops {
        // bracket depth (parens and square brackets) before each part
        let mut depth = vec![0i32; parts.len() + 1];
        let mut d = 0i32;
        for (i, (k, _)) in parts.iter().enumerate() {
            depth[i] = d;
            match k {
                TokenKind::ParenBegin | TokenKind::ArrayBegin => d += 1,
                TokenKind::ParenEnd | TokenKind::ArrayEnd => d -= 1,
                _ => {}
            }
        }
        depth[parts.len()] = d;
        // previous significant token kind before each insertion point i (insertion before parts[i])
        let mut prev_sig: Vec<Option<TokenKind>> = vec![None; parts.len() + 1];
        let mut ps = None;
        for (i, (k, _)) in parts.iter().enumerate() {
            prev_sig[i] = ps;
            if !is_trivia_kind(*k) {
                // the `{` of `use m::{a, b}` drops its trivia like a comma does (finding F14)
                ps = if *k == TokenKind::BlockBegin && ps == Some(TokenKind::DoubleColon) { Some(TokenKind::Comma) } else { Some(*k) };
            }
        }
        prev_sig[parts.len()] = ps;
        if parts.is_empty() {
            break;
        }
        let op = r.below(10);
        match op {
            9 => {
                // a comment in front of the first token: on its line (block) or on a line of its own (block / line)
                *uniq += 1;
                match r.below(3) {
                    0 => parts.insert(0, (TokenKind::MultiLineComment, format!("/* c{} */ ", uniq))),
                    1 => parts.insert(0, (TokenKind::MultiLineComment, format!("/* c{} */\n", uniq))),
                    _ => parts.insert(0, (TokenKind::SingleLineComment, format!("// c{}\n", uniq))),
                }
                ops.push("file-start-comment");
            }
            0 | 1 => {
                // block comment in a token gap (not directly after `}`, not at file start: see F7/F14)
                let cands: Vec<usize> = (1..parts.len()).filter(|&i| prev_sig[i].is_some() && !drops_trivia(prev_sig[i])).collect();
                if cands.is_empty() {
                    continue;
                }
                let i = *r.pick(&cands);
                *uniq += 1;
                let txt = if r.chance(1, 4) { format!("/* c{}\n   more */", uniq) } else { format!("/* c{} */", uniq) };
                parts.insert(i, (TokenKind::MultiLineComment, txt));
                ops.push("block-comment");
            }
            2 => {
                // line comment at the end of a line (before an existing line break)
                let cands: Vec<usize> = (1..parts.len())
                    .filter(|&i| parts[i].0 == TokenKind::LineBreak && parts[i].1 != ";" && prev_sig[i].is_some() && !drops_trivia(prev_sig[i])
                        && parts[i - 1].0 != TokenKind::SingleLineComment)
                    .collect();
                if cands.is_empty() {
                    continue;
                }
                let i = *r.pick(&cands);
                *uniq += 1;
                parts.insert(i, (TokenKind::SingleLineComment, format!(" // c{}", uniq)));
                ops.push("line-comment");
            }
            3 => {
                // line comment on its own line in a gap that has a line break already
                let cands: Vec<usize> = (1..parts.len())
                    .filter(|&i| parts[i].0 == TokenKind::LineBreak && parts[i].1 != ";" && prev_sig[i].is_some() && !drops_trivia(prev_sig[i]))
                    .collect();
                if cands.is_empty() {
                    continue;
                }
                let i = *r.pick(&cands);
                *uniq += 1;
                parts.insert(i + 1, (TokenKind::SingleLineComment, format!("// c{}", uniq)));
                parts.insert(i + 2, (TokenKind::LineBreak, "\n".to_string()));
                ops.push("own-line-comment");
            }
            4 => {
                // blank line: double an existing line break
                let cands: Vec<usize> = (0..parts.len()).filter(|&i| parts[i].0 == TokenKind::LineBreak && parts[i].1 != ";").collect();
                if cands.is_empty() {
                    continue;
                }
                let i = *r.pick(&cands);
                parts.insert(i, (TokenKind::LineBreak, "\n".to_string()));
                ops.push("blank-line");
            }
            5 => {
                // join lines inside brackets
                let cands: Vec<usize> = (1..parts.len())
                    .filter(|&i| parts[i].0 == TokenKind::LineBreak && parts[i].1 != ";" && depth[i] > 0 && parts[i - 1].0 != TokenKind::SingleLineComment)
                    .collect();
                if cands.is_empty() {
                    continue;
                }
                let i = *r.pick(&cands);
                parts[i] = (TokenKind::Whitespace, " ".to_string());
                ops.push("join-lines");
            }
            6 => {
                // split a line after a comma inside brackets
                let cands: Vec<usize> = (0..parts.len()).filter(|&i| parts[i].0 == TokenKind::Comma && depth[i] > 0).collect();
                if cands.is_empty() {
                    continue;
                }
                let i = *r.pick(&cands);
                parts.insert(i + 1, (TokenKind::LineBreak, "\n".to_string()));
                ops.push("split-line");
            }
            7 => {
                // trailing comma before a closing bracket of a list with at least two elements
                // (a one-element `(x,)` is a different program and a separate finding)
                let mut has_comma_open: Vec<bool> = vec![];
                let mut ok_close: Vec<usize> = vec![];
                for (i, (k, _)) in parts.iter().enumerate() {
                    match k {
                        TokenKind::ParenBegin | TokenKind::ArrayBegin => has_comma_open.push(false),
                        TokenKind::Comma => {
                            if let Some(l) = has_comma_open.last_mut() {
                                *l = true
                            }
                        }
                        TokenKind::ParenEnd | TokenKind::ArrayEnd => {
                            if has_comma_open.pop() == Some(true) {
                                ok_close.push(i)
                            }
                        }
                        _ => {}
                    }
                }
                let cands: Vec<usize> = ok_close
                    .into_iter()
                    .filter(|&i| !matches!(prev_sig[i], Some(TokenKind::Comma) | Some(TokenKind::ParenBegin) | Some(TokenKind::ArrayBegin) | None))
                    .collect();
                if cands.is_empty() {
                    continue;
                }
                let i = *r.pick(&cands);
                parts.insert(i, (TokenKind::Comma, ",".to_string()));
                ops.push("trailing-comma");
            }
            _ => {
                // respace: change the width of some whitespace runs
                let mut n = 0;
                for p in parts.iter_mut() {
                    if p.0 == TokenKind::Whitespace && r.chance(1, 4) {
                        p.1 = match r.below(4) {
                            0 => " ".to_string(),
                            1 => "  ".to_string(),
                            2 => "\t".to_string(),
                            _ => "      ".to_string(),
                        };
                        n += 1;
                    }
                }
                if n > 0 {
                    ops.push("respace");
                }
            }
        }
    }
    let mut out: String = parts.iter().map(|p| p.1.as_str()).collect();
    if r.chance(1, 8) {
        out = out.replace("\r\n", "\n").replace('\n', "\r\n");
        ops.push("crlf");
    }
    (out, ops)
}


/// a block comment with a unique number in every gap between significant tokens (skipping gaps for which `skip`
/// holds of the previous significant token kind)
pub fn dense_comments(src: &str, skip: &dyn Fn(TokenKind) -> bool, line_comments: bool) -> String {
    let toks = tokenize(src);
    let mut out = String::new();
    let mut k = 0usize;
    let n = toks.len();
    for (i, t) in toks.iter().enumerate() {
        if t.kind == TokenKind::Eof {
            continue;
        }
        out.push_str(t.text(src));
        if !is_trivia_kind(t.kind) && !skip(t.kind) {
            // is there a following significant token?
            let has_next = toks[i + 1..n].iter().any(|u| !is_trivia_kind(u.kind) && u.kind != TokenKind::Eof);
            if !has_next {
                continue;
            }
            k += 1;
            if line_comments {
                // only where the gap already starts a new line
                let next_is_lb = toks.get(i + 1).map(|u| u.kind == TokenKind::LineBreak && u.text(src) != ";").unwrap_or(false);
                if next_is_lb {
                    out.push_str(&format!(" // c{}", k));
                }
            } else {
                out.push_str(&format!("/* c{} */", k));
            }
        }
    }
    out
}


// ---------------------------------------------------------------------------------------------
// `gaps` mode: systematic comment insertion. For a valid text outside the finding classes: ONE comment per
// token gap x {block, line} x {same line, own line}, each variant judged at a few configurations.
// Own-line variants and same-line `//` use the gap's existing line break when there is one; a same-line `//` in a
// gap without line break adds one (the variant is then a different, possibly invalid, program: invalid ones are skipped).

const GAP_CONFIGS: [(usize, usize); 4] = [(1, 2), (20, 4), (80, 4), (1_000_000, 2)];

/// (byte offset directly after the significant token, byte offset after the first line break of the gap if any)
fn gap_sites(src: &str) -> Vec<(usize, Option<usize>)> {
    let toks = tokenize(src);
    let mut v = vec![];
    let n = toks.len();
    // the gap in front of the first token (offset 0; its "line break" is the start of the file: the own-line variants put the
    // comment on a line of its own above the first token, the same-line variants on the first token's line)
    v.push((0, Some(0)));
    for (i, t) in toks.iter().enumerate() {
        if is_trivia_kind(t.kind) || t.kind == TokenKind::Eof {
            continue;
        }
        let mut lb = None;
        let mut has_next = false;
        for u in &toks[i + 1..n] {
            if u.kind == TokenKind::Eof {
                break;
            }
            if !is_trivia_kind(u.kind) {
                has_next = true;
                break;
            }
            if u.kind == TokenKind::LineBreak && u.text(src) != ";" && lb.is_none() {
                lb = Some(u.start + u.length);
            }
        }
        let _ = has_next;
        v.push((t.start + t.length, lb));
    }
    v
}

fn gap_variants(src: &str, site: (usize, Option<usize>), k: usize) -> Vec<(&'static str, String)> {
    let (after, lb) = site;
    let mut v = vec![];
    let ins = |at: usize, what: &str| -> String { format!("{}{}{}", &src[..at], what, &src[at..]) };
    v.push(("B-same", ins(after, &format!(" /* q{k} */ "))));
    match lb {
        Some(l) => {
            // (in front of the first token a `//` on the same line would comment the first line out)
            if !(after == 0 && l == 0) {
                v.push(("L-same", ins(after, &format!(" // q{k}"))));
            }
            v.push(("B-own", ins(l, &format!("/* q{k} */\n"))));
            v.push(("L-own", ins(l, &format!("// q{k}\n"))));
        }
        None => {
            v.push(("L-same+nl", ins(after, &format!(" // q{k}\n"))));
        }
    }
    v
}

fn run_gaps(id: &str, src: &str, path: &Option<PathBuf>, max_gaps: usize, r: &mut Rng, out: &mut impl Write) {
    let s0 = src.to_string();
    let p0 = path.clone();
    let ok = std::panic::catch_unwind(move || {
        let b = parse_all(&s0, &p0);
        b.nerr == 0 && !in_open_class(&classes(&b, &s0))
    })
    .unwrap_or(false);
    if !ok {
        writeln!(out, "{}", serde_json::json!({"id": id, "origin": "gaps", "skip": "not-class-free"})).unwrap();
        return;
    }
    let mut sites = gap_sites(src);
    let total_sites = sites.len();
    if max_gaps > 0 && sites.len() > max_gaps {
        // random sample without replacement
        for i in 0..max_gaps {
            let j = i + r.below((sites.len() - i) as u64) as usize;
            sites.swap(i, j);
        }
        sites.truncate(max_gaps);
    }
    let mut variants = 0usize;
    let mut invalid = 0usize;
    let mut evals = 0usize;
    let mut pos_all: std::collections::BTreeMap<String, usize> = Default::default();
    let mut pos_lost: std::collections::BTreeMap<String, usize> = Default::default();
    let mut layouts = 0usize;
    for (k, site) in sites.iter().enumerate() {
        for (vk, text) in gap_variants(src, *site, k) {
            let j = judge_value(&format!("{id}@{}:{vk}", site.0), &format!("gap:{vk}"), &text, path, &GAP_CONFIGS);
            if j.get("skip").is_some() {
                invalid += 1;
                continue;
            }
            variants += 1;
            evals += GAP_CONFIGS.len();
            if j["distinct_outputs"].as_u64().unwrap_or(0) >= 2 {
                layouts += 1;
            }
            for (m, key) in [(&mut pos_all, "pos_all"), (&mut pos_lost, "pos_lost")] {
                if let Some(o) = j[key].as_object() {
                    for (kk, vv) in o {
                        *m.entry(kk.clone()).or_default() += vv.as_u64().unwrap_or(0) as usize;
                    }
                }
            }
            if !j["fails"].as_array().map(|a| a.is_empty()).unwrap_or(true) {
                writeln!(out, "{}", j).unwrap();
            }
        }
    }
    writeln!(out, "{}", serde_json::json!({"id": id, "origin": "gaps-summary", "sites": total_sites, "sites_probed": sites.len(),
        "variants": variants, "variants_invalid": invalid, "evaluations": evals, "variants_two_layouts": layouts,
        "bytes": src.len(), "pos_all": pos_all, "pos_lost": pos_lost})).unwrap();
}

// ---------------------------------------------------------------------------------------------
// corpus

fn walk(dir: &std::path::Path, out: &mut Vec<PathBuf>) {
    let Ok(rd) = std::fs::read_dir(dir) else { return };
    let mut es: Vec<_> = rd.filter_map(|e| e.ok()).map(|e| e.path()).collect();
    es.sort();
    for p in es {
        let name = p.file_name().map(|s| s.to_string_lossy().to_string()).unwrap_or_default();
        if p.is_dir() {
            if name == "target" || name == "tmp" || name.starts_with('.') || name == "node_modules" {
                continue;
            }
            walk(&p, out);
        } else if name.ends_with(".mmm") {
            out.push(p);
        }
    }
}


// ---------------------------------------------------------------------------------------------
// `docs` mode: random documents through the public API of the real `pretty` crate

mod docs {
    use super::Rng;
    use pretty::{Arena, Doc, DocAllocator, DocBuilder, RefDoc};
    type B<'a> = DocBuilder<'a, Arena<'a, ()>, ()>;

    fn hex(s: &str) -> String {
        s.bytes().map(|b| format!("{:02x}", b)).collect()
    }

    /// dump of the raw `Doc` tree the builders produced (after the crate's smart constructors)
    pub fn dump<'a>(d: &Doc<'a, RefDoc<'a, ()>, ()>, out: &mut String) {
        match d {
            Doc::Nil => out.push('N'),
            Doc::Hardline => out.push('H'),
            Doc::Append(l, r) => {
                out.push_str("A(");
                dump(l, out);
                out.push(',');
                dump(r, out);
                out.push(')');
            }
            Doc::FlatAlt(b, f) => {
                out.push_str("F(");
                dump(b, out);
                out.push(',');
                dump(f, out);
                out.push(')');
            }
            Doc::Group(x) => {
                out.push_str("G(");
                dump(x, out);
                out.push(')');
            }
            Doc::Nest(off, x) => {
                out.push_str(&format!("E{}(", off));
                dump(x, out);
                out.push(')');
            }
            Doc::OwnedText(t) => out.push_str(&format!("T{}:{}.", t.len(), hex(t))),
            Doc::BorrowedText(t) => out.push_str(&format!("T{}:{}.", t.len(), hex(t))),
            Doc::SmallText(t) => out.push_str(&format!("T{}:{}.", t.len(), hex(t))),
            Doc::RenderLen(len, x) => {
                let t: &str = match &**x {
                    Doc::OwnedText(t) => t,
                    Doc::BorrowedText(t) => t,
                    Doc::SmallText(t) => t,
                    _ => "?",
                };
                out.push_str(&format!("T{}:{}.", len, hex(t)));
            }
            _ => out.push('?'),
        }
    }

    const WORDS: [&str; 14] = ["a", "x", "fn", "let", "foo", "1.0", "+", "|>", "(", ")", "{", "}", ",", "osc"];
    const ODD: [&str; 8] = ["é", "日本", "🎵", "/* c\n c */", "// c", "", "  ", "a\tb"];

    fn text<'a>(a: &'a Arena<'a, ()>, r: &mut Rng, wild: bool) -> B<'a> {
        if wild && r.chance(1, 5) {
            a.text(r.pick(&ODD).to_string())
        } else if r.chance(1, 6) {
            let n = 1 + r.below(12) as usize;
            a.text("w".repeat(n))
        } else {
            a.text(*r.pick(&WORDS))
        }
    }

    /// documents shaped like the ones cst_print.rs builds
    pub fn fmt_like<'a>(a: &'a Arena<'a, ()>, r: &mut Rng, depth: usize, ind: isize) -> B<'a> {
        if depth == 0 {
            return text(a, r, false);
        }
        match r.below(10) {
            0 => text(a, r, false),
            1 => {
                // binary: lhs op line rhs nested
                let l = fmt_like(a, r, depth - 1, ind);
                let rr = fmt_like(a, r, depth - 1, ind);
                l.append(a.space()).append(a.text("+")).append(a.line().append(rr).nest(ind)).group()
            }
            2 => {
                // pipe: lhs line |> rhs
                let l = fmt_like(a, r, depth - 1, ind);
                let rr = fmt_like(a, r, depth - 1, ind);
                l.append(a.line().append(a.text("|>")).append(a.space()).append(rr).nest(ind)).group()
            }
            3 | 4 => {
                // grouped list
                let n = r.below(5) as usize;
                let items: Vec<B<'a>> = (0..n).map(|_| fmt_like(a, r, depth - 1, ind)).collect();
                let body = a.intersperse(items, a.text(",").append(a.softline()));
                a.text("(").append(body.nest(ind)).append(a.text(")")).group()
            }
            5 => {
                // block with hardlines
                let n = 1 + r.below(3) as usize;
                let items: Vec<B<'a>> = (0..n).map(|_| fmt_like(a, r, depth - 1, ind)).collect();
                let body = a.intersperse(items, a.hardline());
                a.text("{").append(a.hardline().append(body).nest(ind)).append(a.hardline()).append(a.text("}"))
            }
            6 => {
                // trailing line comment
                let x = fmt_like(a, r, depth - 1, ind);
                x.append(a.text(" ")).append(a.text("// c")).append(a.hardline())
            }
            7 => {
                // if
                let c = fmt_like(a, r, depth - 1, ind);
                let t = fmt_like(a, r, depth - 1, ind);
                let e = fmt_like(a, r, depth - 1, ind);
                a.text("if")
                    .append(c.group())
                    .append(a.softline())
                    .append(t.group())
                    .append(a.softline())
                    .append(a.text("else"))
                    .append(a.space())
                    .append(e.group())
                    .group()
            }
            8 => {
                let n = 2 + r.below(3) as usize;
                let items: Vec<B<'a>> = (0..n).map(|_| fmt_like(a, r, depth - 1, ind)).collect();
                a.concat(items)
            }
            _ => {
                let x = fmt_like(a, r, depth - 1, ind);
                a.text("let x = ").append(x.group())
            }
        }
    }

    /// arbitrary use of the document algebra
    pub fn wild<'a>(a: &'a Arena<'a, ()>, r: &mut Rng, depth: usize) -> B<'a> {
        if depth == 0 {
            return match r.below(8) {
                0 => a.nil(),
                1 => a.hardline(),
                2 => a.line(),
                3 => a.line_(),
                4 => a.softline(),
                5 => a.softline_(),
                6 => a.space(),
                _ => text(a, r, true),
            };
        }
        match r.below(9) {
            0 | 1 | 2 => {
                let l = wild(a, r, depth - 1);
                let rr = wild(a, r, depth - 1);
                l.append(rr)
            }
            3 | 4 => wild(a, r, depth - 1).group(),
            5 => {
                let off = [0isize, 1, 2, 4, 4, 8, -1, -2, -4][r.below(9) as usize];
                wild(a, r, depth - 1).nest(off)
            }
            6 => {
                let b = wild(a, r, depth - 1);
                let f = wild(a, r, depth - 1);
                b.flat_alt(f)
            }
            7 => {
                let n = r.below(4) as usize;
                let items: Vec<B<'a>> = (0..n).map(|_| wild(a, r, depth - 1)).collect();
                let sep = wild(a, r, 0);
                a.intersperse(items, sep)
            }
            _ => wild(a, r, 0),
        }
    }

    pub fn run(seed: u64, n: usize, out: &mut impl std::io::Write) {
        let mut r = Rng::new(seed);
        for i in 0..n {
            let a: Arena<'_, ()> = Arena::new();
            let depth = 1 + r.below(6) as usize;
            let ind = [2isize, 4][r.below(2) as usize];
            let d = if i % 2 == 0 { fmt_like(&a, &mut r, depth, ind) } else { wild(&a, &mut r, depth) };
            let mut tree = String::new();
            dump(&d, &mut tree);
            let nw = 1 + r.below(3);
            for _ in 0..nw {
                let w = match r.below(8) {
                    0 => 0,
                    1 => 1,
                    2 | 3 => r.below(16) as usize,
                    4 => 20 + r.below(40) as usize,
                    5 => 80,
                    6 => 120,
                    _ => 1_000_000,
                };
                let mut buf = Vec::new();
                d.render(w, &mut buf).unwrap();
                let hexout: String = buf.iter().map(|b| format!("{:02x}", b)).collect();
                writeln!(out, "{}\t{}\t{}", w, tree, hexout).unwrap();
            }
        }
    }
}

// ---------------------------------------------------------------------------------------------
// `gen` mode: small generated programs with random layout and comments, outside the open finding classes
// (no comment directly after `,` `{` `}`: finding F14; every other former class — type declarations, `match`, typed
// parameters, record patterns/types, unparenthesised `if` conditions, empty lambda parameter lists — is repaired and generated)

mod progs {
    use super::Rng;
    pub struct G<'r> {
        pub r: &'r mut Rng,
        pub uniq: usize,
        pub comments: bool,
    }
    const IDS: [&str; 8] = ["a", "b", "x", "y", "foo", "osc", "gain", "t1"];
    const OPS: [&str; 15] = ["+", "-", "*", "/", "%", "^", "==", "!=", "<", "<=", ">", ">=", "&&", "||", "|>"];
    impl<'r> G<'r> {
        /// optional block comment (also right after `,` `{` `}`: the former finding F14 is repaired)
        fn cm(&mut self, _before: &str) -> String {
            if self.comments && self.r.chance(1, 12) {
                self.uniq += 1;
                format!(" /* g{} */ ", self.uniq)
            } else {
                String::new()
            }
        }
        fn sp(&mut self) -> &'static str {
            match self.r.below(8) {
                0 => "",
                1 => "  ",
                _ => " ",
            }
        }
        /// white space where a line break is harmless (after an infix operator, inside brackets after a comma)
        fn spnl(&mut self, ind: usize) -> String {
            match self.r.below(6) {
                0 => format!("\n{}", " ".repeat(ind)),
                1 => String::new(),
                _ => " ".to_string(),
            }
        }
        fn id(&mut self) -> String {
            self.r.pick(&IDS).to_string()
        }
        /// a type in annotation position: primitives, tuples, function types (also curried / nested), arrays, code types
        /// (record types are an open finding class and are not generated)
        fn ty(&mut self, d: usize) -> String {
            if d == 0 {
                return self.r.pick(&["float", "float", "int", "string"]).to_string();
            }
            match self.r.below(12) {
                0 | 1 | 2 => self.r.pick(&["float", "float", "int", "string"]).to_string(),
                // a parenthesised type `(T)` has no CST node of its own: its parentheses are children of the enclosing tuple /
                // function / record type (former finding C14-paren-type-in-tuple-type), comments may hang on them
                10 | 11 => {
                    let (c1, c2) = (self.cm("("), self.cm(")"));
                    format!("({c1}{}{c2})", self.ty(d - 1))
                }
                3 => format!("({},{}{})", self.ty(d - 1), self.sp(), self.ty(d - 1)),
                4 | 5 => format!("({}){}->{}{}", self.ty(d - 1), self.sp(), self.sp(), self.ty(d - 1)),
                6 => format!("({}, {})->{}", self.ty(d - 1), self.ty(d - 1), self.ty(d - 1)),
                7 => format!("[{}]", self.ty(d - 1)),
                8 => format!("{{k0:{}{},{}k1{}:{}}}", self.sp(), self.ty(d - 1), self.sp(), self.sp(), self.ty(d - 1)),
                _ => format!("`{}", self.ty(d - 1)),
            }
        }
        /// optional `:T` after a lambda parameter or a `let` name
        fn opt_ann(&mut self) -> String {
            if self.r.chance(1, 3) {
                format!("{}:{}{}", self.sp(), self.sp(), self.ty(2))
            } else {
                String::new()
            }
        }
        /// optional `->T` return annotation (lambda or fn)
        fn opt_ret(&mut self) -> String {
            if self.r.chance(1, 3) {
                format!("{}->{}{}", self.sp(), self.sp(), self.ty(2))
            } else {
                String::new()
            }
        }
        fn lit(&mut self) -> String {
            match self.r.below(8) {
                0 => "0.0".into(),
                1 => "1".into(),
                2 => format!("{}.{}", self.r.below(1000), self.r.below(100)),
                3 => "now".into(),
                4 => "self".into(),
                5 => "\"s t\"".into(),
                _ => self.id(),
            }
        }
        fn list(&mut self, d: usize, ind: usize, min: usize) -> String {
            let n = min + self.r.below(4) as usize;
            let mut s = String::new();
            for i in 0..n {
                if i > 0 {
                    s.push(',');
                    if self.comments && self.r.chance(1, 10) {
                        self.uniq += 1;
                        s.push_str(&format!(" /* c{} */", self.uniq));      // a comment right after a comma
                    }
                    s.push_str(&self.spnl(ind));
                }
                let e = self.expr(d, ind);
                s.push_str(&e);
                s.push_str(&self.cm(&e));
            }
            s
        }
        pub fn expr(&mut self, d: usize, ind: usize) -> String {
            if d == 0 {
                return self.lit();
            }
            match self.r.below(18) {
                0 | 1 => self.lit(),
                2 | 3 | 4 => {
                    let l = self.expr(d - 1, ind);
                    let op = *self.r.pick(&OPS);
                    let rr = self.expr(d - 1, ind);
                    let c = self.cm(&l);
                    format!("{l}{}{c}{op}{}{rr}", self.sp(), self.spnl(ind + 2))
                }
                5 => format!("-{}", self.lit()),
                6 | 7 => {
                    let f = self.id();
                    let a = self.list(d - 1, ind + 2, 0);
                    format!("{f}({a})")
                }
                8 => {
                    if self.r.chance(1, 3) {
                        // a one-element tuple, comments before / after its comma (former finding C14-one-tuple-comma-comment)
                        let e = self.expr(d - 1, ind);
                        let c1 = self.cm(&e);
                        let c2 = if self.comments && self.r.chance(1, 4) {
                            self.uniq += 1;
                            if self.r.chance(1, 2) { format!(" /* t{} */", self.uniq) } else { format!(" // t{}\n{}", self.uniq, " ".repeat(ind)) }
                        } else {
                            String::new()
                        };
                        format!("({e}{}{c1},{c2}{})", self.sp(), self.sp())
                    } else {
                        format!("({})", self.expr(d - 1, ind))
                    }
                }
                9 => format!("({})", self.list(d - 1, ind + 2, 2)),
                10 => format!("[{}]", self.list(d - 1, ind + 2, 1)),
                11 => {
                    let b = self.id();
                    match self.r.below(3) {
                        0 => format!("{b}[{}]", self.expr(d - 1, ind)),
                        1 => format!("{b}.{}", self.id()),
                        _ => format!("{b}.{}", self.r.below(3)),
                    }
                }
                12 => {
                    let c = self.expr(d - 1, ind);
                    let t = self.expr(d - 1, ind);
                    let e = self.expr(d - 1, ind);
                    match self.r.below(6) {
                        4 | 5 => {
                            // a branch without braces that starts with `(` or `[` on a line of its own: on the condition's line the
                            // parser would read it as a call / an index of the condition (former corpus/C14/todo/if_newline_paren)
                            let (o, cl) = if self.r.chance(1, 2) { ("(", ")") } else { ("[", "]") };
                            let c0 = if self.r.chance(1, 3) { self.lit() } else { format!("({c})") };
                            let pad = " ".repeat(ind + 2);
                            let cmt = if self.comments && self.r.chance(1, 5) {
                                self.uniq += 1;
                                format!(" // i{}", self.uniq)
                            } else {
                                String::new()
                            };
                            if self.r.chance(1, 2) {
                                format!("if {c0}{cmt}\n{pad}{o}{t}{cl} else {o}{e}{cl}")
                            } else {
                                format!("if {c0}{cmt}\n{pad}{o}{t}{cl}\n{pad}else\n{pad}{o}{e}{cl}")
                            }
                        }
                        3 => {
                            // a condition without parentheses (a plain name or literal)
                            let c0 = self.lit();
                            format!("if {c0} {{{}{t}{}}}else{{{}{e}{}}}", self.spnl(ind + 2), self.spnl(ind), self.spnl(ind + 2), self.spnl(ind))
                        }
                        0 => format!("if ({c}) {t} else {e}"),
                        1 => format!("if ({c}){{{}{t}{}}}else{{{}{e}{}}}", self.spnl(ind + 2), self.spnl(ind), self.spnl(ind + 2), self.spnl(ind)),
                        _ => format!("if ({c}) {{\n{}{t}\n{}}}", " ".repeat(ind + 2), " ".repeat(ind)),
                    }
                }
                13 => {
                    let n = self.r.below(4) as usize;      // 0: an empty parameter list `| |`
                    let ps: Vec<String> = (0..n).map(|_| format!("{}{}", self.id(), self.opt_ann())).collect();
                    let ret = self.opt_ret();
                    let body = self.expr(d - 1, ind);
                    if self.r.chance(1, 2) {
                        // a return annotation needs white space before an expression body that starts with a word
                        // (also before a body that is itself a lambda: `| || | e` is read as ONE lambda whose parameter
                        //  list contains the token `||`, which the parser skips without an error)
                        let gap = if ret.is_empty() && !body.starts_with('|') { self.sp() } else { " " };
                        format!("|{}|{ret}{gap}{body}", if ps.is_empty() { " ".to_string() } else { ps.join(",") })
                    } else {
                        format!("|{}|{ret} {{\n{}{body}\n{}}}", if ps.is_empty() { " ".to_string() } else { ps.join(", ") }, " ".repeat(ind + 2), " ".repeat(ind))
                    }
                }
                14 => {
                    let n = 1 + self.r.below(3) as usize;
                    let fs: Vec<String> = (0..n).map(|i| format!("k{} = {}", i, self.expr(d - 1, ind))).collect();
                    format!("{{{}}}", fs.join(", "))
                }
                15 => {
                    // `match` on a number / on a declared variant type; arms separated by commas or line breaks
                    let scrut = self.id();
                    let n = 1 + self.r.below(3) as usize;
                    let mut arms = String::new();
                    for i in 0..n {
                        let pat = match self.r.below(5) {
                            4 => format!("({},{}{})", self.id(), self.sp(), self.id()),      // the arm's line starts with `(`
                            0 => format!("One({})", self.id()),
                            1 => format!("Two(({},{}{}))", self.id(), self.sp(), self.id()),
                            2 => "Three".to_string(),
                            _ => format!("{i}"),
                        };
                        let body = self.expr(d - 1, ind + 2);
                        let sep = if self.r.chance(1, 2) { ",\n" } else { "\n" };
                        arms.push_str(&format!("{}{pat}{}=>{}{body}{sep}", " ".repeat(ind + 2), self.sp(), self.sp()));
                    }
                    let last = self.expr(d - 1, ind + 2);
                    format!("match {scrut} {{\n{arms}{}_ => {last}\n{}}}", " ".repeat(ind + 2), " ".repeat(ind))
                }
                _ => {
                    let body = self.stmts(d - 1, ind + 2);
                    format!("{{\n{body}{}}}", " ".repeat(ind))
                }
            }
        }
        fn stmt(&mut self, d: usize, ind: usize) -> String {
            match self.r.below(8) {
                0 | 1 | 2 => format!("let {}{}{}={}{}", self.id(), self.opt_ann(), self.sp(), self.sp(), self.expr(d, ind)),
                3 => format!("let ({}, {}) = ({}, {})", self.id(), self.id(), self.expr(d.min(1), ind), self.expr(d.min(1), ind)),
                4 => format!("{} = {}", self.id(), self.expr(d, ind)),
                5 => format!("let {{k0{}={}{}, k1 = {}}} = {}", self.sp(), self.sp(), self.id(), self.id(), self.expr(d.min(1), ind)),
                _ => self.expr(d, ind),
            }
        }
        pub fn stmts(&mut self, d: usize, ind: usize) -> String {
            let n = 1 + self.r.below(3) as usize;
            let mut s = String::new();
            for _ in 0..n {
                s.push_str(&" ".repeat(ind));
                let st = self.stmt(d, ind);
                s.push_str(&st);
                if self.comments && self.r.chance(1, 6) {
                    self.uniq += 1;
                    s.push_str(&format!(" // g{}", self.uniq));
                }
                s.push('\n');
                if self.r.chance(1, 8) {
                    s.push('\n');
                }
            }
            s
        }
        /// a small program that exercises every block-bearing construct: function body, nested block, if/else arms
        /// with braces, lambda body with braces, record, call, tuple, array
        pub fn small_program(&mut self) -> String {
            let mut s = String::new();
            let shapes = 1 + self.r.below(3) as usize;
            for i in 0..shapes {
                match self.r.below(10) {
                    6 => {
                        // a macro declaration
                        let a = self.expr(1, 2);
                        s.push_str(&format!("macro mc{i}(x, y){{\n  {a}\n}}\n"));
                    }
                    7 => {
                        // a one-element tuple and parenthesised types inside tuple / function / record types
                        let a = self.expr(1, 2);
                        let t = self.ty(2);
                        s.push_str(&format!("fn p{i}(f:(({t}), float)->float, r:{{k0:(float), k1:{t}}}){{\n  let t1 = ({a},)\n  t1\n}}\n"));
                    }
                    8 | 9 => {
                        // `if` without braces, the branches on their own lines starting with `(` / `[`
                        let c = self.expr(1, 2);
                        let t = self.expr(1, 4);
                        let e = self.expr(1, 4);
                        let (o, cl) = if self.r.chance(1, 2) { ("(", ")") } else { ("[", "]") };
                        s.push_str(&format!("fn q{i}(a, b){{\n  if ({c})\n    {o}{t}{cl}\n  else\n    {o}{e}{cl}\n}}\n"));
                    }
                    0 => {
                        let c = self.expr(1, 2);
                        let t = self.expr(1, 4);
                        let e = self.expr(1, 4);
                        s.push_str(&format!("fn g{i}(a, b){{\n  if ({c}) {{\n    {t}\n  }} else {{\n    {e}\n  }}\n}}\n"));
                    }
                    1 => {
                        let b = self.expr(1, 2);
                        s.push_str(&format!("let h{i} = |x, y| {{\n  let t1 = {b}\n  t1 + x\n}}\n"));
                    }
                    2 => {
                        let b = self.expr(1, 4);
                        s.push_str(&format!("fn k{i}(x){{\n  let y = {{\n    let a = x * 2.0\n    {b}\n  }}\n  y |> foo\n}}\n"));
                    }
                    3 => {
                        let a = self.expr(1, 2);
                        s.push_str(&format!("fn m{i}(x) {{ {a} }}\n"));
                    }
                    4 => {
                        let a = self.expr(2, 0);
                        s.push_str(&format!("let v{i} = {a}\n"));
                    }
                    _ => {
                        let body = self.stmts(1, 2);
                        s.push_str(&format!("fn f{i}(a){{\n{body}}}\n"));
                    }
                }
            }
            s
        }
        pub fn program(&mut self) -> String {
            let mut s = String::new();
            // comments before the first token of the file: on lines of their own (attached to no token by the preparser) and / or on
            // the line of the first token (its leading trivia; former finding C14-first-line-comment)
            if self.comments {
                for _ in 0..self.r.below(3) {
                    self.uniq += 1;
                    match self.r.below(4) {
                        0 => s.push_str(&format!("// h{}\n", self.uniq)),
                        1 => s.push_str(&format!("/* h{} */\n", self.uniq)),
                        2 => s.push_str(&format!("/* h{}\n   more */ ", self.uniq)),
                        _ => {
                            let (a, b, u) = (self.sp(), self.sp(), self.uniq);
                            s.push_str(&format!("{a}/* h{u} */{b}"))
                        }
                    }
                }
            }
            // type declarations (the variant type the `match` arms refer to, aliases, recursive types)
            if self.r.chance(1, 6) {
                // the first token of the file is the `{` of a block / a `(` / a name instead of `type`
                let e = self.expr(1, 0);
                s.push_str(&format!("{}\n", match self.r.below(3) { 0 => format!("{{ {e} }}"), 1 => format!("({e})"), _ => e }));
            }
            s.push_str("type E = One(float) | Two((float,float)) | Three\n");
            if self.r.chance(1, 3) {
                s.push_str(&format!("type alias Freq{}={}{}\n", self.sp(), self.sp(), self.ty(1)));
            }
            if self.r.chance(1, 4) {
                s.push_str("type rec List = Nil | Cons(float, List)\n");
            }
            let n = 1 + self.r.below(4) as usize;
            for i in 0..n {
                let d = 1 + self.r.below(4) as usize;
                if self.r.chance(1, 8) {
                    // a macro declaration: a function declaration introduced by `macro`
                    let np = self.r.below(3) as usize;
                    let ps: Vec<String> = (0..np).map(|_| format!("{}{}", self.id(), self.opt_ann())).collect();
                    let body = self.stmts(d.min(2), 2);
                    let ret = self.opt_ret();
                    let vis = if self.r.chance(1, 4) { "pub " } else { "" };
                    s.push_str(&format!("{vis}macro{}mc{i}({}){ret}{}{{\n{body}}}\n", if self.r.chance(1, 3) { "  " } else { " " }, ps.join(", "), self.sp()));
                } else if self.r.chance(1, 2) {
                    let np = self.r.below(4) as usize;
                    // parameters: name, optional type annotation, optional default value
                    let ps: Vec<String> = (0..np)
                        .map(|_| {
                            let dflt = if self.r.chance(1, 5) { format!("{}={}{}", self.sp(), self.sp(), self.lit()) } else { String::new() };
                            format!("{}{}{}", self.id(), self.opt_ann(), dflt)
                        })
                        .collect();
                    let body = self.stmts(d, 2);
                    // the statement after a function declaration carries no leading comment (finding F14: after `}`)
                    let ret = self.opt_ret();
                    s.push_str(&format!("fn f{i}({}){ret}{}{{\n{body}}}\n", ps.join(","), self.sp()));
                } else {
                    s.push_str(&self.stmt(d, 0));
                    s.push('\n');
                }
            }
            s
        }
    }
}

// ---------------------------------------------------------------------------------------------
// `nlrule` mode: tie of Model/NewlineRule.lean to the real parser. Random token-class sequences of the modelled
// fragment with random line breaks are rendered to text and parsed by the real `parse_cst`; output line:
// `P \t classes \t nlbits \t shape-of-the-real-green-tree \t number of parser errors`

mod nlrule {
    use super::Rng;
    use mimium_lang::compiler::parser::green::{GreenNode, GreenNodeArena, GreenNodeId};
    use mimium_lang::compiler::parser::{PreParsedTokens, parse_cst, preparse, tokenize};

    fn text_of(c: char) -> &'static str {
        match c {
            'a' => "x",
            'm' => "-",
            '2' => "|>",
            '3' => "||",
            '4' => "&&",
            '5' => "==",
            '6' => "<",
            '8' => "*",
            '9' => "^",
            'X' => "@",
            '(' => "(",
            ')' => ")",
            '[' => "[",
            ']' => "]",
            '.' => ".",
            ',' => ",",
            _ => "?",
        }
    }

    fn gen_expr(r: &mut Rng, d: usize, out: &mut String) {
        if d == 0 {
            out.push('a');
            return;
        }
        match r.below(12) {
            0 | 1 => out.push('a'),
            2 | 3 | 4 => {
                gen_expr(r, d - 1, out);
                out.push(*r.pick(&['2', '3', '4', '5', '6', '8', '9', 'X', 'm', 'm']));
                gen_expr(r, d - 1, out);
            }
            5 => {
                out.push('m');
                gen_expr(r, d - 1, out);
            }
            6 | 7 => {
                gen_expr(r, d - 1, out);
                out.push('(');
                let n = r.below(3);
                for i in 0..n {
                    if i > 0 {
                        out.push(',');
                    }
                    gen_expr(r, d - 1, out);
                }
                if n > 0 && r.chance(1, 6) {
                    out.push(',');
                }
                out.push(')');
            }
            8 => {
                out.push('(');
                let n = 1 + r.below(3);
                for i in 0..n {
                    if i > 0 {
                        out.push(',');
                    }
                    gen_expr(r, d - 1, out);
                }
                if r.chance(1, 6) {
                    out.push(',');
                }
                out.push(')');
            }
            9 => {
                out.push('[');
                let n = r.below(3);
                for i in 0..n {
                    if i > 0 {
                        out.push(',');
                    }
                    gen_expr(r, d - 1, out);
                }
                out.push(']');
            }
            10 => {
                gen_expr(r, d - 1, out);
                out.push('.');
                out.push('a');
            }
            _ => {
                gen_expr(r, d - 1, out);
                out.push('[');
                gen_expr(r, d - 1, out);
                out.push(']');
            }
        }
    }

    fn shape(id: GreenNodeId, arena: &GreenNodeArena, pre: &PreParsedTokens, out: &mut String) {
        match arena.get(id) {
            GreenNode::Token { token_index, .. } => {
                let pos = pre.token_indices.iter().position(|&t| t == *token_index).unwrap_or(99999);
                out.push_str(&pos.to_string());
            }
            GreenNode::Internal { kind, children, .. } => {
                out.push_str(&format!("{:?}(", kind));
                for (i, &c) in children.iter().enumerate() {
                    if i > 0 {
                        out.push(' ');
                    }
                    shape(c, arena, pre, out);
                }
                out.push(')');
            }
        }
    }

    pub fn run(seed: u64, n: usize, out: &mut impl std::io::Write) {
        let mut r = Rng::new(seed);
        for _ in 0..n {
            let mut cls = String::new();
            let ns = 1 + r.below(3);
            for _ in 0..ns {
                let d = r.below(4) as usize;
                gen_expr(&mut r, d, &mut cls);
            }
            // occasionally damage the sequence (error paths: only the error flag is compared)
            let mut cs: Vec<char> = cls.chars().collect();
            if r.chance(1, 10) && !cs.is_empty() {
                let i = r.below(cs.len() as u64) as usize;
                if r.chance(1, 2) {
                    cs.remove(i);
                } else {
                    cs.insert(i, *r.pick(&[')', ']', ',', '.', '6', '(']));
                }
            }
            if cs.is_empty() {
                continue;
            }
            let p_nl = [0u64, 1, 3, 6][r.below(4) as usize];
            let mut bits = String::new();
            let mut src = String::new();
            for (i, c) in cs.iter().enumerate() {
                let nl = i > 0 && r.below(10) < p_nl;
                bits.push(if nl { '1' } else { '0' });
                if i > 0 {
                    src.push_str(if nl { "\n" } else { " " });
                }
                src.push_str(text_of(*c));
            }
            let src2 = src.clone();
            let res = std::panic::catch_unwind(move || {
                let toks = tokenize(&src2);
                let pre = preparse(&toks);
                let (root, arena, _t, errs) = parse_cst(toks.clone(), &pre);
                let mut sh = String::new();
                shape(root, &arena, &pre, &mut sh);
                (sh, errs.len(), pre.token_indices.len())
            });
            let cls: String = cs.iter().collect();
            match res {
                Ok((sh, nerr, ntok)) => {
                    // Eof may or may not be part of the preparsed stream; the class string has no Eof
                    let _ = ntok;
                    writeln!(out, "P\t{}\t{}\t{}\t{}", cls, bits, sh, nerr).unwrap()
                }
                Err(_) => writeln!(out, "P\t{}\t{}\tPANIC\t1", cls, bits).unwrap(),
            }
        }
    }
}

fn main() {
    let args: Vec<String> = std::env::args().skip(1).collect();
    let stdout = std::io::stdout();
    let mut out = std::io::BufWriter::new(stdout.lock());
    std::panic::set_hook(Box::new(|_| {}));
    match args.first().map(|s| s.as_str()) {
        Some("files") => {
            // files <root> <k> <n> <seed> <nmut>
            let root = PathBuf::from(&args[1]);
            let k: usize = args[2].parse().unwrap();
            let n: usize = args[3].parse().unwrap();
            let seed: u64 = args[4].parse().unwrap();
            let nmut: usize = args[5].parse().unwrap();
            let mut files = vec![];
            walk(&root, &mut files);
            let cfgs = all_configs();
            for (i, f) in files.iter().enumerate() {
                if i % n != k {
                    continue;
                }
                let Ok(src) = std::fs::read_to_string(f) else { continue };
                let rel = f.strip_prefix(&root).unwrap_or(f).to_string_lossy().to_string();
                let path = Some(f.clone());
                judge(&rel, "file", &src, &path, &cfgs, &mut out);
                if nmut == 0 {
                    continue;
                }
                // mutate only texts that are outside the open class-shaped findings (steering)
                let p0 = path.clone();
                let s0 = src.clone();
                let ok = std::panic::catch_unwind(move || {
                    let b = parse_all(&s0, &p0);
                    b.nerr == 0 && !in_open_class(&classes(&b, &s0))
                })
                .unwrap_or(false);
                if !ok {
                    continue;
                }
                let mut r = Rng::new(seed.wrapping_mul(1_000_003).wrapping_add(i as u64));
                let mut uniq = 0usize;
                for m in 0..nmut {
                    let (msrc, ops) = mutate(&src, &mut r, &mut uniq);
                    if ops.is_empty() || msrc == src {
                        continue;
                    }
                    let origin = format!("mut:{}", ops.join("+"));
                    judge(&format!("{rel}#m{m}"), &origin, &msrc, &path, &cfgs, &mut out);
                }
            }
        }
        Some("texts") => {
            // stdin: JSON lines {"id","src","path"?,"configs"?:[[w,ind],..]}
            let stdin = std::io::stdin();
            for line in stdin.lock().lines() {
                let line = line.unwrap();
                if line.trim().is_empty() {
                    continue;
                }
                let v: serde_json::Value = serde_json::from_str(&line).unwrap();
                let id = v["id"].as_str().unwrap_or("text").to_string();
                let src = v["src"].as_str().unwrap().to_string();
                let path = v["path"].as_str().map(PathBuf::from);
                let cfgs = match v["configs"].as_array() {
                    Some(a) => a.iter().map(|c| (c[0].as_u64().unwrap() as usize, c[1].as_u64().unwrap() as usize)).collect(),
                    None => all_configs(),
                };
                let origin = v["origin"].as_str().unwrap_or("text").to_string();
                judge(&id, &origin, &src, &path, &cfgs, &mut out);
            }
        }
        Some("gen") => {
            let seed: u64 = args[1].parse().unwrap();
            let n: usize = args[2].parse().unwrap();
            let mut r = Rng::new(seed);
            let cfgs = all_configs();
            for i in 0..n {
                let comments = r.chance(2, 3);
                let mut g = progs::G { r: &mut r, uniq: 0, comments };
                let src = g.program();
                judge(&format!("gen/{seed}/{i}"), "gen", &src, &None, &cfgs, &mut out);
            }
        }
        Some("gaps-files") => {
            let root = PathBuf::from(&args[1]);
            let k: usize = args[2].parse().unwrap();
            let n: usize = args[3].parse().unwrap();
            let seed: u64 = args[4].parse().unwrap();
            let maxg: usize = args[5].parse().unwrap();
            let mut files = vec![];
            walk(&root, &mut files);
            for (i, f) in files.iter().enumerate() {
                if i % n != k {
                    continue;
                }
                let Ok(src) = std::fs::read_to_string(f) else { continue };
                let rel = f.strip_prefix(&root).unwrap_or(f).to_string_lossy().to_string();
                let mut r = Rng::new(seed.wrapping_mul(7_000_003).wrapping_add(i as u64));
                run_gaps(&rel, &src, &Some(f.clone()), maxg, &mut r, &mut out);
            }
        }
        Some("gaps-gen") => {
            // small generated programs, every gap
            let seed: u64 = args[1].parse().unwrap();
            let n: usize = args[2].parse().unwrap();
            let mut r = Rng::new(seed ^ 0x6a09e667);
            for i in 0..n {
                let src = {
                    let mut g = progs::G { r: &mut r, uniq: 0, comments: false };
                    g.small_program()
                };
                let mut r2 = Rng::new(seed.wrapping_add(i as u64));
                run_gaps(&format!("gapgen/{seed}/{i}"), &src, &None, 0, &mut r2, &mut out);
            }
        }
        Some("gaps-texts") => {
            let seed: u64 = args[1].parse().unwrap();
            let maxg: usize = args[2].parse().unwrap();
            let stdin = std::io::stdin();
            for (i, line) in stdin.lock().lines().enumerate() {
                let line = line.unwrap();
                if line.trim().is_empty() {
                    continue;
                }
                let v: serde_json::Value = serde_json::from_str(&line).unwrap();
                let id = v["id"].as_str().unwrap_or("text").to_string();
                let src = v["src"].as_str().unwrap().to_string();
                let mut r = Rng::new(seed.wrapping_add(i as u64));
                run_gaps(&id, &src, &None, maxg, &mut r, &mut out);
            }
        }
        Some("nlrule") => {
            let seed: u64 = args[1].parse().unwrap();
            let n: usize = args[2].parse().unwrap();
            nlrule::run(seed, n, &mut out);
        }
        Some("docs") => {
            let seed: u64 = args[1].parse().unwrap();
            let n: usize = args[2].parse().unwrap();
            docs::run(seed, n, &mut out);
        }
        Some("probe-dense") => {
            // exploration aid: comment in every gap, nothing skipped, one configuration
            let root = PathBuf::from(&args[1]);
            let line: bool = args.get(2).map(|s| s == "line").unwrap_or(false);
            let mut files = vec![];
            walk(&root, &mut files);
            for f in files {
                let Ok(src) = std::fs::read_to_string(&f) else { continue };
                let rel = f.strip_prefix(&root).unwrap_or(&f).to_string_lossy().to_string();
                let d = dense_comments(&src, &|_| false, line);
                judge(&rel, "dense", &d, &Some(f.clone()), &[(80, 4)], &mut out);
            }
        }
        Some("split") => {
            // split <root>: every top-level statement of every corpus file as its own text (exploration aid)
            let root = PathBuf::from(&args[1]);
            let mut files = vec![];
            walk(&root, &mut files);
            for f in files {
                let Ok(src) = std::fs::read_to_string(&f) else { continue };
                let rel = f.strip_prefix(&root).unwrap_or(&f).to_string_lossy().to_string();
                let (prog, errs) = parse_program(&src, f.clone());
                if !errs.is_empty() {
                    continue;
                }
                for (i, (_st, span)) in prog.statements.iter().enumerate() {
                    if span.end <= src.len() && span.start <= span.end && src.is_char_boundary(span.start) && src.is_char_boundary(span.end) {
                        let t = &src[span.start..span.end];
                        writeln!(out, "{}", serde_json::json!({"id": format!("{rel}#{i}"), "origin": "stmt", "src": t})).unwrap();
                    }
                }
            }
        }
        Some("show") => {
            // show <w> <ind>: format stdin once, print the output and the parser errors of the output
            let w: usize = args[1].parse().unwrap();
            let ind: usize = args[2].parse().unwrap();
            let mut src = String::new();
            std::io::Read::read_to_string(&mut std::io::stdin(), &mut src).unwrap();
            set_indent(ind);
            match fmt(&src, &None, w) {
                Ok(Ok(o)) => {
                    write!(out, "{}", o).unwrap();
                    let (_p, errs) = parse_program(&o, PathBuf::new());
                    for e in errs {
                        writeln!(out, "## parse error: {}", e).unwrap();
                    }
                }
                Ok(Err(())) => writeln!(out, "## formatter: syntax error").unwrap(),
                Err(()) => writeln!(out, "## formatter: panic").unwrap(),
            }
        }
        Some("fmt") => {
            // fmt: stdin JSON lines {"id","src","configs"?}: only format (no judging), log for the port comparison
            let stdin = std::io::stdin();
            for line in stdin.lock().lines() {
                let line = line.unwrap();
                if line.trim().is_empty() {
                    continue;
                }
                let v: serde_json::Value = serde_json::from_str(&line).unwrap();
                let id = v["id"].as_str().unwrap_or("text").to_string();
                let src = v["src"].as_str().unwrap().to_string();
                let cfgs: Vec<(usize, usize)> = match v["configs"].as_array() {
                    Some(a) => a.iter().map(|c| (c[0].as_u64().unwrap() as usize, c[1].as_u64().unwrap() as usize)).collect(),
                    None => all_configs(),
                };
                let mut po = vec![];
                for (w, ind) in cfgs {
                    set_indent(ind);
                    po.push((w, ind, match fmt(&src, &None, w) {
                        Ok(Ok(o)) => if v["show"].as_bool().unwrap_or(false) { o } else { port::fnv64(&o) },
                        Ok(Err(())) => "ERR".into(),
                        Err(()) => "PANIC".into(),
                    }));
                }
                port::record(&id, &src, &po);
            }
        }
        _ => {
            eprintln!("usage: c14 files <root> <k> <n> <seed> <nmut> | texts | gen <seed> <n> | gaps-gen <seed> <n> | gaps-files <root> <k> <n> <seed> <maxgaps> | gaps-texts <seed> <maxgaps> | docs <seed> <n> | nlrule <seed> <n> | show <w> <ind>");
            std::process::exit(2);
        }
    }
    port::flush(&mut out);
}
