//! C11: run the real scheduler code.
//!
//! Modes
//!   `c11 handle <seed> <n> <maxops>`  random op histories against the real `WasmSchedulerHandle`
//!                                      (host fn `_mimium_schedule_at` + `set_current_time` + `drain_due_tasks`)
//!   `c11 handle-lines`                 the same for histories given on stdin (first two columns of a line)
//!   `c11 prog <seed> <n> <ticks>`      random task tables -> mimium source with `@` -> VM and WASM runtimes with
//!                                      the scheduler plugin, per-sample outputs
//!   `c11 prog-lines`                   the same for task tables given on stdin (columns 0..=5)
//!   `c11 src <ticks>`                  a mimium source on stdin, prints both observations (probe / replay aid)
//!
//! Line formats (tab separated)
//!   H  <ops>  <obs>
//!       ops = space separated: `s:<f64 bits hex>:<id>` schedule call, `t:<time>` tick (set_current_time; drain)
//!       obs = one token per op:  `.` schedule returned, `[id,id,..]` drained closure ids in pop order,
//!             `P` the call panicked (history stops there: the mutex is poisoned afterwards)
//!   P  <ticks>  <ntasks>  <G>  <T>  <D>  <vm obs>  <wasm obs>
//!       G = global-scope requests, T = per task `;`-separated request lists, D = requests issued by dsp
//!       request = `<a|r>:<f64 bits hex>:<target>:<guard|->[:l]`  (a: `tK@C`, r: `tK@(now+C)`, guard g: `if (now < g) {..}`,
//!                 `:l`: the closure is written `| |{ tK() }` instead of `tK`), `,`-separated, `.` if none
//!       obs = `,`-separated 16-hex-digit f64 bit patterns of dsp's output per sample, then `PANIC` if the runtime panicked
//!             in the following sample (`ERR:<what>` if the program did not compile)
use mmh::rng::Rng;
use std::io::{BufRead, Write};
use std::panic::{AssertUnwindSafe, catch_unwind};
use std::path::PathBuf;

// ------------------------------------------------------------------------------------------------
// handle level

#[derive(Clone, Debug)]
enum Op {
    Sched(u64, u64), // f64 bits of `when`, closure id
    Tick(u64),
}

fn ops_to_string(ops: &[Op]) -> String {
    ops.iter()
        .map(|o| match o {
            Op::Sched(w, id) => format!("s:{:016x}:{}", w, id),
            Op::Tick(t) => format!("t:{}", t),
        })
        .collect::<Vec<_>>()
        .join(" ")
}

fn parse_ops(s: &str) -> Vec<Op> {
    s.split(' ')
        .filter(|x| !x.is_empty())
        .map(|tok| {
            let f: Vec<&str> = tok.split(':').collect();
            match f[0] {
                "s" => Op::Sched(u64::from_str_radix(f[1], 16).unwrap(), f[2].parse().unwrap()),
                _ => Op::Tick(f[1].parse().unwrap()),
            }
        })
        .collect()
}

fn run_handle(ops: &[Op]) -> String {
    use mimium_scheduler::WasmSchedulerHandle;
    let handle = WasmSchedulerHandle::default();
    let map = handle.into_wasm_plugin_fn_map();
    let schedule = map.get("_mimium_schedule_at").unwrap().clone();
    let mut obs = vec![];
    for op in ops {
        match op {
            Op::Sched(w, id) => {
                let r = catch_unwind(AssertUnwindSafe(|| schedule(&[f64::from_bits(*w), *id as f64])));
                match r {
                    Ok(_) => obs.push(".".to_string()),
                    Err(_) => {
                        obs.push("P".to_string());
                        break;
                    }
                }
            }
            Op::Tick(t) => {
                let r = catch_unwind(AssertUnwindSafe(|| {
                    handle.set_current_time(*t);
                    handle.drain_due_tasks()
                }));
                match r {
                    Ok(v) => obs.push(format!("[{}]", v.iter().map(|x| x.to_string()).collect::<Vec<_>>().join(","))),
                    Err(_) => {
                        obs.push("P".to_string());
                        break;
                    }
                }
            }
        }
    }
    obs.join(" ")
}

/// fractional parts used for `when` values
const FRACS: [f64; 6] = [0.0, 0.0, 0.0, 0.5, 0.25, 0.999];

fn gen_history(rng: &mut Rng, maxops: u64) -> Vec<Op> {
    let nops = 1 + rng.below(maxops);
    // profile: 0 = premise respected, consecutive ticks; 1 = premise respected, ticks may jump;
    //          2 = boundary/past requests allowed (panics expected); 3 = many equal times
    let profile = rng.below(8);
    let profile = match profile {
        0..=3 => 0,
        4 => 1,
        5 => 2,
        _ => 3,
    };
    let mut ops = vec![];
    let mut now: u64 = 0;
    let mut ticked = false;
    let mut id = 0u64;
    let horizon = if profile == 3 { 3 } else { 1 + rng.below(12) };
    for _ in 0..nops {
        if rng.chance(2, 3) {
            // schedule
            let base = match profile {
                2 => now + rng.below(horizon + 1), // may be == now
                _ => now + 1 + rng.below(horizon),
            };
            let mut w = base as f64 + *rng.pick(&FRACS);
            if profile == 2 && rng.chance(1, 8) {
                w = match rng.below(5) {
                    0 => -1.0,
                    1 => f64::NAN,
                    2 => now as f64 - 1.0,
                    3 => 1e300,
                    _ => f64::INFINITY,
                };
            } else if rng.chance(1, 40) {
                w = 4294967296.0 * 4096.0 + base as f64; // far future
            }
            ops.push(Op::Sched(w.to_bits(), id));
            id += 1;
        } else {
            let t = if !ticked {
                0
            } else if profile == 1 && rng.chance(1, 3) {
                now + 1 + rng.below(6)
            } else {
                now + 1
            };
            let t = if !ticked && profile == 1 && rng.chance(1, 4) { rng.below(4) } else { t };
            ops.push(Op::Tick(t));
            now = t;
            ticked = true;
        }
    }
    ops
}

// ------------------------------------------------------------------------------------------------
// program level

#[derive(Clone, Debug)]
struct Req {
    abs: bool,
    c: f64,
    target: usize,
    guard: Option<u64>,
    /// written as `| |{ tK() }@…` (an anonymous closure) instead of `tK@…`
    lambda: bool,
    /// `Some(v)`: written `selK(time, v)`; `fn selK(t, v){ (| |{ if (v > 0.5) { tK() } else { tK'() } })@t }` makes a closure
    /// with ONE UPVALUE (the argument `v`, captured by value: a record of two cells on WASM); `K' = K-1` (0 for K = 0)
    upv: Option<f64>,
}

#[derive(Clone, Debug)]
struct Table {
    ticks: u64,
    /// rendered in the style of `scheduler_counter.mmm`: one `mk(p, t0)` instance per task (a `letrec` closure with
    /// upvalues that re-schedules itself, started inside `mk`), the counter read through a getter closure.
    /// Requires: task i's body is exactly one unguarded `ti@(now+p)`, one global `ti@t0` per task, nothing from dsp.
    closure_style: bool,
    /// `selK(t, v)` is rendered with DEEPER captures (suffix `d` of the task count; same ideal behaviour): even `K` — the scheduled
    /// closure calls a `let`-bound closure `f` (captured through its cell) which captures `v`; odd `K` — it captures a
    /// tuple argument `(v, t)`. On WASM the record, the cell, the inner record / the tuple all have to outlive the body.
    deep: bool,
    ntasks: usize,
    global: Vec<Req>,
    tasks: Vec<Vec<Req>>,
    dsp: Vec<Req>,
}

fn reqs_to_string(v: &[Req]) -> String {
    if v.is_empty() {
        return ".".into();
    }
    v.iter()
        .map(|r| {
            format!(
                "{}:{:016x}:{}:{}{}",
                if r.abs { "a" } else { "r" },
                r.c.to_bits(),
                r.target,
                r.guard.map_or("-".to_string(), |g| g.to_string()),
                match r.upv {
                    Some(v) => format!(":u{:016x}", v.to_bits()),
                    None => (if r.lambda { ":l" } else { "" }).to_string(),
                }
            )
        })
        .collect::<Vec<_>>()
        .join(",")
}

fn parse_reqs(s: &str) -> Vec<Req> {
    if s == "." || s.is_empty() {
        return vec![];
    }
    s.split(',')
        .map(|t| {
            let f: Vec<&str> = t.split(':').collect();
            Req {
                abs: f[0] == "a",
                c: f64::from_bits(u64::from_str_radix(f[1], 16).unwrap()),
                target: f[2].parse().unwrap(),
                guard: if f[3] == "-" { None } else { Some(f[3].parse().unwrap()) },
                lambda: f.len() > 4 && f[4] == "l",
                upv: if f.len() > 4 && f[4].starts_with('u') {
                    Some(f64::from_bits(u64::from_str_radix(&f[4][1..], 16).unwrap()))
                } else {
                    None
                },
            }
        })
        .collect()
}

fn table_to_string(t: &Table) -> String {
    format!(
        "P\t{}\t{}{}\t{}\t{}\t{}",
        t.ticks,
        t.ntasks,
        if t.closure_style { "c" } else if t.deep { "d" } else { "" },
        reqs_to_string(&t.global),
        t.tasks.iter().map(|v| reqs_to_string(v)).collect::<Vec<_>>().join(";"),
        reqs_to_string(&t.dsp)
    )
}

fn parse_table(f: &[&str]) -> Table {
    Table {
        ticks: f[1].parse().unwrap(),
        closure_style: f[2].ends_with('c'),
        deep: f[2].ends_with('d'),
        ntasks: f[2].trim_end_matches(['c', 'd']).parse().unwrap(),
        global: parse_reqs(f[3]),
        tasks: f[4].split(';').map(parse_reqs).collect(),
        dsp: parse_reqs(f[5]),
    }
}

pub const WEIGHT: u64 = 4096;

fn fmt_f(c: f64) -> String {
    // mimium float literal: always with a decimal point, never an exponent
    let s = format!("{:?}", c);
    assert!(!s.contains('e') && !s.contains("inf") && !s.contains("NaN"), "{s}");
    s
}

fn req_src(r: &Req) -> String {
    let clo = if r.lambda { format!("| |{{ t{}() }}", r.target) } else { format!("t{}", r.target) };
    let at = match r.upv {
        Some(v) if r.abs => format!("sel{}({}, {})", r.target, fmt_f(r.c), fmt_f(v)),
        Some(v) => format!("sel{}(now+{}, {})", r.target, fmt_f(r.c), fmt_f(v)),
        None if r.abs => format!("{clo}@{}", fmt_f(r.c)),
        None => format!("{clo}@(now+{})", fmt_f(r.c)),
    };
    match r.guard {
        None => format!("    {at}\n"),
        Some(g) => format!("    if (now < {}) {{ {at} }} else {{ nop() }}\n", fmt_f(g as f64)),
    }
}

fn table_to_source(t: &Table) -> String {
    let mut s = String::new();
    if t.closure_style {
        s += "fn mk(p, t0){\n    let x = 0.0\n    letrec gen = | |{\n        x = x + 1.0\n        gen@(now+p)\n    }\n    gen@t0\n    let getter = | | {x}\n    getter\n}\n";
        for i in 0..t.ntasks {
            s += &format!("let g{i} = mk({}, {})\n", fmt_f(t.tasks[i][0].c), fmt_f(t.global[i].c));
        }
        let mut e = String::from("    g0()");
        let mut w = WEIGHT;
        for i in 1..t.ntasks {
            e += &format!(" + g{i}()*{}.0", w);
            w *= WEIGHT;
        }
        s += "fn dsp(){\n";
        s += &e;
        s += "\n}\n";
        return s;
    }
    for i in 0..t.ntasks {
        s += &format!("let c{i} = 0.0\n");
    }
    s += "fn nop(){\n    let _ = 0.0\n}\n";
    for i in 0..t.ntasks {
        s += &format!("fn t{i}(){{\n    c{i} = c{i} + 1.0\n");
        for r in &t.tasks[i] {
            s += &req_src(r);
        }
        s += "}\n";
        // helper making a closure with one upvalue (defined after tK: no forward references)
        let has_sel = t.global.iter().chain(t.dsp.iter()).chain(t.tasks.iter().flatten()).any(|r| r.upv.is_some() && r.target == i);
        if has_sel {
            let j = i.saturating_sub(1);
            if !t.deep {
                s += &format!("fn sel{i}(t, v){{\n    (| |{{ if (v > 0.5) {{ t{i}() }} else {{ t{j}() }} }})@t\n}}\n");
            } else if i % 2 == 0 {
                s += &format!(
                    "fn sel{i}(t, v){{\n    let f = | |{{ if (v > 0.5) {{ t{i}() }} else {{ t{j}() }} }}\n    (| |{{ f() }})@t\n}}\n"
                );
            } else {
                s += &format!(
                    "fn pick{i}(p:(float,float)){{\n    (| |{{ if (p.0 > 0.5) {{ t{i}() }} else {{ t{j}() }} }})@(p.1)\n}}\nfn sel{i}(t, v){{\n    pick{i}((v, t))\n}}\n"
                );
            }
        }
    }
    for r in &t.global {
        s += req_src(r).trim_start();
    }
    s += "fn dsp(){\n";
    for r in &t.dsp {
        s += &req_src(r);
    }
    let mut e = String::from("    c0");
    let mut w = WEIGHT;
    for i in 1..t.ntasks {
        e += &format!(" + c{i}*{}.0", w);
        w *= WEIGHT;
    }
    s += &e;
    s += "\n}\n";
    s
}

fn fmt_obs(out: &[f64], tail: Option<String>) -> String {
    let mut v: Vec<String> = out.iter().map(|x| format!("{:016x}", x.to_bits())).collect();
    if let Some(t) = tail {
        v.push(t);
    }
    if v.is_empty() { ".".into() } else { v.join(",") }
}

fn run_vm(src: &str, ticks: u64) -> String {
    use mimium_audiodriver::backends::local_buffer::LocalBufferDriver;
    use mimium_audiodriver::driver::{Driver, RuntimeData};
    use mimium_lang::{Config, ExecContext, plugin::Plugin, runtime::Time};
    use std::sync::atomic::Ordering;
    let mut out: Vec<f64> = vec![];
    let r = catch_unwind(AssertUnwindSafe(|| -> Result<(), String> {
        let driver = LocalBufferDriver::new(0);
        let audiodriverplug: Box<dyn Plugin> = Box::new(driver.get_as_plugin());
        let mut ctx = ExecContext::new([audiodriverplug].into_iter(), None::<PathBuf>, Config::default());
        ctx.add_system_plugin(mimium_scheduler::get_default_scheduler_plugin());
        ctx.prepare_machine(src).map_err(|e| format!("compile:{}", e.len()))?;
        let _ = ctx.run_main();
        let mut rd = RuntimeData::try_from(&mut ctx).map_err(|_| "runtimedata".to_string())?;
        for t in 0..ticks {
            driver.count.store(t, Ordering::Relaxed);
            let _ = rd.run_dsp(Time(t));
            let o = rd.get_output(1);
            out.push(o.first().copied().unwrap_or(f64::NAN));
        }
        Ok(())
    }));
    match r {
        Ok(Ok(())) => fmt_obs(&out, None),
        Ok(Err(e)) => format!("ERR:{e}"),
        Err(_) => fmt_obs(&out, Some("PANIC".into())),
    }
}

fn run_wasm(src: &str, ticks: u64) -> String {
    use mimium_lang::compiler::wasmgen::WasmGenerator;
    use mimium_lang::runtime::DspRuntime;
    use mimium_lang::runtime::wasm::engine::{WasmDspRuntime, WasmEngine};
    use mimium_lang::{Config, ExecContext, runtime::Time};
    use std::sync::Arc;
    let mut out: Vec<f64> = vec![];
    let r = catch_unwind(AssertUnwindSafe(|| -> Result<(), String> {
        let mut ctx = ExecContext::new([].into_iter(), None::<PathBuf>, Config::default());
        ctx.add_system_plugin(mimium_scheduler::get_default_scheduler_plugin());
        ctx.prepare_compiler();
        let ext_fns = ctx.get_extfun_types();
        let mir = ctx.get_compiler().unwrap().emit_mir(src).map_err(|e| {
            if std::env::var("C11_DEBUG").is_ok() {
                for x in &e {
                    eprintln!("wasm compile error: {}", x.get_message());
                }
            }
            format!("compile:{}", e.len())
        })?;
        let mut wasmgen = WasmGenerator::new(Arc::new(mir), &ext_fns);
        let wasm_bytes = wasmgen.generate().map_err(|e| format!("wasmgen:{e}"))?;
        let mut plugin_fns = ctx.freeze_wasm_plugin_fns();
        if std::env::var("C11_DEBUG").is_ok() {
            // diagnosis aid: log every host call `_mimium_schedule_at(when, closure address)`
            if let Some(map) = plugin_fns.as_mut() {
                if let Some(f) = map.get("_mimium_schedule_at").cloned() {
                    let g: mimium_lang::runtime::wasm::WasmPluginFn = Arc::new(move |a: &[f64]| {
                        eprintln!("wasm schedule_at when={} addr={}", a[0], a[1]);
                        f(a)
                    });
                    map.insert("_mimium_schedule_at".to_string(), g);
                }
            }
        }
        let wasm_workers = ctx.generate_wasm_audioworkers();
        let mut engine = WasmEngine::new(&ext_fns, plugin_fns).map_err(|e| format!("engine:{e}"))?;
        engine.load_module(&wasm_bytes).map_err(|e| format!("load:{e}"))?;
        let mut rt = WasmDspRuntime::new(engine, None, None);
        rt.set_wasm_audioworkers(wasm_workers);
        let _ = rt.run_main();
        for t in 0..ticks {
            let rc = rt.run_dsp(Time(t));
            if rc != 0 {
                return Err(format!("dsp-rc:{rc}@{t}"));
            }
            let o = rt.get_output(1);
            out.push(o.first().copied().unwrap_or(f64::NAN));
        }
        Ok(())
    }));
    match r {
        Ok(Ok(())) => fmt_obs(&out, None),
        Ok(Err(e)) if e.starts_with("dsp-rc") => fmt_obs(&out, Some(format!("ERR:{e}"))),
        Ok(Err(e)) => format!("ERR:{e}"),
        Err(_) => fmt_obs(&out, Some("PANIC".into())),
    }
}

/// executions per tick of an ideal scheduler, used only to keep generated programs small (not an oracle)
fn ideal_total(t: &Table, cap: u64) -> Option<u64> {
    use std::collections::BTreeMap;
    let mut pending: BTreeMap<u64, Vec<usize>> = BTreeMap::new();
    let mut total = 0u64;
    let push = |pending: &mut BTreeMap<u64, Vec<usize>>, r: &Req, now: u64| {
        if r.guard.map_or(true, |g| now < g) {
            let w = if r.abs { r.c } else { now as f64 + r.c };
            let target = match r.upv {
                Some(v) if !(v > 0.5) => r.target.saturating_sub(1),
                _ => r.target,
            };
            pending.entry(w as u64).or_default().push(target);
        }
    };
    for r in &t.global {
        push(&mut pending, r, 0);
    }
    for now in 0..t.ticks {
        let due: Vec<u64> = pending.range(..=now).map(|(k, _)| *k).collect();
        for k in due {
            let ids = pending.remove(&k).unwrap();
            for id in ids {
                total += 1;
                if total > cap {
                    return None;
                }
                for r in &t.tasks[id] {
                    push(&mut pending, r, now);
                }
            }
        }
        for r in &t.dsp {
            push(&mut pending, r, now);
        }
        let npend: usize = pending.values().map(|v| v.len()).sum();
        if npend as u64 > cap {
            return None;
        }
    }
    Some(total)
}

/// The same count under the OLD memory discipline of the WASM runtime (finding F17, repaired: a pending task ran whatever
/// function was last written at its closure address). NOT a filter any more: it only tells the Lean driver whether evaluating
/// the memory model of that discipline (`M.run` / `R.run`, a statistic since the repair) is affordable — under it the task
/// population of some tables explodes.
fn wasm_total(t: &Table, cap: u64) -> Option<u64> {
    use std::cmp::Reverse;
    use std::collections::{BinaryHeap, HashMap};
    #[derive(PartialEq, Eq)]
    struct T(u64, u64); // when, closure address
    impl PartialOrd for T {
        fn partial_cmp(&self, o: &Self) -> Option<std::cmp::Ordering> {
            Some(self.cmp(o))
        }
    }
    impl Ord for T {
        fn cmp(&self, o: &Self) -> std::cmp::Ordering {
            self.0.cmp(&o.0)
        }
    }
    /// a memory cell: function word of `tK`, function word of the closure of `selK`, a captured float
    #[derive(Clone, Copy)]
    enum W {
        Fn(usize),
        Lam(usize),
        Up(f64),
    }
    // writes the record of request `r` at `a`, returns its size in cells
    let write = |mem: &mut HashMap<u64, W>, a: u64, r: &Req| -> u64 {
        match r.upv {
            Some(v) => {
                mem.insert(a, W::Lam(r.target));
                mem.insert(a + 1, W::Up(v));
                2
            }
            None => {
                mem.insert(a, W::Fn(r.target));
                1
            }
        }
    };
    let mut heap: BinaryHeap<Reverse<T>> = BinaryHeap::new();
    let mut mem: HashMap<u64, W> = HashMap::new();
    let mut total = 0u64;
    let mut addr = 0u64;
    for r in &t.global {
        let w = r.c as u64;
        if w == 0 {
            return Some(total);
        }
        let n = write(&mut mem, addr, r);
        heap.push(Reverse(T(w, addr)));
        addr += n;
    }
    let base = addr;
    for now in 0..t.ticks {
        let mut due = vec![];
        while let Some(Reverse(x)) = heap.peek() {
            if x.0 <= now {
                due.push(heap.pop().unwrap().0);
            } else {
                break;
            }
        }
        let run = |body: &Vec<Req>, heap: &mut BinaryHeap<Reverse<T>>, mem: &mut HashMap<u64, W>| -> bool {
            let mut j = 0;
            for r in body {
                if r.guard.map_or(true, |g| now < g) {
                    let w = (if r.abs { r.c } else { now as f64 + r.c }) as u64;
                    if w <= now {
                        return false; // rejected by the host call: the run ends here
                    }
                    let n = write(mem, base + j, r);
                    heap.push(Reverse(T(w, base + j)));
                    j += n;
                }
            }
            true
        };
        for x in due {
            let f = match mem.get(&x.1).copied().unwrap_or(W::Fn(0)) {
                W::Fn(k) => k,
                W::Lam(k) => match mem.get(&(x.1 + 1)).copied().unwrap_or(W::Fn(0)) {
                    W::Up(v) if v > 0.5 => k,
                    _ => k.saturating_sub(1), // a function word read as a float is a denormal
                },
                W::Up(_) => continue, // a captured float read as a function index: `call_indirect` traps, task dropped
            };
            total += 1;
            if total > cap {
                return None;
            }
            if !run(&t.tasks[f], &mut heap, &mut mem) {
                return Some(total);
            }
        }
        if !run(&t.dsp, &mut heap, &mut mem) {
            return Some(total);
        }
        if heap.len() as u64 > cap {
            return None;
        }
    }
    Some(total)
}

/// 9th field of a `P` line: `m` = the driver may evaluate the memory model of the old discipline on this table, `-` = too costly
fn old_discipline_flag(t: &Table) -> &'static str {
    if wasm_total(t, WEIGHT - 1).is_some() { "m" } else { "-" }
}

/// captured floats of `selK(t, v)` requests; the low 32 bits of 1.0 and 0.0 are 0, a valid function-table index (under the
/// old bump discipline of finding F17 such a word, read as a function word, re-ran the global initialiser)
const UPVS: [f64; 6] = [0.7, 0.3, 0.9, 0.1, 1.0, 0.0];

/// `ntargets`: the request names one of `t0 .. t(ntargets-1)` (mimium has no forward references: a body can only name itself and earlier functions)
/// `upv_targets > 0`: with probability 1/3 the request is `selK(time, v)` (closure with one upvalue), `K < upv_targets`
fn gen_req(rng: &mut Rng, ntargets: usize, ticks: u64, abs: bool, boundary: bool, must_guard: bool, upv_targets: usize) -> Req {
    let target = rng.below(ntargets as u64) as usize;
    let frac = *rng.pick(&FRACS);
    let span = if rng.chance(1, 4) { ticks } else { 5 };
    let k = if boundary && rng.chance(1, 2) { 0 } else { 1 + rng.below(span) };
    let mut c = k as f64 + frac;
    if rng.chance(1, 30) {
        c = 1048576.0 + k as f64; // far future, never due inside the run
    }
    let guard = if must_guard || rng.chance(1, 2) { Some(1 + rng.below(ticks)) } else { None };
    let lambda = rng.chance(1, 4);
    if upv_targets > 0 && rng.chance(1, 3) {
        let target = rng.below(upv_targets as u64) as usize;
        return Req { abs, c, target, guard, lambda: false, upv: Some(*rng.pick(&UPVS)) };
    }
    Req { abs, c, target, guard, lambda, upv: None }
}

fn gen_table(rng: &mut Rng, ticks: u64) -> Table {
    if rng.chance(1, 12) {
        // fixture shape (`scheduler_counter.mmm`) with random periods and starts: 1-3 instances of ONE closure-making
        // function (each instance owns its captured `x` and its `letrec` self reference; they shared them on WASM
        // before the repair of observation F18)
        let n = 1 + rng.below(3) as usize;
        let mut global = vec![];
        let mut tasks = vec![];
        for i in 0..n {
            let p = (1 + rng.below(6)) as f64 + *rng.pick(&FRACS);
            let t0 = (1 + rng.below(8)) as f64 + *rng.pick(&FRACS);
            global.push(Req { abs: true, c: t0, target: i, guard: None, lambda: false, upv: None });
            tasks.push(vec![Req { abs: false, c: p, target: i, guard: None, lambda: false, upv: None }]);
        }
        return Table { ticks, closure_style: true, deep: false, ntasks: n, global, tasks, dsp: vec![] };
    }
    loop {
        let ntasks = 1 + rng.below(4) as usize;
        // 1 in 3 tables also makes closures with an upvalue (records of two cells on WASM)
        let upv = rng.chance(1, 3);
        // 1 in 8 tables contains one boundary request (`trunc when == now`)
        let boundary = rng.chance(1, 8);
        let mut bpos = if boundary { rng.below(3) } else { 9 };
        let gspan = if rng.chance(1, 5) { 24 } else { 5 };
        let ng = 1 + rng.below(gspan);
        let mut global = vec![];
        for _ in 0..ng {
            let b = bpos == 0 && rng.chance(1, 2);
            if b {
                bpos = 9;
            }
            let mut r = gen_req(rng, ntasks, ticks, true, b, false, if upv { ntasks } else { 0 });
            r.guard = None;
            if rng.chance(1, 3) && !global.is_empty() {
                // equal time with an earlier request
                let prev: &Req = rng.pick(&global);
                r.c = prev.c;
            }
            global.push(r);
        }
        let mut tasks = vec![];
        for ti in 0..ntasks {
            let n = rng.below(3);
            let mut v = vec![];
            for j in 0..n {
                let b = bpos == 1 && rng.chance(1, 2);
                if b {
                    bpos = 9;
                }
                // at most one unguarded request per task keeps the population linear
                let abs = rng.chance(1, 10);
                // `selK` is defined right after `tK`: a body can only use the helpers of earlier functions
                v.push(gen_req(rng, ti + 1, ticks, abs, b, j > 0, if upv { ti } else { 0 }));
            }
            tasks.push(v);
        }
        let mut dsp = vec![];
        for _ in 0..rng.below(3) {
            let b = bpos == 2 && rng.chance(1, 2);
            if b {
                bpos = 9;
            }
            let abs = rng.chance(1, 10);
            dsp.push(gen_req(rng, ntasks, ticks, abs, b, false, if upv { ntasks } else { 0 }));
        }
        let t = Table { ticks, closure_style: false, deep: upv && rng.chance(1, 2), ntasks, global, tasks, dsp };
        if ideal_total(&t, WEIGHT - 1).is_some() {
            return t;
        }
    }
}

fn main() {
    std::panic::set_hook(Box::new(|_| {}));
    let args: Vec<String> = std::env::args().collect();
    let stdout = std::io::stdout();
    let mut out = std::io::BufWriter::new(stdout.lock());
    let mode = args.get(1).map(|s| s.as_str()).unwrap_or("");
    match mode {
        "handle" => {
            let seed: u64 = args[2].parse().unwrap();
            let n: u64 = args[3].parse().unwrap();
            let maxops: u64 = args[4].parse().unwrap();
            let mut rng = Rng::new(seed);
            for _ in 0..n {
                let ops = gen_history(&mut rng, maxops);
                writeln!(out, "H\t{}\t{}", ops_to_string(&ops), run_handle(&ops)).unwrap();
            }
        }
        "handle-lines" => {
            for line in std::io::stdin().lock().lines() {
                let line = line.unwrap();
                let f: Vec<&str> = line.split('\t').collect();
                if f.len() < 2 || f[0] != "H" {
                    continue;
                }
                let ops = parse_ops(f[1]);
                writeln!(out, "H\t{}\t{}", ops_to_string(&ops), run_handle(&ops)).unwrap();
            }
        }
        "prog" => {
            let seed: u64 = args[2].parse().unwrap();
            let n: u64 = args[3].parse().unwrap();
            let ticks: u64 = args[4].parse().unwrap();
            let mut rng = Rng::new(seed);
            for _ in 0..n {
                let t = gen_table(&mut rng, ticks);
                let src = table_to_source(&t);
                writeln!(out, "{}\t{}\t{}\t{}", table_to_string(&t), run_vm(&src, ticks), run_wasm(&src, ticks), old_discipline_flag(&t)).unwrap();
            }
        }
        "prog-lines" => {
            let show = args.get(2).map_or(false, |s| s == "--show");
            for line in std::io::stdin().lock().lines() {
                let line = line.unwrap();
                let f: Vec<&str> = line.split('\t').collect();
                if f.len() < 6 || f[0] != "P" {
                    continue;
                }
                let t = parse_table(&f);
                let src = table_to_source(&t);
                if show {
                    eprintln!("{src}");
                }
                writeln!(out, "{}\t{}\t{}\t{}", table_to_string(&t), run_vm(&src, t.ticks), run_wasm(&src, t.ticks), old_discipline_flag(&t)).unwrap();
            }
        }
        "src" => {
            let ticks: u64 = args[2].parse().unwrap();
            let mut src = String::new();
            use std::io::Read;
            std::io::stdin().read_to_string(&mut src).unwrap();
            writeln!(out, "vm\t{}", run_vm(&src, ticks)).unwrap();
            writeln!(out, "wasm\t{}", run_wasm(&src, ticks)).unwrap();
        }
        _ => {
            eprintln!("usage: c11 handle|handle-lines|prog|prog-lines|src ...");
            std::process::exit(2);
        }
    }
}
