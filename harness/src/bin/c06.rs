//! c06 (also used by C07): hot-swap histories on both runtimes.
//! stdin: JSON lines {"id", "backend":"vm"|"wasm", "srcs":[src0, src1, …], "events":[[t, k], …], "times":N, "inputs":[[..]..], "path"?: file of src0}
//!   the run starts with srcs[0]; before sample t an event swaps to srcs[k] (several events may share t: repeated swaps).
//! stdout: `id \t status \t nout-per-sample;…(bits)` where each sample is `w,w` and swaps that failed to compile are listed in status.
use mmh::runner::{canon_bits, panic_msg, vm_start_at, vm_swap, wasm_start_at, wasm_swap};
use std::io::{BufRead, Write};

fn run_case(v: &serde_json::Value) -> Result<(String, String), String> {
    let backend = v["backend"].as_str().unwrap_or("vm");
    let srcs: Vec<String> = v["srcs"].as_array().map(|a| a.iter().map(|s| s.as_str().unwrap_or("").to_string()).collect()).unwrap_or_default();
    let events: Vec<(u64, usize)> = v["events"].as_array().map(|a| {
        a.iter().map(|e| (e[0].as_u64().unwrap_or(0), e[1].as_u64().unwrap_or(0) as usize)).collect()
    }).unwrap_or_default();
    let times = v["times"].as_u64().unwrap_or(8);
    let inputs: Vec<Vec<f64>> = v["inputs"].as_array().map(|a| {
        a.iter().map(|r| r.as_array().map(|x| x.iter().map(|f| f.as_f64().unwrap_or(0.0)).collect()).unwrap_or_default()).collect()
    }).unwrap_or_default();
    // optional: the file the first source comes from (include / use paths of shipped sources are relative to it)
    let path = v["path"].as_str().map(std::path::PathBuf::from);
    let mut notes = vec![];
    let mut out = vec![];
    if backend == "vm" {
        let mut vm = vm_start_at(&srcs[0], false, path).map_err(|e| format!("compile-error {}", e.join(" | ")))?;
        for t in 0..times {
            for (et, k) in &events {
                if *et == t {
                    match vm_swap(&mut vm, &srcs[*k]) {
                        Ok(true) => notes.push(format!("swap@{t}->{k}")),
                        Ok(false) => notes.push(format!("swap-refused@{t}->{k}")),
                        Err(_) => notes.push(format!("swap-compile-error@{t}->{k}")),
                    }
                }
            }
            let mut inp = inputs.get(t as usize).cloned().unwrap_or_default();
            inp.resize(vm.nin, 0.0);
            let o = vm.step(t, &inp).map_err(|e| format!("runtime-error {e}"))?;
            out.push(o.iter().map(|b| canon_bits(*b)).collect::<Vec<_>>().join(","));
        }
    } else {
        let mut w = wasm_start_at(&srcs[0], false, path).map_err(|e| format!("compile-error {}", e.join(" | ")))?;
        for t in 0..times {
            for (et, k) in &events {
                if *et == t {
                    match wasm_swap(&mut w, &srcs[*k]) {
                        Ok(true) => notes.push(format!("swap@{t}->{k}")),
                        Ok(false) => notes.push(format!("swap-refused@{t}->{k}")),
                        Err(_) => notes.push(format!("swap-compile-error@{t}->{k}")),
                    }
                }
            }
            let mut inp = inputs.get(t as usize).cloned().unwrap_or_default();
            inp.resize(w.nin, 0.0);
            let o = w.step(t, &inp).map_err(|e| format!("runtime-error {e}"))?;
            out.push(o.iter().map(|b| canon_bits(*b)).collect::<Vec<_>>().join(","));
        }
    }
    Ok((format!("ok {}", notes.join(" ")), out.join(";")))
}

fn main() {
    std::panic::set_hook(Box::new(|_| {}));
    let stdin = std::io::stdin();
    let stdout = std::io::stdout();
    let mut out = std::io::BufWriter::new(stdout.lock());
    for line in stdin.lock().lines() {
        let line = line.unwrap();
        if line.trim().is_empty() {
            continue;
        }
        let v: serde_json::Value = serde_json::from_str(&line).unwrap();
        let id = v["id"].as_str().unwrap_or("?").to_string();
        let r = std::panic::catch_unwind(std::panic::AssertUnwindSafe(|| run_case(&v)));
        match r {
            Ok(Ok((st, o))) => writeln!(out, "{id}\t{st}\t{o}").unwrap(),
            Ok(Err(e)) => writeln!(out, "{id}\t{}\t-", e.replace(['\t', '\n'], " ")).unwrap(),
            Err(e) => writeln!(out, "{id}\tpanic {}\t-", panic_msg(e).replace(['\t', '\n'], " ")).unwrap(),
        }
        out.flush().unwrap();
    }
}
