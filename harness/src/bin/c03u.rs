//! C03 (stream `unification`): the REAL `unify_types` / `unify_types_args` of typing/unification.rs on explicit types.
//!
//! stdin : one case per line  `id \t op;op;…`   with  op = `U t1 t2` (unify_types) | `A t1 t2` (unify_types_args),
//!         all ops of a line run in order over ONE set of type-variable cells (bindings accumulate).
//!         Types (S-expressions): `num int str unit any fail unk ?n (arr t) (ref t) (code t) (box t) (tup t…) (uni t…)
//!         (rec (f key dflt t)…) (fn a r) (sum n) (sch n) (ali n)`; `?n` = the cell with `var = n`, created on first use.
//! stdout: `id \t verdict|verdict|… \t ?0=parent:subst ?1=…`
//!         verdict = `ok:Identical|Subtype|Supertype` | `err:Kind,Kind,…` | `panic:…`
//!         parent  = the `parent` field of the cell as a type (`-` = None), subst = `InferContext::substitute_type(?n)`
//!                   (`CYCLE` when the parent pointers reachable from the cell contain a cycle: substitute_type would not return)
//! Needs the `cfg(mimium_verif)` hook `compiler::typing::verif_unify` (detected by build.rs; without it: exit 3).
#![allow(unexpected_cfgs)]

#[cfg(not(has_unify_hook))]
fn main() {
    eprintln!("c03u: /repo has no cfg(mimium_verif) hook `compiler::typing::verif_unify` (typing/unification.rs `pub mod verif`)");
    std::process::exit(3);
}

#[cfg(has_unify_hook)]
mod real {
    use mimium_lang::compiler::typing::{InferContext, verif_unify};
    use mimium_lang::interner::{ToSymbol, TypeNodeId};
    use mimium_lang::types::{IntermediateId, PType, RecordTypeField, Type, TypeSchemeId, TypeVar};
    use std::collections::BTreeMap;
    use std::io::{BufRead, Write};
    use std::sync::{Arc, RwLock};

    #[derive(Debug, Clone)]
    enum Sx {
        Atom(String),
        List(Vec<Sx>),
    }

    fn tokens(s: &str) -> Vec<String> {
        let mut out = vec![];
        let mut cur = String::new();
        for c in s.chars() {
            if c == '(' || c == ')' || c.is_whitespace() {
                if !cur.is_empty() {
                    out.push(std::mem::take(&mut cur));
                }
                if c == '(' || c == ')' {
                    out.push(c.to_string());
                }
            } else {
                cur.push(c);
            }
        }
        if !cur.is_empty() {
            out.push(cur);
        }
        out
    }

    fn parse(toks: &[String], pos: &mut usize) -> Option<Sx> {
        let t = toks.get(*pos)?;
        *pos += 1;
        if t == "(" {
            let mut items = vec![];
            while toks.get(*pos)? != ")" {
                items.push(parse(toks, pos)?);
            }
            *pos += 1;
            Some(Sx::List(items))
        } else if t == ")" {
            None
        } else {
            Some(Sx::Atom(t.clone()))
        }
    }

    struct Cells {
        cells: BTreeMap<u64, (Arc<RwLock<TypeVar>>, TypeNodeId)>,
    }

    fn key_name(k: u64) -> String {
        format!("k{}", (b'a' + k as u8) as char)
    }
    fn key_num(s: &str) -> u64 {
        (s.as_bytes()[1] - b'a') as u64
    }

    impl Cells {
        fn var(&mut self, n: u64) -> TypeNodeId {
            self.cells
                .entry(n)
                .or_insert_with(|| {
                    let cell = Arc::new(RwLock::new(TypeVar::new(IntermediateId(n), 0)));
                    let id = Type::Intermediate(cell.clone()).into_id();
                    (cell, id)
                })
                .1
        }

        fn build(&mut self, sx: &Sx) -> Option<TypeNodeId> {
            Some(match sx {
                Sx::Atom(a) => match a.as_str() {
                    "num" => Type::Primitive(PType::Numeric).into_id(),
                    "int" => Type::Primitive(PType::Int).into_id(),
                    "str" => Type::Primitive(PType::String).into_id(),
                    "unit" => Type::Primitive(PType::Unit).into_id(),
                    "any" => Type::Any.into_id(),
                    "fail" => Type::Failure.into_id(),
                    "unk" => Type::Unknown.into_id(),
                    v if v.starts_with('?') => self.var(v[1..].parse().ok()?),
                    _ => return None,
                },
                Sx::List(items) => {
                    let Sx::Atom(head) = items.first()? else { return None };
                    let rest = &items[1..];
                    let num = |i: usize| -> Option<u64> {
                        match rest.get(i)? {
                            Sx::Atom(a) => a.parse().ok(),
                            _ => None,
                        }
                    };
                    match head.as_str() {
                        "arr" => Type::Array(self.build(rest.first()?)?).into_id(),
                        "ref" => Type::Ref(self.build(rest.first()?)?).into_id(),
                        "code" => Type::Code(self.build(rest.first()?)?).into_id(),
                        "box" => Type::Boxed(self.build(rest.first()?)?).into_id(),
                        "tup" => Type::Tuple(rest.iter().map(|x| self.build(x)).collect::<Option<Vec<_>>>()?).into_id(),
                        "uni" => Type::Union(rest.iter().map(|x| self.build(x)).collect::<Option<Vec<_>>>()?).into_id(),
                        "fn" => {
                            let arg = self.build(rest.first()?)?;
                            let ret = self.build(rest.get(1)?)?;
                            Type::Function { arg, ret }.into_id()
                        }
                        "rec" => {
                            let mut fields = vec![];
                            for f in rest {
                                let Sx::List(fi) = f else { return None };
                                let (Sx::Atom(k), Sx::Atom(d)) = (fi.get(1)?, fi.get(2)?) else { return None };
                                let ty = self.build(fi.get(3)?)?;
                                fields.push(RecordTypeField::new(key_name(k.parse().ok()?).to_symbol(), ty, d == "1"));
                            }
                            Type::Record(fields).into_id()
                        }
                        "sum" => Type::UserSum { name: format!("S{}", num(0)?).to_symbol(), variants: vec![] }.into_id(),
                        "sch" => Type::TypeScheme(TypeSchemeId(num(0)?)).into_id(),
                        "ali" => Type::TypeAlias(format!("A{}", num(0)?).to_symbol()).into_id(),
                        _ => return None,
                    }
                }
            })
        }
    }

    /// the type as written, variables NOT followed
    fn show(t: TypeNodeId) -> String {
        let many = |h: &str, v: &[TypeNodeId]| {
            let mut s = format!("({h}");
            for x in v {
                s.push(' ');
                s.push_str(&show(*x));
            }
            s.push(')');
            s
        };
        match t.to_type() {
            Type::Primitive(PType::Numeric) => "num".into(),
            Type::Primitive(PType::Int) => "int".into(),
            Type::Primitive(PType::String) => "str".into(),
            Type::Primitive(PType::Unit) => "unit".into(),
            Type::Any => "any".into(),
            Type::Failure => "fail".into(),
            Type::Unknown => "unk".into(),
            Type::Intermediate(c) => format!("?{}", c.read().unwrap().var.0),
            Type::Array(x) => many("arr", &[x]),
            Type::Ref(x) => many("ref", &[x]),
            Type::Code(x) => many("code", &[x]),
            Type::Boxed(x) => many("box", &[x]),
            Type::Tuple(v) => many("tup", &v),
            Type::Union(v) => many("uni", &v),
            Type::Function { arg, ret } => many("fn", &[arg, ret]),
            Type::Record(fs) => {
                let mut s = "(rec".to_string();
                for f in fs {
                    s.push_str(&format!(" (f {} {} {})", key_num(f.key.as_str()), if f.has_default { 1 } else { 0 }, show(f.ty)));
                }
                s.push(')');
                s
            }
            Type::UserSum { name, .. } => format!("(sum {})", &name.as_str()[1..]),
            Type::TypeScheme(id) => format!("(sch {})", id.0),
            Type::TypeAlias(name) => format!("(ali {})", &name.as_str()[1..]),
        }
    }

    /// do the parent pointers reachable from `t` (through everything `substitute_type` visits) contain a cycle?
    fn cyclic(t: TypeNodeId, path: &mut Vec<u64>, fuel: &mut u64) -> bool {
        if *fuel == 0 {
            return true;
        }
        *fuel -= 1;
        match t.to_type() {
            Type::Intermediate(c) => {
                let (var, parent) = {
                    let g = c.read().unwrap();
                    (g.var.0, g.parent)
                };
                if path.contains(&var) {
                    return true;
                }
                match parent {
                    None => false,
                    Some(p) => {
                        path.push(var);
                        let r = cyclic(p, path, fuel);
                        path.pop();
                        r
                    }
                }
            }
            Type::Array(x) | Type::Ref(x) | Type::Code(x) | Type::Boxed(x) => cyclic(x, path, fuel),
            Type::Tuple(v) => v.iter().any(|x| cyclic(*x, path, fuel)),
            Type::Record(fs) => fs.iter().any(|f| cyclic(f.ty, path, fuel)),
            Type::Function { arg, ret } => cyclic(arg, path, fuel) || cyclic(ret, path, fuel),
            _ => false,
        }
    }

    fn run_line(ops: &str) -> (Vec<String>, String) {
        let mut cells = Cells { cells: BTreeMap::new() };
        let mut verdicts = vec![];
        for op in ops.split(';') {
            let toks = tokens(op);
            if toks.is_empty() {
                continue;
            }
            let mut pos = 1;
            let (a, b) = match (parse(&toks, &mut pos), parse(&toks, &mut pos)) {
                (Some(a), Some(b)) => (a, b),
                _ => {
                    verdicts.push("bad-input".into());
                    break;
                }
            };
            let (Some(t1), Some(t2)) = (cells.build(&a), cells.build(&b)) else {
                verdicts.push("bad-input".into());
                break;
            };
            let args = toks[0] == "A";
            let r = std::panic::catch_unwind(move || if args { verif_unify::unify_args(t1, t2) } else { verif_unify::unify(t1, t2) });
            match r {
                Ok(Ok(rel)) => verdicts.push(format!("ok:{rel}")),
                Ok(Err(kinds)) => verdicts.push(format!("err:{}", kinds.join(","))),
                Err(e) => {
                    let m = e.downcast_ref::<String>().cloned().or_else(|| e.downcast_ref::<&str>().map(|s| s.to_string())).unwrap_or_default();
                    verdicts.push(format!("panic:{}", m.replace(['\n', '\t', '|'], " ")));
                    break;
                }
            }
        }
        let mut binds = vec![];
        for (n, (cell, id)) in cells.cells.iter() {
            let parent = match cell.read() {
                Ok(g) => g.parent,
                Err(_) => None,
            };
            let p = parent.map(show).unwrap_or_else(|| "-".into());
            let mut fuel = 1_000_000u64;
            let s = if cyclic(*id, &mut vec![], &mut fuel) { "CYCLE".to_string() } else { show(InferContext::substitute_type(*id)) };
            binds.push(format!("?{n}={p}:{s}"));
        }
        (verdicts, binds.join("|"))
    }

    pub fn main() {
        std::panic::set_hook(Box::new(|_| {}));
        let stdin = std::io::stdin();
        let stdout = std::io::stdout();
        let mut out = std::io::BufWriter::new(stdout.lock());
        for line in stdin.lock().lines() {
            let line = line.unwrap();
            let Some((id, ops)) = line.split_once('\t') else { continue };
            let (v, b) = run_line(ops);
            writeln!(out, "{id}\t{}\t{b}", v.join("|")).unwrap();
        }
        out.flush().unwrap();
    }
}

#[cfg(has_unify_hook)]
fn main() {
    real::main()
}
