//! c05: per-sample state access traces of the VM (hook `runtime::vm::verif`), the published dsp state skeleton, and
//! the flat state words of VM and WASM after every sample.
//! stdin: JSON lines {"id","src","times","inputs"}.  stdout per case:
//!   id \t status \t skeleton \t per-sample records joined by `|`
//!   record = `<trace>@<cursor>@<vm words>@<wasm words>`; trace = `K:g:pos:size` joined by `;` (K in G,S,M,D; g=1 global storage)
//!   (`times` = 0: layout only, records `-`; a case that fails at run time still reports the skeleton it compiled to)
use mimium_audiodriver::driver::VmDspRuntime;
use mmh::runner::{panic_msg, vm_start, wasm_start};
use mmh::sk;
use mimium_lang::runtime::vm::verif;
use std::io::{BufRead, Write};

fn words(ws: &[u64]) -> String {
    if ws.is_empty() { ".".into() } else { ws.iter().map(|w| format!("{w:x}")).collect::<Vec<_>>().join(",") }
}

fn run_case(src: &str, times: u64, inputs: &[Vec<f64>], skel_out: &mut String) -> Result<(String, Vec<String>), String> {
    let mut vm = vm_start(src, false).map_err(|e| format!("compile-error {}", e.join(" | ")))?;
    let skel = {
        let rt = vm.rd.downcast_runtime_ref::<VmDspRuntime>().ok_or("no vm runtime")?;
        rt.vm.prog.get_dsp_state_skeleton().map(|s| sk::show(&sk::to_u64(s))).unwrap_or("-".into())
    };
    *skel_out = skel.clone();
    if times == 0 {
        return Ok((skel, vec![]));
    }
    let mut wasm = wasm_start(src, false).map_err(|e| format!("wasm-compile-error {}", e.join(" | ")))?;
    let mut recs = vec![];
    for t in 0..times {
        let mut inp = inputs.get(t as usize).cloned().unwrap_or_default();
        inp.resize(vm.nin, 0.0);
        verif::start();
        let r = vm.step(t, &inp);
        let trace = verif::take();
        r.map_err(|e| format!("runtime-error {e}"))?;
        let (vwords, cursor) = {
            let rt = vm.rd.downcast_runtime_ref::<VmDspRuntime>().unwrap();
            let (w, p) = rt.vm.verif_global_state();
            (w.to_vec(), p)
        };
        wasm.step(t, &inp).map_err(|e| format!("wasm-runtime-error {e}"))?;
        let wwords = wasm.rt.engine_mut().get_global_state_data().map(|d| d.to_vec()).unwrap_or_default();
        let tr = if trace.is_empty() {
            ".".to_string()
        } else {
            trace.iter().map(|a| format!("{}:{}:{}:{}", a.kind as char, a.global as u8, a.pos, a.size)).collect::<Vec<_>>().join(";")
        };
        recs.push(format!("{tr}@{cursor}@{}@{}", words(&vwords), words(&wwords)));
    }
    Ok((skel, recs))
}

fn main() {
    std::panic::set_hook(Box::new(|_| {}));
    let stdin = std::io::stdin();
    let stdout = std::io::stdout();
    let mut out = std::io::BufWriter::new(stdout.lock());
    for line in stdin.lock().lines() {
        let line = line.unwrap();
        if line.trim().is_empty() {
            continue;
        }
        let v: serde_json::Value = serde_json::from_str(&line).unwrap();
        let id = v["id"].as_str().unwrap_or("?").to_string();
        let src = v["src"].as_str().unwrap_or("").to_string();
        let times = v["times"].as_u64().unwrap_or(8);
        let inputs: Vec<Vec<f64>> = v["inputs"].as_array().map(|a| {
            a.iter().map(|r| r.as_array().map(|x| x.iter().map(|f| f.as_f64().unwrap_or(0.0)).collect()).unwrap_or_default()).collect()
        }).unwrap_or_default();
        let mut skel_seen = String::from("-");
        let r = std::panic::catch_unwind(std::panic::AssertUnwindSafe(|| run_case(&src, times, &inputs, &mut skel_seen)));
        let _ = verif::take();
        match r {
            Ok(Ok((skel, recs))) => {
                let recs = if recs.is_empty() { "-".to_string() } else { recs.join("|") };
                writeln!(out, "{id}\tok\t{skel}\t{recs}").unwrap()
            }
            Ok(Err(e)) => writeln!(out, "{id}\t{}\t{skel_seen}\t-", e.replace(['\t', '\n'], " ")).unwrap(),
            Err(e) => writeln!(out, "{id}\tpanic {}\t{skel_seen}\t-", panic_msg(e).replace(['\t', '\n'], " ")).unwrap(),
        }
        out.flush().unwrap();
    }
}
