//! runprog: compile and run mimium sources on both backends.
//! stdin: one JSON object per line {"id":..,"src":"..","times":N,"inputs":[[..],..]?,"scheduler":bool?,"backends":"vm,wasm"?}
//! stdout: `id \t <vm outcome> \t <wasm outcome>` (see runner::Outcome::show; `-` when a backend was not requested)
use mmh::runner::{RunCfg, run_vm, run_wasm};
use std::io::{BufRead, Write};

fn main() {
    std::panic::set_hook(Box::new(|_| {}));
    let stdin = std::io::stdin();
    let stdout = std::io::stdout();
    let mut out = std::io::BufWriter::new(stdout.lock());
    for line in stdin.lock().lines() {
        let line = line.unwrap();
        if line.trim().is_empty() {
            continue;
        }
        let v: serde_json::Value = match serde_json::from_str(&line) {
            Ok(v) => v,
            Err(e) => {
                writeln!(out, "?\tbad-json {e}\t-").unwrap();
                continue;
            }
        };
        let id = v["id"].as_str().map(|s| s.to_string()).unwrap_or_else(|| v["id"].to_string());
        let src = v["src"].as_str().unwrap_or("");
        let mut cfg = RunCfg::new(v["times"].as_u64().unwrap_or(8));
        cfg.scheduler = v["scheduler"].as_bool().unwrap_or(false);
        cfg.path = v["path"].as_str().map(std::path::PathBuf::from);
        if let Some(a) = v["inputs"].as_array() {
            cfg.inputs = a
                .iter()
                .map(|r| r.as_array().map(|x| x.iter().map(|f| f.as_f64().unwrap_or(0.0)).collect()).unwrap_or_default())
                .collect();
        }
        let be = v["backends"].as_str().unwrap_or("vm,wasm");
        let a = if be.contains("vm") { run_vm(src, &cfg).show() } else { "-".into() };
        let b = if be.contains("wasm") { run_wasm(src, &cfg).show() } else { "-".into() };
        writeln!(out, "{id}\t{a}\t{b}").unwrap();
        out.flush().unwrap();
    }
}
