//! C04: totality of the front end and of the compile entry points on arbitrary text.
//!
//! `c04 worker [--trace]`     run cases in-process (one hex-encoded text per stdin line), one result line per case
//! `c04 sup <stack_kib> <timeout_ms> <generator…>`
//!                            supervisor: generates the texts, feeds them to CHILD `worker` processes whose case thread has a
//!                            bounded stack, watches a wall clock per case, classifies a dead child as `abort`, a silent one as
//!                            `timeout`, respawns and goes on.  Generators:
//!     lines                          hex texts from stdin
//!     enum <alphabet.json> <full|core> <maxlen> <sep|nosep> <shard> <nshards>
//!     trunc <shard> <nshards> <stride>   every .mmm file under /repo cut at every `stride`-th token boundary
//!     fuzz <seed> <n>                byte scrambles, non-ASCII insertions, token-level mutations of shipped sources, soups
//!     nest <maxdepth>                bracket / keyword / operator nesting of depth 1,2,4,…,maxdepth
//!
//! Result line (tab separated):
//!   hex(text)  class  valid  tok  parse  type  bc  wasm  spans  ndiag
//!   class  = ok | diagnostics | panic | abort | timeout
//!   valid  = 1 iff `parse_to_expr` and `typecheck_with_module_info` both returned no diagnostic (and did not panic)
//!   stage  = ok | d<n> (n diagnostics) | P<file:line:col|message> (panic under catch_unwind) | - (not run)
//!   spans  = ok | B<stage:start..end/len:why>;…   (every label of every diagnostic: start <= end <= len, char boundaries)
use mimium_audiodriver::backends::local_buffer::LocalBufferDriver;
use mimium_audiodriver::driver::Driver;
use mimium_lang::compiler::{self, mirgen, parser};
use mimium_lang::interner::{Symbol, TypeNodeId};
use mimium_lang::plugin::Plugin;
use mimium_lang::utils::error::ReportableError;
use mimium_lang::{Config, ExecContext};
use mmh::rng::Rng;
use std::cell::RefCell;
use std::io::{BufRead, BufReader, Write};
use std::path::PathBuf;
use std::process::{Child, ChildStdin, Command, Stdio};
use std::sync::mpsc;
use std::time::Duration;

const FILE: &str = "/verif-c04/input.mmm";

fn hex(s: &str) -> String {
    if s.is_empty() {
        return "-".into();
    }
    let mut o = String::with_capacity(s.len() * 2);
    for b in s.bytes() {
        o.push_str(&format!("{b:02x}"));
    }
    o
}

fn unhex(h: &str) -> Option<String> {
    if h == "-" {
        return Some(String::new());
    }
    let b = h.as_bytes();
    if b.len() % 2 != 0 {
        return None;
    }
    let mut v = Vec::with_capacity(b.len() / 2);
    for i in (0..b.len()).step_by(2) {
        v.push(u8::from_str_radix(std::str::from_utf8(&b[i..i + 2]).ok()?, 16).ok()?);
    }
    String::from_utf8(v).ok()
}

thread_local! {
    static LAST_PANIC: RefCell<Option<String>> = const { RefCell::new(None) };
    /// did a diagnostic of the current case say `Circular …` (the occurs check fired)?
    static CIRCULAR: RefCell<bool> = const { RefCell::new(false) };
}

fn install_hook() {
    std::panic::set_hook(Box::new(|info| {
        let loc = info.location().map(|l| format!("{}:{}:{}", l.file(), l.line(), l.column())).unwrap_or("?".into());
        let msg = if let Some(s) = info.payload().downcast_ref::<&str>() {
            s.to_string()
        } else if let Some(s) = info.payload().downcast_ref::<String>() {
            s.clone()
        } else {
            "<non-string panic>".to_string()
        };
        let msg: String = msg.chars().take(160).map(|c| if c == '\n' || c == '\t' || c == '\r' { ' ' } else { c }).collect();
        LAST_PANIC.with(|p| {
            let mut p = p.borrow_mut();
            if p.is_none() {
                *p = Some(format!("{loc}|{msg}"));
            }
        });
    }));
}

// ---- where does a stack overflow / a hang sit?  SIGSEGV/SIGBUS (guard page hit) and SIGUSR1 (sent by the supervisor after the
// wall-clock guard fired) dump the innermost return addresses of the case thread as one `X` line and end the process.
// The supervisor turns the addresses into function names with the binary's symbol table (tools/props/c04.py).

extern "C" fn on_fatal(sig: libc::c_int, _info: *mut libc::siginfo_t, _ctx: *mut libc::c_void) {
    unsafe {
        let mut buf = [std::ptr::null_mut::<libc::c_void>(); 96];
        let n = libc::backtrace(buf.as_mut_ptr(), 96).max(0) as usize;
        // format without allocating: "X\t<sig>\t<addr of main>\t<a>,<a>,…\n"
        let mut out = [0u8; 4096];
        let mut k = 0usize;
        let mut put = |b: u8, k: &mut usize| {
            if *k < out.len() {
                out[*k] = b;
                *k += 1;
            }
        };
        let puthex = |mut v: usize, k: &mut usize, put: &mut dyn FnMut(u8, &mut usize)| {
            let mut d = [0u8; 16];
            let mut i = 0;
            loop {
                d[i] = b"0123456789abcdef"[v & 15];
                v >>= 4;
                i += 1;
                if v == 0 {
                    break;
                }
            }
            while i > 0 {
                i -= 1;
                put(d[i], k);
            }
        };
        put(b'X', &mut k);
        put(b'\t', &mut k);
        puthex(sig as usize, &mut k, &mut put);
        put(b'\t', &mut k);
        puthex(main as usize, &mut k, &mut put);
        put(b'\t', &mut k);
        for (i, a) in buf.iter().take(n).enumerate() {
            if i > 0 {
                put(b',', &mut k);
            }
            puthex(*a as usize, &mut k, &mut put);
        }
        put(b'\n', &mut k);
        libc::write(1, out.as_ptr() as *const libc::c_void, k);
        if sig != libc::SIGUSR1 {
            libc::_exit(74);
        }
    }
}

fn install_fatal_handlers() {
    unsafe {
        let mut warm = [std::ptr::null_mut::<libc::c_void>(); 4];
        libc::backtrace(warm.as_mut_ptr(), 4); // loads the unwinder now, not inside the handler
        let mut sa: libc::sigaction = std::mem::zeroed();
        sa.sa_sigaction = on_fatal as usize;
        sa.sa_flags = libc::SA_SIGINFO | libc::SA_ONSTACK;
        libc::sigemptyset(&mut sa.sa_mask);
        for s in [libc::SIGSEGV, libc::SIGBUS, libc::SIGUSR1] {
            libc::sigaction(s, &sa, std::ptr::null_mut());
        }
    }
}

/// the case thread gets its own roomy alternate signal stack
fn install_altstack() {
    unsafe {
        let sz = 1usize << 20;
        let p = Box::leak(vec![0u8; sz].into_boxed_slice()).as_mut_ptr();
        let ss = libc::stack_t { ss_sp: p as *mut libc::c_void, ss_flags: 0, ss_size: sz };
        libc::sigaltstack(&ss, std::ptr::null_mut());
    }
}

/// SIGUSR1 must reach the case thread, not the thread that waits for it
fn block_usr1_here() {
    unsafe {
        let mut set: libc::sigset_t = std::mem::zeroed();
        libc::sigemptyset(&mut set);
        libc::sigaddset(&mut set, libc::SIGUSR1);
        libc::pthread_sigmask(libc::SIG_BLOCK, &set, std::ptr::null_mut());
    }
}

fn unblock_usr1_here() {
    unsafe {
        let mut set: libc::sigset_t = std::mem::zeroed();
        libc::sigemptyset(&mut set);
        libc::sigaddset(&mut set, libc::SIGUSR1);
        libc::pthread_sigmask(libc::SIG_UNBLOCK, &set, std::ptr::null_mut());
    }
}

fn guard<T>(f: impl FnOnce() -> T) -> Result<T, String> {
    LAST_PANIC.with(|p| *p.borrow_mut() = None);
    std::panic::catch_unwind(std::panic::AssertUnwindSafe(f))
        .map_err(|_| LAST_PANIC.with(|p| p.borrow_mut().take()).unwrap_or("?|?".into()))
}

struct Env {
    ctx: ExecContext,
    builtin: Vec<(Symbol, TypeNodeId)>,
}

fn make_env() -> Env {
    let driver = LocalBufferDriver::new(0);
    let plug: Box<dyn Plugin> = Box::new(driver.get_as_plugin());
    let mut ctx = ExecContext::new([plug].into_iter(), Some(PathBuf::from(FILE)), Config::default());
    ctx.add_system_plugin(mimium_scheduler::get_default_scheduler_plugin());
    ctx.prepare_compiler();
    let builtin = ctx.get_compiler().unwrap().get_ext_typeinfos();
    Env { ctx, builtin }
}

/// check the labels of a list of diagnostics; returns (number of diagnostics, bad-span descriptions, panic while rendering)
fn check_diags(stage: &str, src: &str, errs: &[Box<dyn ReportableError>], bad: &mut Vec<String>) -> Option<String> {
    for e in errs {
        let r = guard(|| {
            let m = e.get_message();
            (m, e.get_labels())
        });
        match r {
            Err(p) => return Some(p),
            Ok((emsg, labels)) => {
                if emsg.contains("Circular") {
                    CIRCULAR.with(|c| *c.borrow_mut() = true);
                }
                for (loc, _msg) in labels {
                    let p = loc.path.to_string_lossy();
                    if !(p.is_empty() || p == FILE) {
                        continue; // a label inside another file (include): not a span of this text
                    }
                    let (a, b) = (loc.span.start, loc.span.end);
                    let why = if a > b {
                        "start>end"
                    } else if b > src.len() {
                        "end>len"
                    } else if !src.is_char_boundary(a) || !src.is_char_boundary(b) {
                        "not-char-boundary"
                    } else {
                        continue;
                    };
                    if bad.len() < 4 {
                        let head: String = emsg
                            .split(|c: char| !c.is_ascii_alphanumeric())
                            .filter(|w| !w.is_empty())
                            .take(1)
                            .collect::<Vec<_>>()
                            .join("_");
                        bad.push(format!("{stage}:{a}..{b}/{}:{why}:{head}", src.len()));
                    }
                }
            }
        }
    }
    None
}

fn trace(on: bool, s: &str) {
    if on {
        println!("S\t{s}");
        let _ = std::io::stdout().flush();
    }
}

fn run_case(env: &Env, src: &str, tr: bool) -> String {
    let mut bad: Vec<String> = vec![];
    let mut ndiag = 0usize;
    let mut ntok = 0usize;
    CIRCULAR.with(|c| *c.borrow_mut() = false);
    // 1. tokenize
    trace(tr, "tok");
    let tok = match guard(|| parser::tokenize(src)) {
        Ok(ts) => {
            let mut pos = 0usize;
            let mut ok = true;
            ntok = ts.iter().filter(|t| !t.is_trivia()).count().saturating_sub(1);
            for t in &ts {
                if t.start != pos || !src.is_char_boundary(t.start) || t.start + t.length > src.len() {
                    ok = false;
                }
                pos = t.start + t.length;
            }
            if !ok || pos != src.len() {
                bad.push(format!("tok:tiling/{}", src.len()));
            }
            "ok".to_string()
        }
        Err(p) => format!("P{p}"),
    };
    // 2. parse_to_expr  3. typecheck_with_module_info  (exactly the two calls of analysis.rs::analyze_source)
    trace(tr, "parse");
    let mut valid = true;
    let parsed = guard(|| parser::parse_to_expr(src, Some(PathBuf::from(FILE))));
    let (parse, ty) = match parsed {
        Err(p) => {
            valid = false;
            (format!("P{p}"), "-".to_string())
        }
        Ok((ast, module_info, errors)) => {
            let mut parse = if errors.is_empty() { "ok".to_string() } else { format!("d{}", errors.len()) };
            ndiag += errors.len();
            if !errors.is_empty() {
                valid = false;
            }
            if let Some(p) = check_diags("parse", src, &errors, &mut bad) {
                parse = format!("P{p}");
            }
            trace(tr, "type");
            let builtin = &env.builtin;
            let r = guard(move || {
                let ast = if ast.has_staging_constructs() { ast.wrap_to_staged_expr() } else { ast };
                let (_, _, typeerrs) = mirgen::typecheck_with_module_info(ast, builtin, None, module_info);
                typeerrs
            });
            let ty = match r {
                Err(p) => {
                    valid = false;
                    format!("P{p}")
                }
                Ok(es) => {
                    ndiag += es.len();
                    if !es.is_empty() {
                        valid = false;
                    }
                    match check_diags("type", src, &es, &mut bad) {
                        Some(p) => format!("P{p}"),
                        None if es.is_empty() => "ok".to_string(),
                        None => format!("d{}", es.len()),
                    }
                }
            };
            (parse, ty)
        }
    };
    // 4./5. the complete compile entry points of both backends
    trace(tr, "bc");
    let comp: &compiler::Context = env.ctx.get_compiler().unwrap();
    let bc = match guard(|| comp.emit_bytecode(src).map(|_| ())) {
        Err(p) => format!("P{p}"),
        Ok(Ok(())) => "ok".to_string(),
        Ok(Err(es)) => {
            ndiag += es.len();
            match check_diags("bc", src, &es, &mut bad) {
                Some(p) => format!("P{p}"),
                None => format!("d{}", es.len()),
            }
        }
    };
    trace(tr, "wasm");
    let wasm = match guard(|| comp.emit_wasm(src).map(|_| ())) {
        Err(p) => format!("P{p}"),
        Ok(Ok(())) => "ok".to_string(),
        Ok(Err(es)) => {
            ndiag += es.len();
            match check_diags("wasm", src, &es, &mut bad) {
                Some(p) => format!("P{p}"),
                None => format!("d{}", es.len()),
            }
        }
    };
    let stages = [&tok, &parse, &ty, &bc, &wasm];
    let class = if stages.iter().any(|s| s.starts_with('P')) {
        "panic"
    } else if stages.iter().any(|s| s.starts_with('d')) {
        "diagnostics"
    } else {
        "ok"
    };
    let spans = if bad.is_empty() { "ok".to_string() } else { format!("B{}", bad.join(";")) };
    format!("{}\t{class}\t{}\t{tok}\t{parse}\t{ty}\t{bc}\t{wasm}\t{spans}\t{ndiag}\tntok={ntok}{}", hex(src), valid as u8, if CIRCULAR.with(|c| *c.borrow()) { ";circ=1" } else { "" })
}

fn worker(tr: bool, stack_kib: usize) {
    // a runaway case (e.g. a loop that keeps pushing diagnostics) must die by allocation failure, not take the machine down
    unsafe {
        let lim = libc::rlimit { rlim_cur: 2 << 30, rlim_max: 2 << 30 };
        libc::setrlimit(libc::RLIMIT_AS, &lim);
    }
    install_hook();
    install_fatal_handlers();
    block_usr1_here();
    let h = std::thread::Builder::new()
        .stack_size(stack_kib * 1024)
        .spawn(move || {
            install_altstack();
            unblock_usr1_here();
            let env = make_env();
            let stdin = std::io::stdin();
            let stdout = std::io::stdout();
            println!("READY");
            let _ = stdout.lock().flush();
            for line in stdin.lock().lines() {
                let Ok(line) = line else { break };
                let h = line.trim();
                if h.is_empty() {
                    continue;
                }
                let res = match unhex(h) {
                    Some(s) => run_case(&env, &s, tr),
                    None => format!("{h}\tbadhex\t0\t-\t-\t-\t-\t-\tok\t0"),
                };
                let mut o = stdout.lock();
                let _ = writeln!(o, "R\t{res}");
                let _ = o.flush();
            }
        })
        .unwrap();
    let _ = h.join();
}

// ------------------------------------------------------------------------------------------------------------------
// supervisor

struct Kid {
    child: Child,
    stdin: ChildStdin,
    rx: mpsc::Receiver<Option<String>>,
}

fn spawn_kid(stack_kib: usize, tr: bool) -> Kid {
    let exe = std::env::current_exe().unwrap();
    let mut cmd = Command::new(exe);
    cmd.arg("worker").arg(stack_kib.to_string());
    if tr {
        cmd.arg("--trace");
    }
    let mut child = cmd.stdin(Stdio::piped()).stdout(Stdio::piped()).stderr(Stdio::null()).spawn().unwrap();
    let stdin = child.stdin.take().unwrap();
    let stdout = child.stdout.take().unwrap();
    let (tx, rx) = mpsc::channel();
    std::thread::spawn(move || {
        let rd = BufReader::new(stdout);
        for l in rd.lines() {
            match l {
                Ok(l) => {
                    if tx.send(Some(l)).is_err() {
                        return;
                    }
                }
                Err(_) => break,
            }
        }
        let _ = tx.send(None);
    });
    let k = Kid { child, stdin, rx };
    // wait for READY (environment construction is not part of any case's time)
    loop {
        match k.rx.recv_timeout(Duration::from_secs(120)) {
            Ok(Some(l)) if l == "READY" => break,
            Ok(Some(_)) => continue,
            _ => break,
        }
    }
    k
}

enum Reply {
    Line(String),
    /// (last stage marker, `X` line of the fatal-signal handler if any)
    Dead(String, String),
    Timeout(String),
}

/// feed one case, wait for its result line
fn ask(k: &mut Kid, h: &str, timeout: Duration) -> Reply {
    let mut last_stage = String::from("?");
    let mut frames = String::new();
    if writeln!(k.stdin, "{h}").and_then(|_| k.stdin.flush()).is_err() {
        return Reply::Dead(last_stage, frames);
    }
    let t0 = std::time::Instant::now();
    loop {
        let left = timeout.checked_sub(t0.elapsed()).unwrap_or(Duration::from_millis(0));
        match k.rx.recv_timeout(left) {
            Ok(Some(l)) => {
                if let Some(r) = l.strip_prefix("R\t") {
                    return Reply::Line(r.to_string());
                } else if let Some(s) = l.strip_prefix("S\t") {
                    last_stage = s.to_string();
                } else if let Some(x) = l.strip_prefix("X\t") {
                    frames = x.replace('\t', ":");
                }
            }
            Ok(None) | Err(mpsc::RecvTimeoutError::Disconnected) => return Reply::Dead(last_stage, frames),
            Err(mpsc::RecvTimeoutError::Timeout) => return Reply::Timeout(last_stage),
        }
    }
}

fn kill(k: &mut Kid) -> String {
    let _ = k.child.kill();
    match k.child.wait() {
        Ok(st) => {
            use std::os::unix::process::ExitStatusExt;
            match st.signal() {
                Some(s) => format!("signal{s}"),
                None => format!("exit{}", st.code().unwrap_or(-1)),
            }
        }
        Err(_) => "?".into(),
    }
}

fn reap(k: &mut Kid) -> String {
    match k.child.wait() {
        Ok(st) => {
            use std::os::unix::process::ExitStatusExt;
            match st.signal() {
                Some(s) => format!("signal{s}"),
                None => format!("exit{}", st.code().unwrap_or(-1)),
            }
        }
        Err(_) => "?".into(),
    }
}

struct Sup {
    kid: Option<Kid>,
    stack_kib: usize,
    timeout: Duration,
    out: std::io::BufWriter<std::io::Stdout>,
    /// `spans` mode: no child, print the parser-error span line of the text instead
    spans: bool,
    /// cases answered by the current child (it is replaced now and then: the interner of the compiler only grows)
    served: usize,
    /// confirmed hangs so far; after `MAX_HANGS` the stream is cut (`#CUT` line): thousands of enumerated texts share a
    /// hanging prefix and each one costs two wall-clock guards
    hangs: usize,
    agg: Option<Agg>,
}

const MAX_HANGS: usize = 3;

/// aggregation of the result lines of an exhaustive stream (millions of lines): passing cases are only counted, failing
/// cases are grouped by their raw signature with a count and the shortest example; aborts/timeouts are passed through.
#[derive(Default)]
struct Agg {
    evaluations: u64,
    valid: u64,
    ndiag: u64,
    nontrivial: u64,
    max_bytes: usize,
    classes: std::collections::BTreeMap<String, u64>,
    ntok_hist: std::collections::BTreeMap<u64, u64>,
    groups: std::collections::BTreeMap<String, (u64, String)>,
    samples: Vec<String>,
}

impl Agg {
    fn add(&mut self, line: &str, out: &mut impl Write) {
        let f: Vec<&str> = line.split('\t').collect();
        if f.len() < 10 {
            let _ = writeln!(out, "{line}");
            return;
        }
        self.evaluations += 1;
        *self.classes.entry(f[1].to_string()).or_insert(0) += 1;
        if f[2] == "1" {
            self.valid += 1;
        }
        self.ndiag += f[9].parse::<u64>().unwrap_or(0);
        let ntok: u64 = f.get(10).and_then(|x| x.strip_prefix("ntok=")).and_then(|x| x.split(';').next()).and_then(|x| x.parse().ok()).unwrap_or(0);
        if ntok >= 2 {
            self.nontrivial += 1;
        }
        *self.ntok_hist.entry(if ntok == 0 { 1 } else { (ntok + 1).next_power_of_two().max(2) }).or_insert(0) += 1;
        self.max_bytes = self.max_bytes.max(if f[0] == "-" { 0 } else { f[0].len() / 2 });
        if f[1] == "abort" || f[1] == "timeout" {
            let _ = writeln!(out, "{line}");
            return;
        }
        let failing = f[1] == "panic" || f[8] != "ok";
        if !failing {
            if self.samples.len() < 2 && f[1] == "diagnostics" && ntok >= 3 && self.evaluations % 997 == 5 {
                self.samples.push(line.to_string());
            }
            return;
        }
        // raw signature: validity, panic locations per stage (+ whether the payload is an unwrapped Err), span verdict class
        let mut key = format!("{}|{}", f[1], f[2]);
        for st in &f[3..8] {
            if let Some(p) = st.strip_prefix('P') {
                let (loc, msg) = p.split_once('|').unwrap_or((p, ""));
                key.push_str(&format!("|{loc}{}", if msg.starts_with("called `Result::unwrap()` on an `Err` value") { "!" } else { "" }));
            } else {
                key.push_str("|-");
            }
        }
        if f[8] != "ok" {
            let parts: Vec<&str> = f[8].split(';').next().unwrap_or("").split(':').collect();
            key.push_str(&format!("|{}:{}:{}", parts.first().unwrap_or(&""), parts.get(2).unwrap_or(&""), parts.get(3).unwrap_or(&"")));
        }
        let e = self.groups.entry(key).or_insert((0, line.to_string()));
        e.0 += 1;
        if line.len() < e.1.len() {
            e.1 = line.to_string();
        }
    }
    fn finish(&self, out: &mut impl Write) {
        for (_, (n, ex)) in &self.groups {
            let _ = writeln!(out, "#AGG\t{n}\t{ex}");
        }
        for s in &self.samples {
            let _ = writeln!(out, "#SAMPLE\t{s}");
        }
        let j = serde_json::json!({"evaluations": self.evaluations, "valid": self.valid, "ndiag": self.ndiag, "nontrivial": self.nontrivial,
            "max_bytes": self.max_bytes, "classes": self.classes,
            "ntok_hist": self.ntok_hist.iter().map(|(k, v)| (k.to_string(), *v)).collect::<std::collections::BTreeMap<String, u64>>()});
        let _ = writeln!(out, "#SUM\t{j}");
    }
}

fn classes(s: &str) -> String {
    let mut cs: Vec<char> = s.chars().filter(|c| !c.is_ascii()).collect();
    cs.sort();
    cs.dedup();
    if cs.is_empty() {
        return "-".into();
    }
    cs.iter()
        .map(|&c| format!("{}:{}{}", c as u32, unicode_ident::is_xid_start(c) as u8, unicode_ident::is_xid_continue(c) as u8))
        .collect::<Vec<_>>()
        .join(",")
}

/// `hex \t classes \t idx:start:end,…` : every error of the real `parse_cst` (plus three synthetic indices around the end of
/// the token array) with the span the real `parser_errors_to_reportable` assigns to it
fn spans_line(src: &str) -> String {
    let r = guard(|| {
        let tokens = parser::tokenize(src);
        let n = tokens.len();
        let pre = parser::preparse(&tokens);
        let (_root, _arena, _toks, mut errors) = parser::parse_cst(tokens, &pre);
        for i in [n.saturating_sub(1), n, n + 5] {
            errors.push(parser::ParserError::invalid_syntax(i, "synthetic"));
        }
        let idx: Vec<usize> = errors.iter().map(|e| e.token_index).collect();
        let rep = parser::parser_errors_to_reportable(src, PathBuf::from(FILE), errors);
        let mut out = vec![];
        for (i, e) in idx.iter().zip(rep.iter()) {
            for (loc, _) in e.get_labels() {
                out.push(format!("{}:{}:{}", i, loc.span.start, loc.span.end));
            }
        }
        out.join(",")
    });
    match r {
        Ok(s) => format!("{}\t{}\t{}", hex(src), classes(src), if s.is_empty() { "-".to_string() } else { s }),
        Err(p) => format!("{}\t{}\tPANIC {}", hex(src), classes(src), p),
    }
}

impl Sup {
    fn case(&mut self, src: &str) {
        if self.hangs >= MAX_HANGS {
            if self.hangs == MAX_HANGS {
                let _ = writeln!(self.out, "#CUT\tstream cut after {MAX_HANGS} confirmed hangs");
                self.hangs += 1;
            }
            return;
        }
        if self.spans {
            let l = spans_line(src);
            let _ = writeln!(self.out, "{l}");
            return;
        }
        let h = hex(src);
        if self.served >= 25000 {
            if let Some(mut k) = self.kid.take() {
                drop(k.stdin);
                let _ = k.child.wait();
            }
        }
        if self.kid.is_none() {
            self.kid = Some(spawn_kid(self.stack_kib, false));
            self.served = 0;
        }
        self.served += 1;
        let r = ask(self.kid.as_mut().unwrap(), &h, self.timeout);
        match r {
            Reply::Line(l) => self.emit(&l),
            Reply::Dead(..) | Reply::Timeout(_) => {
                let is_to = matches!(r, Reply::Timeout(_));
                let mut k = self.kid.take().unwrap();
                let how = if is_to { kill(&mut k) } else { reap(&mut k) };
                // run the case again, alone, in a tracing child: which stage dies / hangs?
                let mut k2 = spawn_kid(self.stack_kib, true);
                let r2 = ask(&mut k2, &h, self.timeout);
                let (cls, stage, how2) = match r2 {
                    Reply::Line(l) => {
                        // did not reproduce alone (every case must replay alone): a loaded machine or the state of a
                        // long-lived child; the verdict of the fresh child counts, the episode is flagged
                        let _ = kill(&mut k2);
                        let c = if is_to { "timeout" } else { "abort" };
                        self.emit(&format!("{l};flaky={c}:{how}"));
                        return;
                    }
                    Reply::Dead(s, fr) => ("abort", s, format!("{};frames={fr}", reap(&mut k2))),
                    Reply::Timeout(s) => {
                        // ask the hanging case thread where it is, then end the child
                        let mut fr: Vec<String> = vec![];
                        for _ in 0..3 {
                            unsafe {
                                libc::kill(k2.child.id() as i32, libc::SIGUSR1);
                            }
                            let t0 = std::time::Instant::now();
                            while t0.elapsed() < Duration::from_millis(1500) {
                                match k2.rx.recv_timeout(Duration::from_millis(100)) {
                                    Ok(Some(l)) => {
                                        if let Some(x) = l.strip_prefix("X\t") {
                                            fr.push(x.replace('\t', ":"));
                                            break;
                                        }
                                    }
                                    Ok(None) => break,
                                    Err(_) => {}
                                }
                            }
                            std::thread::sleep(Duration::from_millis(120));
                        }
                        self.hangs += 1;
                        ("timeout", s, format!("{};frames={}", kill(&mut k2), fr.join("/")))
                    }
                };
                self.emit(&format!("{h}\t{cls}\t0\t-\t-\t-\t-\t-\tok\t0\tstage={stage};{how2}"));
            }
        }
    }
    fn emit(&mut self, line: &str) {
        match self.agg.as_mut() {
            Some(a) => a.add(line, &mut self.out),
            None => {
                let _ = writeln!(self.out, "{line}");
            }
        }
    }
    fn finish(&mut self) {
        if let Some(a) = self.agg.take() {
            a.finish(&mut self.out);
        }
        if let Some(mut k) = self.kid.take() {
            drop(k.stdin);
            let _ = k.child.wait();
        }
        let _ = self.out.flush();
    }
}

// ------------------------------------------------------------------------------------------------------------------
// generators

fn mmm_files() -> Vec<PathBuf> {
    let repo = std::env::var("VERIF_REPO").unwrap_or("/repo".into());
    let mut out = vec![];
    let mut stack = vec![PathBuf::from(&repo)];
    while let Some(d) = stack.pop() {
        let Ok(rd) = std::fs::read_dir(&d) else { continue };
        for e in rd.flatten() {
            let p = e.path();
            let name = p.file_name().and_then(|x| x.to_str()).unwrap_or("");
            if p.is_dir() {
                if name != "target" && name != ".git" && name != "node_modules" {
                    stack.push(p);
                }
            } else if name.ends_with(".mmm") {
                out.push(p);
            }
        }
    }
    out.sort();
    out
}

fn load_alphabet(path: &str, which: &str) -> Vec<String> {
    let v: serde_json::Value = serde_json::from_str(&std::fs::read_to_string(path).expect("alphabet file")).expect("json");
    let key = if which == "core" { "C04_core_alphabet" } else { "C04_alphabet" };
    v[key].as_array().expect(key).iter().map(|x| x[1].as_str().unwrap().to_string()).collect()
}

fn gen_enum(sup: &mut Sup, alpha: &[String], maxlen: usize, sep: &str, shard: usize, nshards: usize) {
    let mut counter = 0usize;
    for len in 0..=maxlen {
        let total = alpha.len().pow(len as u32);
        for code in 0..total {
            if counter % nshards == shard {
                let mut c = code;
                let mut parts: Vec<&str> = Vec::with_capacity(len);
                for _ in 0..len {
                    parts.push(&alpha[c % alpha.len()]);
                    c /= alpha.len();
                }
                parts.reverse();
                sup.case(&parts.join(sep));
            }
            counter += 1;
        }
    }
}

fn gen_trunc(sup: &mut Sup, shard: usize, nshards: usize, stride: usize) {
    let mut counter = 0usize;
    for p in mmm_files() {
        let Ok(s) = std::fs::read_to_string(&p) else { continue };
        let Ok(toks) = std::panic::catch_unwind(|| parser::tokenize(&s)) else { continue };
        let mut k = 0usize;
        for t in &toks {
            if t.is_trivia() {
                continue;
            }
            k += 1;
            if k % stride != 0 {
                continue;
            }
            if counter % nshards == shard && s.is_char_boundary(t.start) {
                sup.case(&s[..t.start]);
            }
            counter += 1;
        }
    }
}

const NONASCII: &[&str] = &[
    "é", "日本", "ñ", "\u{301}", "e\u{301}", "٣", "𝛼", "😀", "§", "\u{200d}", "\u{feff}", "\u{2028}", "\u{2029}", "\u{85}", "\u{3000}",
    "\u{a0}", "\u{202e}", "\u{202d}", "\u{5d0}\u{5d1}", "\u{627}\u{644}", "\u{10ffff}", "\u{0}", "\u{7f}", "ß", "ǅ", "\u{1f468}\u{200d}\u{1f469}",
];
const FRAGS: &[&str] = &[
    "fn", "macro", "self", "now", "samplerate", "let", "letrec", "if", "else", "match", "float", "int", "string", "struct", "include",
    "stage", "main", "mod", "use", "pub", "type", "alias", "rec", "_", "dsp", "x", "f", "->", "<-", "=>", "||>", "==", "!=", "<=", ">=", "&&",
    "||", "|>", "+", "-", "*", "/", "%", "^", "@", "<", ">", "=", "!", "::", "..", ".", ",", ":", ";", "(", ")", "[", "]", "{", "}", "`", "$",
    "#", "|", "0", "1", "3.14", "1.", ".5", "t.0", "\"s\"", "\"", "//", "/*", "*/", "\n", " ", "\t", "\r\n",
    "fn dsp(){", "fn f(x){", "let x = ", "|x| ", "#stage(macro)\n", "#stage(main)\n", "f!(", "self", "mem(", "delay(", "f(", "x(x)", "(x, y)",
    "{a = 1}", "x.a", "x[0]", "[1,2]", "type T = A | B(float)\n", "type alias T = ", "match x {", "1 => ", "_ => ", "mod m {", "use m::", "pub ",
    ":float", ":(float,float)->float", ":[float]", ":{a:float}", ":`float", "`{", "$x", "@(now+1)",
];

fn mutate(r: &mut Rng, files: &[String]) -> String {
    let mode = r.below(12);
    if files.is_empty() || mode == 0 {
        // soup of fragments
        let n = 1 + r.below(24) as usize;
        let mut s = String::new();
        for _ in 0..n {
            match r.below(12) {
                0 => s.push_str(*r.pick::<&str>(NONASCII)),
                _ => s.push_str(*r.pick::<&str>(FRAGS)),
            }
            if r.chance(1, 2) {
                s.push(' ');
            }
        }
        return s;
    }
    let f = r.pick(files).clone();
    // take the whole file (short ones) or a window cut at token boundaries
    let toks = parser::tokenize(&f);
    let mut spans: Vec<(usize, usize)> = toks.iter().map(|t| (t.start, t.start + t.length)).filter(|(a, b)| b > a).collect();
    if spans.is_empty() {
        return f;
    }
    if spans.len() > 160 && r.chance(3, 4) {
        let a = r.below((spans.len() - 40) as u64) as usize;
        let l = 20 + r.below(140) as usize;
        spans = spans[a..(a + l).min(spans.len())].to_vec();
    }
    let mut parts: Vec<String> = spans.iter().map(|&(a, b)| f[a..b].to_string()).collect();
    match mode {
        1 | 2 => {
            // byte scramble: flip / delete / duplicate bytes, then lossy re-decode (keeps it a Rust &str)
            let mut bytes: Vec<u8> = parts.concat().into_bytes();
            let n = 1 + r.below(6);
            for _ in 0..n {
                if bytes.is_empty() {
                    break;
                }
                let p = r.below(bytes.len() as u64) as usize;
                match r.below(4) {
                    0 => bytes[p] ^= 1 << r.below(8),
                    1 => {
                        bytes.remove(p);
                    }
                    2 => bytes.insert(p, r.below(256) as u8),
                    _ => {
                        let q = r.below(bytes.len() as u64) as usize;
                        bytes.swap(p, q);
                    }
                }
            }
            String::from_utf8_lossy(&bytes).into_owned()
        }
        3 | 4 => {
            // non-ASCII insertions at token boundaries and inside tokens
            let n = 1 + r.below(4);
            for _ in 0..n {
                let p = r.below(parts.len() as u64) as usize;
                let ins = *r.pick::<&str>(NONASCII);
                if r.chance(1, 2) {
                    parts.insert(p, ins.to_string());
                } else {
                    let cs: Vec<char> = parts[p].chars().collect();
                    let q = r.below(cs.len() as u64 + 1) as usize;
                    let mut t: String = cs[..q].iter().collect();
                    t.push_str(ins);
                    t.extend(cs[q..].iter());
                    parts[p] = t;
                }
            }
            parts.concat()
        }
        _ => {
            // token-level edits: delete / duplicate / swap / replace by a fragment / move a range
            let n = 1 + r.below(5);
            for _ in 0..n {
                if parts.is_empty() {
                    break;
                }
                let p = r.below(parts.len() as u64) as usize;
                match r.below(6) {
                    0 => {
                        parts.remove(p);
                    }
                    1 => {
                        let t = parts[p].clone();
                        parts.insert(p, t);
                    }
                    2 => {
                        let q = r.below(parts.len() as u64) as usize;
                        parts.swap(p, q);
                    }
                    3 => parts[p] = r.pick::<&str>(FRAGS).to_string(),
                    4 => parts.insert(p, r.pick::<&str>(FRAGS).to_string()),
                    _ => {
                        let l = 1 + r.below(8.min(parts.len() as u64 - p as u64)) as usize;
                        let seg: Vec<String> = parts.drain(p..p + l).collect();
                        let q = r.below(parts.len() as u64 + 1) as usize;
                        for (i, s) in seg.into_iter().enumerate() {
                            parts.insert(q + i, s);
                        }
                    }
                }
            }
            parts.concat()
        }
    }
}

/// nesting shapes: (open, close, core)
const NESTS: &[(&str, &str, &str)] = &[
    ("(", ")", "1"),
    ("(", "", "1"),
    ("{", "}", "1"),
    ("{", "", ""),
    ("[", "]", "1"),
    ("[", "", ""),
    ("-", "", "1"),
    ("`", "", "1"),
    ("$", "", "x"),
    ("if (1) ", " else 0", "1"),
    ("if ", "", "1"),
    ("|x| ", "", "x"),
    ("f(", ")", "1"),
    ("1+(", ")", "1"),
    ("fn f(){", "}", "1"),
    ("match x { 1 => ", " }", "1"),
    ("let x = ", "", "1"),
    ("mod m {", "}", "fn f(){1}"),
    ("fn f(x:(", ")){x}", "float"),
    ("fn f(x:[", "]){x}", "float"),
    ("fn f(x:`", "){x}", "float"),
    ("let x:(float)->", " = f", "float"),
    ("x.", "", "0"),
    ("1 + ", "", "1"),
    ("1 |> ", "", "f"),
    ("a::", "", "b"),
    ("((", "),1)", "1"),
    ("{a = ", "}", "1"),
];

fn gen_nest(sup: &mut Sup, maxdepth: usize, shard: usize, nshards: usize) {
    let mut d = 1usize;
    let mut depths = vec![];
    while d <= maxdepth {
        depths.push(d);
        d *= 2;
    }
    if depths.last() != Some(&maxdepth) {
        depths.push(maxdepth);
    }
    for (ni, &(o, c, core)) in NESTS.iter().enumerate() {
        if ni % nshards != shard {
            continue;
        }
        for &d in &depths {
            for wrap in [false, true] {
                // type-level nests carry their own `fn`; expression nests are also tried inside `fn dsp(){…}`
                let body = format!("{}{}{}", o.repeat(d), core, c.repeat(d));
                let s = if wrap { format!("fn dsp(){{ {body} }}") } else { body };
                sup.case(&s);
            }
        }
    }
}

fn main() {
    let args: Vec<String> = std::env::args().skip(1).collect();
    match args.first().map(|s| s.as_str()) {
        Some("worker") => {
            let stack_kib: usize = args.get(1).and_then(|s| s.parse().ok()).unwrap_or(8192);
            worker(args.iter().any(|a| a == "--trace"), stack_kib);
        }
        Some(m @ ("sup" | "spans")) => {
            let stack_kib: usize = args[1].parse().unwrap();
            let timeout = Duration::from_millis(args[2].parse().unwrap());
            let spans = m == "spans";
            if spans {
                install_hook();
            }
            let mut sup = Sup { kid: None, stack_kib, timeout, out: std::io::BufWriter::new(std::io::stdout()), spans, served: 0, hangs: 0, agg: None };
            let num = |i: usize| -> usize { args[i].parse().unwrap() };
            match args[3].as_str() {
                "lines" => {
                    let stdin = std::io::stdin();
                    for line in stdin.lock().lines() {
                        let line = line.unwrap();
                        let h = line.split('\t').next().unwrap_or("").trim();
                        if h.is_empty() || h.starts_with('#') {
                            continue;
                        }
                        match unhex(h) {
                            Some(s) => sup.case(&s),
                            None => {
                                let _ = writeln!(sup.out, "{h}\tbadhex\t0\t-\t-\t-\t-\t-\tok\t0");
                            }
                        }
                    }
                }
                "enum" => {
                    if !spans {
                        sup.agg = Some(Agg::default());
                    }
                    let alpha = load_alphabet(&args[4], &args[5]);
                    let sep = if args[7] == "sep" { " " } else { "" };
                    gen_enum(&mut sup, &alpha, num(6), sep, num(8), num(9));
                }
                "trunc" => gen_trunc(&mut sup, num(4), num(5), num(6)),
                "fuzz" => {
                    let files: Vec<String> = mmm_files().iter().filter_map(|p| std::fs::read_to_string(p).ok()).collect();
                    let mut r = Rng::new(args[4].parse().unwrap());
                    for _ in 0..num(5) {
                        let s = mutate(&mut r, &files);
                        sup.case(&s);
                    }
                }
                "nest" => gen_nest(&mut sup, num(4), if args.len() > 6 { num(5) } else { 0 }, if args.len() > 6 { num(6) } else { 1 }),
                g => {
                    eprintln!("unknown generator {g}");
                    std::process::exit(2);
                }
            }
            sup.finish();
        }
        Some("show") => {
            // debugging aid: print every diagnostic (message + labels) of one hex-encoded text given as argument
            install_hook();
            let src = unhex(&args[1]).expect("hex");
            let env = make_env();
            let (_ast, _mi, errs) = parser::parse_to_expr(&src, Some(PathBuf::from(FILE)));
            for e in &errs {
                println!("parse: {} {:?}", e.get_message(), e.get_labels().iter().map(|(l, m)| format!("{}..{} {m}", l.span.start, l.span.end)).collect::<Vec<_>>());
            }
            let (ast, mi, _) = parser::parse_to_expr(&src, Some(PathBuf::from(FILE)));
            let ast = if ast.has_staging_constructs() { ast.wrap_to_staged_expr() } else { ast };
            let (_, _, es) = mirgen::typecheck_with_module_info(ast, &env.builtin, None, mi);
            for e in &es {
                println!("type: {} {:?}", e.get_message(), e.get_labels().iter().map(|(l, m)| format!("{}..{} {m}", l.span.start, l.span.end)).collect::<Vec<_>>());
            }
        }
        Some("alphabet") => {
            // self-check of the enumeration alphabet: every spelling must lex to its kind (first token) and, comments aside,
            // to exactly one token before Eof
            let v: serde_json::Value = serde_json::from_str(&std::fs::read_to_string(&args[1]).unwrap()).unwrap();
            let mut bad = 0;
            for e in v["C04_alphabet"].as_array().unwrap() {
                let (k, sp) = (e[0].as_str().unwrap(), e[1].as_str().unwrap());
                let ts = parser::tokenize(sp);
                let first = ts.first().map(|t| format!("{:?}", t.kind)).unwrap_or_default();
                let single = ts.len() == 2 || k == "SingleLineComment";
                if first != k || !single {
                    println!("BAD {k} {sp:?} -> {:?}", ts.iter().map(|t| format!("{:?}", t.kind)).collect::<Vec<_>>());
                    bad += 1;
                }
            }
            println!("alphabet {} bad {}", v["C04_alphabet"].as_array().unwrap().len(), bad);
            std::process::exit(if bad == 0 { 0 } else { 1 });
        }
        _ => {
            eprintln!("usage: c04 worker [stack_kib] [--trace] | c04 sup <stack_kib> <timeout_ms> <generator…>");
            std::process::exit(2);
        }
    }
}
