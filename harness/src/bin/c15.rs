//! C15: compile the same source repeatedly in ONE process, each time after a different compilation history.
//! usage: c15 seq [--dump DIR] [--tag TAG] <item>...   where item = `T:<path>` (the target) or `H:<path>` (history)
//! Every `T:` item compiles the target and prints one line
//!   `@@R \t tag \t rep \t histlen \t status \t eqfirst \t nontrivial \t diag=<hash>:<len> \t bc=.. \t …`
//! `eqfirst` = `Program == first Program of this process` (structural `PartialEq`: includes ext_fun/type tables).
use mmh::detcomp::{compile_all, load};
use std::io::Write;

fn main() {
    let args: Vec<String> = std::env::args().skip(1).collect();
    if args.first().map(|s| s.as_str()) == Some("interner") {
        // model correspondence: schedules on stdin, logical threads executed in the listed order
        let unit = mmh::internops::unit_node();
        let base = mmh::internops::raw(&unit);
        let nsyms = mimium_lang::interner::with_session_globals(|g| g.symbol_interner.len());
        println!("BASE\t{base}\t{nsyms}");
        let mut line = String::new();
        while std::io::stdin().read_line(&mut line).unwrap_or(0) > 0 {
            let l = line.trim_end_matches('\n');
            match mmh::internops::parse_line(l) {
                Some(ops) => {
                    let ths = mmh::internops::run_sequential(&ops, unit);
                    println!("{}", ths.iter().map(|t| t.show()).collect::<Vec<_>>().join("\t"));
                }
                None => println!("bad-input"),
            }
            line.clear();
        }
        return;
    }
    if args.first().map(|s| s.as_str()) != Some("seq") {
        eprintln!("usage: c15 seq [--dump DIR] [--tag TAG] [--n N] T:<path>|H:<path> ...");
        std::process::exit(2);
    }
    std::panic::set_hook(Box::new(|_| {}));
    let (mut dump, mut tag, mut n) = (None, "p".to_string(), 32usize);
    let mut items = vec![];
    let mut i = 1;
    while i < args.len() {
        match args[i].as_str() {
            "--dump" => { dump = Some(args[i + 1].clone()); i += 2; }
            "--tag" => { tag = args[i + 1].clone(); i += 2; }
            "--n" => { n = args[i + 1].parse().unwrap(); i += 2; }
            _ => { items.push(args[i].clone()); i += 1; }
        }
    }
    let out = std::io::stdout();
    let mut out = out.lock();
    let mut first: Option<Option<mimium_lang::runtime::vm::Program>> = None;
    let (mut rep, mut hist) = (0, 0);
    for it in items {
        let (kind, path) = it.split_at(2);
        let Some(src) = load(path) else {
            writeln!(out, "\n@@X\t{tag}\tcannot read {path}").unwrap();
            continue;
        };
        let art = compile_all(&src, Some(std::path::PathBuf::from(path)), n);
        if kind == "H:" {
            hist += 1;
            continue;
        }
        let eq = match &first {
            None => { first = Some(art.prog.clone()); "1" }
            Some(p) => {
                let a = art.prog.clone();
                let p = p.clone();
                match std::panic::catch_unwind(move || p == a) { Ok(true) => "1", Ok(false) => "0", Err(_) => "P" }
            }
        };
        if let Some(d) = &dump {
            art.dump(d, &format!("{tag}.{rep}"));
        }
        writeln!(out, "\n@@R\t{tag}\t{rep}\t{hist}\t{}\t{eq}\t{}\t{}", art.status, art.nontrivial() as u8, art.digest()).unwrap();
        rep += 1;
        hist += 1;
    }
}
