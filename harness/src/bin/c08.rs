//! C08: run the real `state-tree` crate on pairs of layouts.
//! Output line: `old \t new \t patches \t applied`
//!   patches = `-` when the plan is None (identical layouts), else sorted `src:dst:size` joined by `,` (empty plan = `.`)
//!   applied = result of apply_state_storage_patch_plan on tagged old storage (word i = i+1), `,`-joined, `.` if empty,
//!             `=` when plan is None (plain copy), `PANIC` if the crate panicked.
use mmh::rng::Rng;
use mmh::sk::{self, Sk};
use std::io::Write;

pub fn leaves() -> Vec<Sk> {
    vec![
        Sk::Mem(1),
        Sk::Feed(1),
        Sk::Feed(2),
        Sk::Delay { len: 1 },
        Sk::Delay { len: 2 },
    ]
}

/// all forests (child lists) with exactly `n` nodes in total
fn forests(n: usize, trees: &Vec<Vec<Sk>>, memo: &mut Vec<Option<Vec<Vec<Sk>>>>) -> Vec<Vec<Sk>> {
    if let Some(v) = &memo[n] {
        return v.clone();
    }
    let mut out = vec![];
    if n == 0 {
        out.push(vec![]);
    } else {
        for first in 1..=n {
            let rest = forests(n - first, trees, memo);
            for t in &trees[first] {
                for r in &rest {
                    let mut v = vec![t.clone()];
                    v.extend(r.iter().cloned());
                    out.push(v);
                }
            }
        }
    }
    memo[n] = Some(out.clone());
    out
}

pub fn all_trees(max_nodes: usize) -> Vec<Sk> {
    // trees[k] = all trees with exactly k nodes
    let mut trees: Vec<Vec<Sk>> = vec![vec![]; max_nodes + 1];
    for k in 1..=max_nodes {
        let mut v = vec![];
        if k == 1 {
            v.extend(leaves());
        }
        let mut memo = vec![None; k];
        for f in forests(k - 1, &trees, &mut memo) {
            v.push(Sk::FnCall(f.into_iter().map(Box::new).collect()));
        }
        trees[k] = v;
    }
    trees.into_iter().flatten().collect()
}

pub fn run_pair(old: &Sk, new: &Sk) -> (String, String) {
    let o = old.clone();
    let n = new.clone();
    let r = std::panic::catch_unwind(move || {
        let osz = o.total_size() as usize;
        let storage: Vec<u64> = (0..osz as u64).map(|i| i + 1).collect();
        match state_tree::build_state_storage_patch_plan(o, n) {
            None => ("-".to_string(), "=".to_string()),
            Some(plan) => {
                let mut ps: Vec<(usize, usize, usize)> =
                    plan.patches.iter().map(|p| (p.src_addr, p.dst_addr, p.size)).collect();
                ps.sort();
                let pstr = if ps.is_empty() {
                    ".".to_string()
                } else {
                    ps.iter().map(|(a, b, c)| format!("{a}:{b}:{c}")).collect::<Vec<_>>().join(",")
                };
                let plan2 = plan.clone();
                let applied = std::panic::catch_unwind(move || {
                    state_tree::apply_state_storage_patch_plan(&storage, &plan2)
                });
                let astr = match applied {
                    Ok(v) if v.is_empty() => ".".to_string(),
                    Ok(v) => v.iter().map(|w| w.to_string()).collect::<Vec<_>>().join(","),
                    Err(_) => "PANIC".to_string(),
                };
                (pstr, astr)
            }
        }
    });
    match r {
        Ok(x) => x,
        Err(_) => ("PANIC".to_string(), "PANIC".to_string()),
    }
}

fn emit(out: &mut impl Write, old: &Sk, new: &Sk) {
    let (p, a) = run_pair(old, new);
    writeln!(out, "{}\t{}\t{}\t{}", sk::show(old), sk::show(new), p, a).unwrap();
}

fn rand_leaf(r: &mut Rng) -> Sk {
    let sz = match r.below(10) {
        0 => 0,
        1..=5 => 1,
        6..=7 => 2,
        8 => 3,
        _ => 1 + r.below(6),
    };
    match r.below(3) {
        0 => Sk::Mem(sz),
        1 => Sk::Feed(sz),
        _ => Sk::Delay { len: sz },
    }
}

pub fn rand_tree(r: &mut Rng, budget: usize, depth: usize) -> Sk {
    if budget <= 1 || depth == 0 || r.below(3) == 0 {
        return rand_leaf(r);
    }
    let k = r.below(5) as usize; // 0..4 children
    let mut cs = vec![];
    let mut left = budget - 1;
    for _ in 0..k {
        if left == 0 {
            break;
        }
        let b = 1 + r.below(left as u64) as usize;
        let c = rand_tree(r, b, depth - 1);
        left = left.saturating_sub(count(&c));
        cs.push(Box::new(c));
    }
    Sk::FnCall(cs)
}

pub fn count(s: &Sk) -> usize {
    match s {
        Sk::FnCall(cs) => 1 + cs.iter().map(|c| count(c)).sum::<usize>(),
        _ => 1,
    }
}

/// one random edit somewhere in the tree
pub fn edit(r: &mut Rng, s: &Sk, depth: usize) -> Sk {
    match s {
        Sk::FnCall(cs) if !cs.is_empty() && r.below(3) != 0 => {
            // descend or edit the child list
            let mut cs2: Vec<Box<Sk>> = cs.clone();
            match r.below(6) {
                0 => {
                    let i = r.below(cs2.len() as u64) as usize;
                    cs2.remove(i);
                }
                1 => {
                    let i = r.below(cs2.len() as u64 + 1) as usize;
                    cs2.insert(i, Box::new(rand_tree(r, 4, 2)));
                }
                2 => {
                    // duplicate a sibling somewhere
                    let i = r.below(cs2.len() as u64) as usize;
                    let j = r.below(cs2.len() as u64 + 1) as usize;
                    let c = cs2[i].clone();
                    cs2.insert(j, c);
                }
                _ => {
                    let i = r.below(cs2.len() as u64) as usize;
                    let c = edit(r, &cs2[i], depth + 1);
                    cs2[i] = Box::new(c);
                }
            }
            Sk::FnCall(cs2)
        }
        _ => match r.below(4) {
            0 => Sk::FnCall(vec![Box::new(s.clone())]),
            1 => rand_tree(r, 4, 2),
            2 => Sk::FnCall(vec![Box::new(s.clone()), Box::new(rand_leaf(r))]),
            _ => rand_leaf(r),
        },
    }
}

fn main() {
    let args: Vec<String> = std::env::args().skip(1).collect();
    let args = &args[..];
    let stdout = std::io::stdout();
    let mut out = std::io::BufWriter::new(stdout.lock());
    std::panic::set_hook(Box::new(|_| {}));
    match args[0].as_str() {
        "enum" => {
            let max: usize = args[1].parse().unwrap();
            // optional sharding: shard k of n
            let (k, n): (usize, usize) = if args.len() >= 4 {
                (args[2].parse().unwrap(), args[3].parse().unwrap())
            } else {
                (0, 1)
            };
            let ts = all_trees(max);
            for (i, o) in ts.iter().enumerate() {
                if i % n != k {
                    continue;
                }
                for nw in &ts {
                    emit(&mut out, o, nw);
                }
            }
        }
        "rand" => {
            let seed: u64 = args[1].parse().unwrap();
            let cnt: usize = args[2].parse().unwrap();
            let maxn: usize = args[3].parse().unwrap();
            let mut r = Rng::new(seed);
            for _ in 0..cnt {
                let b = 2 + r.below(maxn as u64 - 1) as usize;
                let old = rand_tree(&mut r, b, 5);
                let mut new = old.clone();
                let ne = r.below(5);
                for _ in 0..ne {
                    new = edit(&mut r, &new, 0);
                }
                emit(&mut out, &old, &new);
            }
        }
        "pairs" => {
            // read `old \t new` lines from stdin (corpus / replay)
            let mut s = String::new();
            std::io::Read::read_to_string(&mut std::io::stdin(), &mut s).unwrap();
            for line in s.lines() {
                let f: Vec<&str> = line.split('\t').collect();
                if f.len() < 2 {
                    continue;
                }
                if let (Some(o), Some(n)) = (sk::parse(f[0]), sk::parse(f[1])) {
                    emit(&mut out, &o, &n);
                }
            }
        }
        "count" => {
            let max: usize = args[1].parse().unwrap();
            println!("{}", all_trees(max).len());
        }
        _ => panic!("unknown c08 sub-mode"),
    }
}
