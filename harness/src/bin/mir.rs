//! mir: dump the MIR the real compiler produces (`Context::emit_mir`) as one S-expression per program, for the Lean
//! MIR semantics (`lean/Mimium/Model/Mir.lean`, reader `MirIO.lean`, driver `drv_mir`).
//! stdin: JSON lines {"id","src","scheduler":bool?,"path":str?}     (`--text` : one source on stdin, print `Display` of the MIR)
//! stdout: `id \t ok \t <sexpr>` | `id \t compile-error \t msg` | `id \t panic \t msg`
//!
//! (mir <globals-words> (fn <idx> <label> <upper|-> (args n..) (ups opd..) <skeleton> <nregs> <nret> (b ins..) ..) ..)
//! Registers are renumbered per function: argument i -> i, then every destination register in block / instruction
//! order; an operand naming a register the function never defines is `r999999` (undefined in the semantics).
//! Types are reduced to word sizes (`TypeNodeId::word_size`), `GetElement` to (word offset, element words).
//! Operands: r<N> register | f<N> function | x<name> external function | - none | ? anything else.
use mimium_lang::interner::TypeNodeId;
use mimium_lang::mir::{Function, Instruction as I, Mir, Value};
use mimium_lang::types::Type;
use mimium_lang::{Config, ExecContext};
use mmh::runner::panic_msg;
use mmh::sk;
use std::collections::HashMap;
use std::io::{BufRead, Read, Write};
use std::path::PathBuf;
use std::sync::Arc;

const UNDEF: u64 = 999_999;

struct Globals(Vec<(Arc<Value>, u64)>, u64);
impl Globals {
    fn get(&mut self, v: &Arc<Value>, size: u64) -> u64 {
        if let Some((_, off)) = self.0.iter().find(|(k, _)| k == v) {
            return *off;
        }
        let off = self.1;
        self.0.push((v.clone(), off));
        self.1 += size;
        off
    }
}

fn ws(t: &TypeNodeId) -> u64 {
    t.word_size() as u64
}

fn sanitize(s: &str) -> String {
    let t: String = s.chars().map(|c| if c.is_ascii_alphanumeric() || c == '_' || c == '$' || c == '.' { c } else { '_' }).collect();
    if t.is_empty() { "_".into() } else { t }
}

type RegMap = HashMap<u64, u64>;

fn regmap(f: &Function) -> (RegMap, u64) {
    let mut m = RegMap::new();
    let mut next = f.args.len() as u64;
    for b in &f.body {
        for (dst, _) in &b.0 {
            if let Value::Register(r) = dst.as_ref() {
                m.entry(*r).or_insert_with(|| {
                    let n = next;
                    next += 1;
                    n
                });
            }
        }
    }
    (m, next)
}

fn opd(m: &RegMap, v: &Value) -> String {
    match v {
        Value::Register(r) => format!("r{}", m.get(r).copied().unwrap_or(UNDEF)),
        Value::Argument(i) => format!("r{i}"),
        Value::Function(i) => format!("f{i}"),
        Value::ExtFunction(name, _) => format!("x{}", sanitize(name.as_str())),
        Value::None => "-".into(),
        Value::UpValue(i) => format!("u{i}"),
        other => { if std::env::var("MIR_DEBUG").is_ok() { eprintln!("opd other: {other:?}"); } "?".into() }
    }
}

fn args_sx(m: &RegMap, args: &[(Arc<Value>, TypeNodeId)]) -> String {
    args.iter().map(|(a, t)| format!(" ({} {})", opd(m, a), ws(t))).collect()
}

struct Dumper<'a> {
    m: &'a RegMap,
    next: u64,
    globals: &'a mut Globals,
}

impl Dumper<'_> {
    /// destination register number (a fresh one when the instruction has no register destination)
    fn d(&mut self, dst: &Value) -> u64 {
        match dst {
            Value::Register(r) => self.m.get(r).copied().unwrap_or(UNDEF),
            _ => {
                let n = self.next;
                self.next += 1;
                n
            }
        }
    }
    fn o(&self, v: &Value) -> String {
        opd(self.m, v)
    }
    fn ins(&mut self, dst: &Value, ins: &I) -> String {
        let un = |s: &mut Self, op: &str, a: &Value| format!("(un {op} {} {})", s.d(dst), s.o(a));
        let bin = |s: &mut Self, op: &str, a: &Value, b: &Value| format!("(bin {op} {} {} {})", s.d(dst), s.o(a), s.o(b));
        match ins {
            I::Uinteger(u) => format!("(k {} {:016x})", self.d(dst), u),
            I::Integer(i) => format!("(k {} {:016x})", self.d(dst), *i as u64),
            I::Float(f) => format!("(k {} {:016x})", self.d(dst), f.to_bits()),
            I::String(_) => format!("(uns {} string)", self.d(dst)),
            I::Alloc(t) => format!("(al {} {})", self.d(dst), ws(t)),
            I::Load(p, t) => format!("(ld {} {} {})", self.d(dst), self.o(p), ws(t)),
            I::Store(p, s, t) => {
                if matches!(t.to_type(), Type::Function { .. })
                    && let Value::Function(i) = s.as_ref()
                {
                    format!("(stf {} {i})", self.o(p))
                } else {
                    format!("(st {} {} {})", self.o(p), self.o(s), ws(t))
                }
            }
            I::GetElement { value, ty, tuple_offset } => {
                let elems: Option<Vec<TypeNodeId>> = match ty.to_type() {
                    Type::Tuple(es) => Some(es),
                    Type::Record(fs) => Some(fs.iter().map(|f| f.ty).collect()),
                    _ => None,
                };
                match elems {
                    Some(es) if (*tuple_offset as usize) < es.len() => {
                        let off: u64 = es[..*tuple_offset as usize].iter().map(ws).sum();
                        format!("(ge {} {} {off} {})", self.d(dst), self.o(value), ws(&es[*tuple_offset as usize]))
                    }
                    _ => format!("(uns {} getelement-on-non-aggregate)", self.d(dst)),
                }
            }
            I::Call(f, args, rt) => format!("(call {} {} {}{})", self.d(dst), self.o(f), ws(rt), args_sx(self.m, args)),
            I::CallCls(f, args, rt) | I::CallIndirect(f, args, rt) => {
                format!("(calli {} {} {}{})", self.d(dst), self.o(f), ws(rt), args_sx(self.m, args))
            }
            I::GetGlobal(g, t) => {
                let gid = self.globals.get(g, ws(t));
                format!("(gg {} {gid} {})", self.d(dst), ws(t))
            }
            I::SetGlobal(g, s, t) => {
                let gid = self.globals.get(g, ws(t));
                if matches!(t.to_type(), Type::Function { .. })
                    && let Value::Function(i) = s.as_ref()
                {
                    format!("(sgf {gid} {i})")
                } else {
                    format!("(sg {gid} {} {})", self.o(s), ws(t))
                }
            }
            I::Closure(f) | I::MakeClosure { fn_proto: f, .. } => format!("(mkclo {} {})", self.d(dst), self.o(f)),
            I::CloseUpValues(s, t) => {
                let mut off = 0u64;
                let mut offs = String::new();
                for e in t.flatten() {
                    if e.to_type().is_function() {
                        offs.push_str(&format!(" {off}"));
                    }
                    off += ws(&e);
                }
                format!("(closeup {}{offs})", self.o(s))
            }
            I::CloseHeapClosure(s) => format!("(closeh {})", self.o(s)),
            I::CloneHeap(s) => format!("(cloneh {})", self.o(s)),
            I::GetUpValue(i, t) => format!("(gu {} {i} {})", self.d(dst), ws(t)),
            I::SetUpValue(i, s, t) => format!("(su {i} {} {})", self.o(s), ws(t)),
            I::PushStateOffset(k) => format!("(push {k})"),
            I::PopStateOffset(k) => format!("(pop {k})"),
            I::GetState(t) => format!("(gs {} {})", self.d(dst), ws(t)),
            I::JmpIf(c, t, e, m) => format!("(jif {} {t} {e} {m})", self.o(c)),
            I::Jmp(off) => format!("(jmp {off})"),
            I::Phi(l, r) => format!("(phi {} {} {})", self.d(dst), self.o(l), self.o(r)),
            I::Switch { scrutinee, cases, default_block, merge_block } => {
                let cs: String = cases.iter().map(|(l, b)| format!(" ({l} {b})")).collect();
                let d = default_block.map(|d| d.to_string()).unwrap_or("-".into());
                format!("(sw {} {merge_block} {d}{cs})", self.o(scrutinee))
            }
            I::PhiSwitch(vs) => {
                let os: String = vs.iter().map(|v| format!(" {}", self.o(v))).collect();
                format!("(phis {}{os})", self.d(dst))
            }
            I::TaggedUnionWrap { tag, value, union_type } => {
                let total = ws(union_type);
                let payload = match union_type.to_type() {
                    Type::Union(vs) => vs.get(*tag as usize).map(ws).unwrap_or(0),
                    Type::UserSum { variants, .. } => variants.get(*tag as usize).and_then(|(_, p)| *p).map(|p| ws(&p)).unwrap_or(0),
                    _ => 0,
                };
                format!("(uw {} {tag} {} {total} {payload})", self.d(dst), self.o(value))
            }
            I::TaggedUnionGetTag(v) => format!("(ut {} {})", self.d(dst), self.o(v)),
            I::TaggedUnionGetValue(v, t) => format!("(uv {} {} {})", self.d(dst), self.o(v), ws(t)),
            I::CloneUserSum { .. } | I::ReleaseUserSum { .. } => "(nop)".into(),
            I::Return(v, t) => format!("(ret {} {})", self.o(v), ws(t)),
            I::ReturnFeed(v, t) => format!("(rf {} {})", self.o(v), ws(t)),
            I::Delay(len, a, b) => format!("(dl {} {len} {} {})", self.d(dst), self.o(a), self.o(b)),
            I::Mem(a) => format!("(mem {} {})", self.d(dst), self.o(a)),
            I::AddF(a, b) => bin(self, "addf", a, b),
            I::SubF(a, b) => bin(self, "subf", a, b),
            I::MulF(a, b) => bin(self, "mulf", a, b),
            I::DivF(a, b) => bin(self, "divf", a, b),
            I::ModF(a, b) => bin(self, "modf", a, b),
            I::PowF(a, b) => bin(self, "powf", a, b),
            I::NegF(a) => un(self, "negf", a),
            I::AbsF(a) => un(self, "absf", a),
            I::SinF(a) => un(self, "sinf", a),
            I::CosF(a) => un(self, "cosf", a),
            I::LogF(a) => un(self, "logf", a),
            I::SqrtF(a) => un(self, "sqrtf", a),
            I::AddI(a, b) => bin(self, "addi", a, b),
            I::SubI(a, b) => bin(self, "subi", a, b),
            I::MulI(a, b) => bin(self, "muli", a, b),
            I::DivI(a, b) => bin(self, "divi", a, b),
            I::ModI(a, b) => bin(self, "modi", a, b),
            I::NegI(a) => un(self, "negi", a),
            I::AbsI(a) => un(self, "absi", a),
            I::Not(a) => un(self, "not", a),
            I::Eq(a, b) => bin(self, "eq", a, b),
            I::Ne(a, b) => bin(self, "ne", a, b),
            I::Gt(a, b) => bin(self, "gt", a, b),
            I::Ge(a, b) => bin(self, "ge", a, b),
            I::Lt(a, b) => bin(self, "lt", a, b),
            I::Le(a, b) => bin(self, "le", a, b),
            I::And(a, b) => bin(self, "and", a, b),
            I::Or(a, b) => bin(self, "or", a, b),
            I::CastFtoI(a) => un(self, "ftoi", a),
            I::CastItoF(a) => un(self, "itof", a),
            I::CastItoB(a) => un(self, "itob", a),
            I::PowI(_) => format!("(uns {} powi)", self.d(dst)),
            I::LogI(..) => format!("(uns {} logi)", self.d(dst)),
            I::Array(..) | I::GetArrayElem(..) | I::SetArrayElem(..) => format!("(uns {} array)", self.d(dst)),
            I::BoxAlloc { .. } | I::BoxLoad { .. } | I::BoxStore { .. } => format!("(uns {} box)", self.d(dst)),
            I::BoxClone { .. } | I::BoxRelease { .. } => "(nop)".into(),
            I::Error => format!("(uns {} error)", self.d(dst)),
        }
    }
}

pub fn dump(mir: &Mir) -> String {
    let maps: Vec<(RegMap, u64)> = mir.functions.iter().map(regmap).collect();
    let mut globals = Globals(vec![], 0);
    let mut fns = String::new();
    for (fi, f) in mir.functions.iter().enumerate() {
        let (m, next) = &maps[fi];
        let mut d = Dumper { m, next: *next, globals: &mut globals };
        let blocks: String = f
            .body
            .iter()
            .map(|b| {
                let is: Vec<String> = b.0.iter().map(|(dst, i)| d.ins(dst, i)).collect();
                format!(" (b {})", is.join(" "))
            })
            .collect();
        let nregs = d.next;
        let args: Vec<String> = f.args.iter().map(|a| ws(&a.1).to_string()).collect();
        let empty = RegMap::new();
        let pm = f.upperfn_i.and_then(|u| maps.get(u)).map(|p| &p.0).unwrap_or(&empty);
        // (an entry that is the creator's own upvalue — `Value::UpValue(i)`, /repo 89c075d — is dumped as `u<i>`)
        let ups: Vec<String> = f.upindexes.iter().map(|u| opd(pm, &u.0)).collect();
        let upper = f.upperfn_i.map(|u| u.to_string()).unwrap_or("-".into());
        let nret = f.return_type.get().map(|t| ws(t).to_string()).unwrap_or("-".into());
        fns.push_str(&format!(
            " (fn {fi} {} {upper} (args {}) (ups {}) {} {nregs} {nret}{blocks})",
            sanitize(f.label.as_str()),
            args.join(" "),
            ups.join(" "),
            sk::show(&sk::to_u64(&f.state_skeleton)),
        ));
    }
    format!("(mir {}{fns})", globals.1)
}

fn compile(src: &str, scheduler: bool, path: Option<PathBuf>) -> Result<Mir, String> {
    let mut ctx = ExecContext::new([].into_iter(), path, Config::default());
    if scheduler {
        ctx.add_system_plugin(mimium_scheduler::get_default_scheduler_plugin());
    }
    ctx.prepare_compiler();
    let compiler = ctx.get_compiler().expect("compiler");
    compiler.emit_mir(src).map_err(|es| es.iter().map(|e| e.get_message()).collect::<Vec<_>>().join(" | ").replace(['\n', '\t'], " "))
}

fn main() {
    if std::env::args().any(|a| a == "--text" || a == "--sx") {
        let sx = std::env::args().any(|a| a == "--sx");
        let mut src = String::new();
        std::io::stdin().read_to_string(&mut src).unwrap();
        match compile(&src, false, None) {
            Ok(mir) => {
                if sx {
                    println!("{}", dump(&mir))
                } else {
                    println!("{mir}")
                }
            }
            Err(e) => println!("compile-error {e}"),
        }
        return;
    }
    std::panic::set_hook(Box::new(|_| {}));
    let stdin = std::io::stdin();
    let stdout = std::io::stdout();
    let mut out = std::io::BufWriter::new(stdout.lock());
    for line in stdin.lock().lines() {
        let line = line.unwrap();
        if line.trim().is_empty() {
            continue;
        }
        let v: serde_json::Value = match serde_json::from_str(&line) {
            Ok(v) => v,
            Err(e) => {
                writeln!(out, "?\tbad-json\t{e}").unwrap();
                continue;
            }
        };
        let id = v["id"].as_str().map(|s| s.to_string()).unwrap_or_else(|| v["id"].to_string());
        let src = v["src"].as_str().unwrap_or("").to_string();
        let scheduler = v["scheduler"].as_bool().unwrap_or(false);
        let path = v["path"].as_str().map(PathBuf::from);
        let r = std::panic::catch_unwind(std::panic::AssertUnwindSafe(|| compile(&src, scheduler, path).map(|m| dump(&m))));
        match r {
            Ok(Ok(sx)) => writeln!(out, "{id}\tok\t{sx}").unwrap(),
            Ok(Err(e)) => writeln!(out, "{id}\tcompile-error\t{e}").unwrap(),
            Err(p) => writeln!(out, "{id}\tpanic\t{}", panic_msg(p).replace(['\n', '\t'], " ")).unwrap(),
        }
        out.flush().unwrap();
    }
}
