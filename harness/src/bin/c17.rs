//! C17: compile module-tree sources with the real compiler and run one sample.
//! stdin : one case per line, a JSON string holding the mimium source text.
//! stdout: one line per case  `class \t value \t messages`
//!   class  = ok | private | unresolved | other | panic
//!            private    : some diagnostic is a PrivateMemberAccess ("... is private")
//!            unresolved : (else) some diagnostic is VariableNotFound ("... not found in this scope")
//!            other      : any other compile error (e.g. external module file not found)
//!   value  = for `ok`: the first sample of `dsp` printed as an integer when integral (else the f64), `-` otherwise
//!   messages = `|`-joined diagnostics (informative only; not compared)
use mimium_lang::{Config, ExecContext};
use std::io::{BufRead, Write};

fn run_case(src: &str) -> (String, String, String) {
    let src = src.to_string();
    let r = std::panic::catch_unwind(move || {
        let mut ctx = ExecContext::new([].into_iter(), None, Config::default());
        match ctx.prepare_machine(&src) {
            Err(errs) => {
                let msgs: Vec<String> = errs.iter().map(|e| e.get_message().replace(['\n', '\t'], " ")).collect();
                let class = if msgs.iter().any(|m| m.contains("is private")) {
                    "private"
                } else if msgs.iter().any(|m| m.contains("not found in this scope")) {
                    "unresolved"
                } else {
                    "other"
                };
                (class.to_string(), "-".to_string(), msgs.join("|"))
            }
            Ok(()) => {
                let bytecode = ctx.take_vm().unwrap().prog;
                let mut ctx2 = ExecContext::new([].into_iter(), None, Config::default());
                ctx2.prepare_machine_with_bytecode(bytecode);
                let machine = ctx2.get_vm_mut().unwrap();
                let _ = machine.execute_main();
                match mimium_test::run_bytecode_test(machine, 1) {
                    Ok(v) => {
                        let x = v[0];
                        let s = if x.fract() == 0.0 && x.abs() < 1e15 { format!("{}", x as i64) } else { format!("{x:?}") };
                        ("ok".to_string(), s, String::new())
                    }
                    Err(_) => ("other".to_string(), "-".to_string(), "runtime error".to_string()),
                }
            }
        }
    });
    match r {
        Ok(t) => t,
        Err(e) => {
            let m = e.downcast_ref::<String>().cloned().or_else(|| e.downcast_ref::<&str>().map(|s| s.to_string())).unwrap_or_default();
            ("panic".to_string(), "-".to_string(), m.replace(['\n', '\t'], " "))
        }
    }
}

fn main() {
    std::panic::set_hook(Box::new(|_| {}));
    let stdin = std::io::stdin();
    let stdout = std::io::stdout();
    let mut out = std::io::BufWriter::new(stdout.lock());
    for line in stdin.lock().lines() {
        let line = line.unwrap();
        if line.trim().is_empty() {
            continue;
        }
        let src: String = match serde_json::from_str(&line) {
            Ok(s) => s,
            Err(_) => {
                writeln!(out, "other\t-\tbad-json").unwrap();
                continue;
            }
        };
        let (c, v, m) = run_case(&src);
        writeln!(out, "{c}\t{v}\t{m}").unwrap();
    }
}
