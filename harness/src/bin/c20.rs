//! C20: run the real plugin-FFI encoding (`runtime/ffi_serde.rs`, hand-written serde impls of `Type`/`Value`, bincode,
//! slotmap key serde) on generated values / types / byte streams.  One output line per case, TAB separated:
//!   V  <value>            <ser: hex | ERR:msg>   <back: value | ERR | ->      serialize_value / deserialize_value
//!   M  <args>             <ser>                  <back: args | ERR | ->       serialize_macro_args / deserialize_macro_args
//!   B  <hex>              <deserialize_value(hex): value | ERR>
//!   A  <hex>              <deserialize_macro_args(hex): args | ERR>
//!   T  <type>             <ser: hex | ERR:msg>   <back: type | ERR | ->       bincode::serialize(&Type) / deserialize::<Type>
//!   Y  <hex>              <bincode::deserialize::<Type>(hex): type | ERR>
//!   W  <value>            <ser: hex | ERR:msg>   <back: value | ERR | ->       bincode::serialize(&Value) (hand-written impl)
//!   Z  <hex>              <bincode::deserialize::<Value>(hex): value | ERR>
//! `PANIC` replaces a result when the real code panicked.
//! Text form of values: see `show_value` (numbers = 16 hex digits of the bits, strings = hex of UTF-8, keys = 16 hex
//! digits of `KeyData::as_ffi`).
use mimium_lang::interner::{ExprKey, ExprNodeId, Symbol, ToSymbol, TypeKey, TypeNodeId};
use mimium_lang::interpreter::{ExtFunction, Value};
use mimium_lang::runtime::ffi_serde::{
    deserialize_macro_args, deserialize_value, serialize_macro_args, serialize_value,
};
use mimium_lang::types::{IntermediateId, PType, RecordTypeField, Type, TypeSchemeId, TypeVar};
use mimium_lang::utils::environment::Environment;
use mmh::rng::Rng;
use slotmap::{Key, KeyData};
use std::io::Write;
use std::sync::{Arc, RwLock};

// ---------------------------------------------------------------------------------------------
// mirror tree of `Value` (plain data, clonable, strings not yet interned)

#[derive(Clone, Debug)]
enum V {
    ErrorV(u64),
    Unit,
    Number(u64),
    Str(String),
    Array(Vec<V>),
    Record(Vec<(String, V)>),
    Tuple(Vec<V>),
    Closure,
    Fixpoint(String, u64),
    Code(u64),
    ExternalFn(String),
    Store(Box<V>),
    Tagged(u64, Box<V>),
    CtorFn(u64, String, u64),
}

fn ekey(k: u64) -> ExprNodeId {
    ExprNodeId(ExprKey::from(KeyData::from_ffi(k)))
}
fn tkey(k: u64) -> TypeNodeId {
    TypeNodeId(TypeKey::from(KeyData::from_ffi(k)))
}

fn to_real(v: &V) -> Value {
    match v {
        V::ErrorV(k) => Value::ErrorV(ekey(*k)),
        V::Unit => Value::Unit,
        V::Number(b) => Value::Number(f64::from_bits(*b)),
        V::Str(s) => Value::String(s.to_symbol()),
        V::Array(vs) => Value::Array(vs.iter().map(to_real).collect()),
        V::Record(fs) => Value::Record(fs.iter().map(|(k, v)| (k.to_symbol(), to_real(v))).collect()),
        V::Tuple(vs) => Value::Tuple(vs.iter().map(to_real).collect()),
        V::Closure => Value::Closure(ekey(1 << 32), vec![], Environment::new()),
        V::Fixpoint(s, k) => Value::Fixpoint(s.to_symbol(), ekey(*k)),
        V::Code(k) => Value::Code(ekey(*k)),
        V::ExternalFn(s) => Value::ExternalFn(ExtFunction::new(s.to_symbol(), |_| Value::Unit)),
        V::Store(v) => Value::Store(std::rc::Rc::new(std::cell::RefCell::new(to_real(v)))),
        V::Tagged(t, v) => Value::TaggedUnion(*t, Box::new(to_real(v))),
        V::CtorFn(t, s, k) => Value::ConstructorFn(*t, s.to_symbol(), tkey(*k)),
    }
}

fn hex(bs: &[u8]) -> String {
    let mut s = String::with_capacity(bs.len() * 2);
    for b in bs {
        s.push_str(&format!("{b:02x}"));
    }
    s
}
fn unhex(s: &str) -> Option<Vec<u8>> {
    if s.len() % 2 != 0 {
        return None;
    }
    (0..s.len() / 2).map(|i| u8::from_str_radix(&s[2 * i..2 * i + 2], 16).ok()).collect()
}

fn show_v(v: &V, out: &mut String) {
    match v {
        V::ErrorV(k) => out.push_str(&format!("E{k:016x}")),
        V::Unit => out.push('U'),
        V::Number(b) => out.push_str(&format!("N{b:016x}")),
        V::Str(s) => out.push_str(&format!("S{}", hex(s.as_bytes()))),
        V::Array(vs) => show_list("(A", vs, out),
        V::Tuple(vs) => show_list("(T", vs, out),
        V::Record(fs) => {
            out.push_str("(R");
            for (k, v) in fs {
                out.push_str(&format!(" S{} ", hex(k.as_bytes())));
                show_v(v, out);
            }
            out.push_str(" )");
        }
        V::Closure => out.push('L'),
        V::Fixpoint(s, k) => out.push_str(&format!("F{}:{k:016x}", hex(s.as_bytes()))),
        V::Code(k) => out.push_str(&format!("C{k:016x}")),
        V::ExternalFn(s) => out.push_str(&format!("X{}", hex(s.as_bytes()))),
        V::Store(v) => {
            out.push_str("(O ");
            show_v(v, out);
            out.push_str(" )");
        }
        V::Tagged(t, v) => {
            out.push_str(&format!("(G{t:016x} "));
            show_v(v, out);
            out.push_str(" )");
        }
        V::CtorFn(t, s, k) => out.push_str(&format!("K{t:016x}:{}:{k:016x}", hex(s.as_bytes()))),
    }
}
fn show_list(head: &str, vs: &[V], out: &mut String) {
    out.push_str(head);
    for v in vs {
        out.push(' ');
        show_v(v, out);
    }
    out.push_str(" )");
}
fn showv(v: &V) -> String {
    let mut s = String::new();
    show_v(v, &mut s);
    s
}

/// dump of a real `Value` in the same text form
fn from_real(v: &Value) -> V {
    match v {
        Value::ErrorV(e) => V::ErrorV(e.0.data().as_ffi()),
        Value::Unit => V::Unit,
        Value::Number(n) => V::Number(n.to_bits()),
        Value::String(s) => V::Str(s.as_str().to_string()),
        Value::Array(vs) => V::Array(vs.iter().map(from_real).collect()),
        Value::Record(fs) => V::Record(fs.iter().map(|(k, v)| (k.as_str().to_string(), from_real(v))).collect()),
        Value::Tuple(vs) => V::Tuple(vs.iter().map(from_real).collect()),
        Value::Closure(..) => V::Closure,
        Value::Fixpoint(s, e) => V::Fixpoint(s.as_str().to_string(), e.0.data().as_ffi()),
        Value::Code(e) => V::Code(e.0.data().as_ffi()),
        Value::ExternalFn(_) => V::ExternalFn(String::new()),
        Value::Store(v) => V::Store(Box::new(from_real(&v.borrow()))),
        Value::TaggedUnion(t, v) => V::Tagged(*t, Box::new(from_real(v))),
        Value::ConstructorFn(t, s, k) => V::CtorFn(*t, s.as_str().to_string(), k.0.data().as_ffi()),
    }
}

// ---------------------------------------------------------------------------------------------
// parsing the text form (replay / corpus)

struct P<'a> {
    t: Vec<&'a str>,
    i: usize,
}
impl<'a> P<'a> {
    fn new(s: &'a str) -> Self {
        P { t: s.split(' ').filter(|x| !x.is_empty()).collect(), i: 0 }
    }
    fn next(&mut self) -> Option<&'a str> {
        let x = self.t.get(self.i).copied();
        self.i += 1;
        x
    }
    fn peek(&self) -> Option<&'a str> {
        self.t.get(self.i).copied()
    }
}
fn hstr(s: &str) -> Option<String> {
    String::from_utf8(unhex(s)?).ok()
}
fn h64(s: &str) -> Option<u64> {
    u64::from_str_radix(s, 16).ok()
}
fn parse_v(p: &mut P) -> Option<V> {
    let t = p.next()?;
    let (h, r) = t.split_at(1);
    Some(match h {
        "E" => V::ErrorV(h64(r)?),
        "U" => V::Unit,
        "N" => V::Number(h64(r)?),
        "S" => V::Str(hstr(r)?),
        "C" => V::Code(h64(r)?),
        "L" => V::Closure,
        "X" => V::ExternalFn(hstr(r)?),
        "F" => {
            let (a, b) = r.split_once(':')?;
            V::Fixpoint(hstr(a)?, h64(b)?)
        }
        "K" => {
            let f: Vec<&str> = r.split(':').collect();
            V::CtorFn(h64(f[0])?, hstr(f.get(1)?)?, h64(f.get(2)?)?)
        }
        "(" => {
            let (k, rest) = r.split_at(1);
            let mut items = vec![];
            match k {
                "R" => {
                    let mut fs = vec![];
                    while p.peek()? != ")" {
                        let key = p.next()?;
                        let key = hstr(key.strip_prefix('S')?)?;
                        fs.push((key, parse_v(p)?));
                    }
                    p.next();
                    return Some(V::Record(fs));
                }
                _ => {
                    while p.peek()? != ")" {
                        items.push(parse_v(p)?);
                    }
                    p.next();
                }
            }
            match k {
                "A" => V::Array(items),
                "T" => V::Tuple(items),
                "O" => V::Store(Box::new(items.pop()?)),
                "G" => V::Tagged(h64(rest)?, Box::new(items.pop()?)),
                _ => return None,
            }
        }
        _ => return None,
    })
}

fn parse_args(s: &str) -> Option<Vec<(V, u64)>> {
    let mut p = P::new(s);
    let mut out = vec![];
    while p.peek().is_some() {
        let v = parse_v(&mut p)?;
        let k = p.next()?.strip_prefix('@')?;
        out.push((v, h64(k)?));
    }
    Some(out)
}
fn show_args(a: &[(V, u64)]) -> String {
    if a.is_empty() {
        return ".".to_string();
    }
    a.iter().map(|(v, k)| format!("{} @{k:016x}", showv(v))).collect::<Vec<_>>().join(" ")
}

// ---------------------------------------------------------------------------------------------
// mirror of `Type`

#[derive(Clone, Debug)]
enum Ty {
    Primitive(u32),
    Array(u64),
    Tuple(Vec<u64>),
    Record(Vec<(u64, u64, bool)>),
    Function(u64, u64),
    Ref(u64),
    Code(u64),
    Union(Vec<u64>),
    UserSum(u64, Vec<(u64, Option<u64>)>),
    Boxed(u64),
    Intermediate,
    TypeScheme(u64),
    TypeAlias(u64),
    Any,
    Failure,
    Unknown,
}
fn ty_real(t: &Ty) -> Type {
    match t {
        Ty::Primitive(p) => Type::Primitive(match p {
            0 => PType::Unit,
            1 => PType::Int,
            2 => PType::Numeric,
            _ => PType::String,
        }),
        Ty::Array(k) => Type::Array(tkey(*k)),
        Ty::Tuple(v) => Type::Tuple(v.iter().map(|k| tkey(*k)).collect()),
        Ty::Record(v) => Type::Record(
            v.iter().map(|(s, k, d)| RecordTypeField::new(Symbol(*s as usize), tkey(*k), *d)).collect(),
        ),
        Ty::Function(a, r) => Type::Function { arg: tkey(*a), ret: tkey(*r) },
        Ty::Ref(k) => Type::Ref(tkey(*k)),
        Ty::Code(k) => Type::Code(tkey(*k)),
        Ty::Union(v) => Type::Union(v.iter().map(|k| tkey(*k)).collect()),
        Ty::UserSum(n, v) => Type::UserSum {
            name: Symbol(*n as usize),
            variants: v.iter().map(|(s, k)| (Symbol(*s as usize), k.map(tkey))).collect(),
        },
        Ty::Boxed(k) => Type::Boxed(tkey(*k)),
        Ty::Intermediate => Type::Intermediate(Arc::new(RwLock::new(TypeVar::new(IntermediateId(0), 0)))),
        Ty::TypeScheme(n) => Type::TypeScheme(TypeSchemeId(*n)),
        Ty::TypeAlias(s) => Type::TypeAlias(Symbol(*s as usize)),
        Ty::Any => Type::Any,
        Ty::Failure => Type::Failure,
        Ty::Unknown => Type::Unknown,
    }
}
fn kf(k: &TypeNodeId) -> u64 {
    k.0.data().as_ffi()
}
fn ty_from(t: &Type) -> Ty {
    match t {
        Type::Primitive(p) => Ty::Primitive(match p {
            PType::Unit => 0,
            PType::Int => 1,
            PType::Numeric => 2,
            PType::String => 3,
        }),
        Type::Array(k) => Ty::Array(kf(k)),
        Type::Tuple(v) => Ty::Tuple(v.iter().map(kf).collect()),
        Type::Record(v) => Ty::Record(v.iter().map(|f| (f.key.0 as u64, kf(&f.ty), f.has_default)).collect()),
        Type::Function { arg, ret } => Ty::Function(kf(arg), kf(ret)),
        Type::Ref(k) => Ty::Ref(kf(k)),
        Type::Code(k) => Ty::Code(kf(k)),
        Type::Union(v) => Ty::Union(v.iter().map(kf).collect()),
        Type::UserSum { name, variants } => {
            Ty::UserSum(name.0 as u64, variants.iter().map(|(s, k)| (s.0 as u64, k.as_ref().map(kf))).collect())
        }
        Type::Boxed(k) => Ty::Boxed(kf(k)),
        Type::Intermediate(_) => Ty::Intermediate,
        Type::TypeScheme(n) => Ty::TypeScheme(n.0),
        Type::TypeAlias(s) => Ty::TypeAlias(s.0 as u64),
        Type::Any => Ty::Any,
        Type::Failure => Ty::Failure,
        Type::Unknown => Ty::Unknown,
    }
}
/// text: constructor name then space separated 16-hex words; lists are `[ .. ]`; record field = sym key bool(0/1);
/// UserSum variant = sym then `-` or key
fn show_ty(t: &Ty) -> String {
    let ks = |v: &Vec<u64>| v.iter().map(|k| format!("{k:016x} ")).collect::<String>();
    match t {
        Ty::Primitive(p) => format!("Primitive {p}"),
        Ty::Array(k) => format!("Array {k:016x}"),
        Ty::Tuple(v) => format!("Tuple [ {}]", ks(v)),
        Ty::Record(v) => format!(
            "Record [ {}]",
            v.iter().map(|(s, k, d)| format!("{s:016x} {k:016x} {} ", *d as u8)).collect::<String>()
        ),
        Ty::Function(a, r) => format!("Function {a:016x} {r:016x}"),
        Ty::Ref(k) => format!("Ref {k:016x}"),
        Ty::Code(k) => format!("Code {k:016x}"),
        Ty::Union(v) => format!("Union [ {}]", ks(v)),
        Ty::UserSum(n, v) => format!(
            "UserSum {n:016x} [ {}]",
            v.iter()
                .map(|(s, k)| format!("{s:016x} {} ", k.map(|k| format!("{k:016x}")).unwrap_or("-".to_string())))
                .collect::<String>()
        ),
        Ty::Boxed(k) => format!("Boxed {k:016x}"),
        Ty::Intermediate => "Intermediate".to_string(),
        Ty::TypeScheme(n) => format!("TypeScheme {n:016x}"),
        Ty::TypeAlias(s) => format!("TypeAlias {s:016x}"),
        Ty::Any => "Any".to_string(),
        Ty::Failure => "Failure".to_string(),
        Ty::Unknown => "Unknown".to_string(),
    }
}
fn parse_ty(s: &str) -> Option<Ty> {
    let t: Vec<&str> = s.split(' ').filter(|x| !x.is_empty()).collect();
    let list = |from: usize| -> Option<Vec<&str>> {
        if *t.get(from)? != "[" || *t.last()? != "]" {
            return None;
        }
        Some(t[from + 1..t.len() - 1].to_vec())
    };
    let keys = |from: usize| -> Option<Vec<u64>> { list(from)?.iter().map(|x| h64(x)).collect() };
    Some(match *t.first()? {
        "Primitive" => Ty::Primitive(t.get(1)?.parse().ok()?),
        "Array" => Ty::Array(h64(t.get(1)?)?),
        "Tuple" => Ty::Tuple(keys(1)?),
        "Record" => {
            let l = list(1)?;
            if l.len() % 3 != 0 {
                return None;
            }
            Ty::Record(
                l.chunks(3).map(|c| Some((h64(c[0])?, h64(c[1])?, c[2] == "1"))).collect::<Option<Vec<_>>>()?,
            )
        }
        "Function" => Ty::Function(h64(t.get(1)?)?, h64(t.get(2)?)?),
        "Ref" => Ty::Ref(h64(t.get(1)?)?),
        "Code" => Ty::Code(h64(t.get(1)?)?),
        "Union" => Ty::Union(keys(1)?),
        "UserSum" => {
            let l = list(2)?;
            if l.len() % 2 != 0 {
                return None;
            }
            Ty::UserSum(
                h64(t.get(1)?)?,
                l.chunks(2)
                    .map(|c| Some((h64(c[0])?, if c[1] == "-" { None } else { Some(h64(c[1])?) })))
                    .collect::<Option<Vec<_>>>()?,
            )
        }
        "Boxed" => Ty::Boxed(h64(t.get(1)?)?),
        "Intermediate" => Ty::Intermediate,
        "TypeScheme" => Ty::TypeScheme(h64(t.get(1)?)?),
        "TypeAlias" => Ty::TypeAlias(h64(t.get(1)?)?),
        "Any" => Ty::Any,
        "Failure" => Ty::Failure,
        "Unknown" => Ty::Unknown,
        _ => return None,
    })
}

// ---------------------------------------------------------------------------------------------
// running the real code

fn guard<F: FnOnce() -> String + std::panic::UnwindSafe>(f: F) -> String {
    std::panic::catch_unwind(f).unwrap_or_else(|_| "PANIC".to_string())
}

fn case_v(out: &mut impl Write, v: &V) {
    let text = showv(v);
    let vv = v.clone();
    let r = std::panic::catch_unwind(move || {
        let real = to_real(&vv);
        match serialize_value(&real) {
            Err(e) => (format!("ERR:{e}"), "-".to_string()),
            Ok(bytes) => {
                let back = match deserialize_value(&bytes) {
                    Ok(b) => showv(&from_real(&b)),
                    Err(_) => "ERR".to_string(),
                };
                (hex(&bytes), back)
            }
        }
    });
    let (ser, back) = r.unwrap_or_else(|_| ("PANIC".to_string(), "PANIC".to_string()));
    writeln!(out, "V\t{text}\t{ser}\t{back}").unwrap();
}

fn case_w(out: &mut impl Write, v: &V) {
    // hand-written `Serialize for Value` writes raw symbol ids: the case is printed with symbols as `#id`
    let real = to_real(v);
    let text = show_raw(&real);
    let r = std::panic::catch_unwind(std::panic::AssertUnwindSafe(move || {
        match bincode::serialize(&real) {
            Err(e) => (format!("ERR:{e}"), "-".to_string()),
            Ok(bytes) => {
                let back = match bincode::deserialize::<Value>(&bytes) {
                    Ok(b) => show_raw(&b),
                    Err(_) => "ERR".to_string(),
                };
                (hex(&bytes), back)
            }
        }
    }));
    let (ser, back) = r.unwrap_or_else(|_| ("PANIC".to_string(), "PANIC".to_string()));
    writeln!(out, "W\t{text}\t{ser}\t{back}").unwrap();
}

fn case_m(out: &mut impl Write, a: &[(V, u64)]) {
    let text = show_args(a);
    let aa = a.to_vec();
    let r = std::panic::catch_unwind(move || {
        let real: Vec<(Value, TypeNodeId)> = aa.iter().map(|(v, k)| (to_real(v), tkey(*k))).collect();
        match serialize_macro_args(&real) {
            Err(e) => (format!("ERR:{e}"), "-".to_string()),
            Ok(bytes) => {
                let back = match deserialize_macro_args(&bytes) {
                    Ok(b) => show_args(&b.iter().map(|(v, k)| (from_real(v), kf(k))).collect::<Vec<_>>()),
                    Err(_) => "ERR".to_string(),
                };
                (hex(&bytes), back)
            }
        }
    });
    let (ser, back) = r.unwrap_or_else(|_| ("PANIC".to_string(), "PANIC".to_string()));
    writeln!(out, "M\t{text}\t{ser}\t{back}").unwrap();
}

fn case_t(out: &mut impl Write, t: &Ty) {
    let text = show_ty(t);
    let tt = t.clone();
    let r = std::panic::catch_unwind(move || {
        let real = ty_real(&tt);
        match bincode::serialize(&real) {
            Err(e) => (format!("ERR:{e}"), "-".to_string()),
            Ok(bytes) => {
                let back = match bincode::deserialize::<Type>(&bytes) {
                    Ok(b) => show_ty(&ty_from(&b)),
                    Err(_) => "ERR".to_string(),
                };
                (hex(&bytes), back)
            }
        }
    });
    let (ser, back) = r.unwrap_or_else(|_| ("PANIC".to_string(), "PANIC".to_string()));
    writeln!(out, "T\t{text}\t{ser}\t{back}").unwrap();
}

fn case_bytes(out: &mut impl Write, kind: char, bytes: &[u8]) {
    let b = bytes.to_vec();
    let res = match kind {
        'B' => guard(move || match deserialize_value(&b) {
            Ok(v) => showv(&from_real(&v)),
            Err(_) => "ERR".to_string(),
        }),
        'A' => guard(move || match deserialize_macro_args(&b) {
            Ok(a) => show_args(&a.iter().map(|(v, k)| (from_real(v), kf(k))).collect::<Vec<_>>()),
            Err(_) => "ERR".to_string(),
        }),
        'Y' => guard(move || match bincode::deserialize::<Type>(&b) {
            Ok(t) => show_ty(&ty_from(&t)),
            Err(_) => "ERR".to_string(),
        }),
        'Z' => guard(move || match bincode::deserialize::<Value>(&b) {
            // symbols come back as raw ids that may not exist in the interner: print ids, not strings
            Ok(v) => show_raw(&v),
            Err(_) => "ERR".to_string(),
        }),
        _ => "BAD-KIND".to_string(),
    };
    writeln!(out, "{kind}\t{}\t{res}", hex(bytes)).unwrap();
}

/// dump of a `Value` decoded by the hand-written impl, symbols as raw ids (`#<hex16>`)
fn show_raw(v: &Value) -> String {
    fn go(v: &Value, o: &mut String) {
        match v {
            Value::ErrorV(e) => o.push_str(&format!("E{:016x}", e.0.data().as_ffi())),
            Value::Unit => o.push('U'),
            Value::Number(n) => o.push_str(&format!("N{:016x}", n.to_bits())),
            Value::String(s) => o.push_str(&format!("#{:016x}", s.0)),
            Value::Array(vs) => {
                o.push_str("(A");
                for x in vs {
                    o.push(' ');
                    go(x, o);
                }
                o.push_str(" )");
            }
            Value::Tuple(vs) => {
                o.push_str("(T");
                for x in vs {
                    o.push(' ');
                    go(x, o);
                }
                o.push_str(" )");
            }
            Value::Record(fs) => {
                o.push_str("(R");
                for (k, x) in fs {
                    o.push_str(&format!(" #{:016x} ", k.0));
                    go(x, o);
                }
                o.push_str(" )");
            }
            Value::Fixpoint(s, e) => o.push_str(&format!("F#{:016x}:{:016x}", s.0, e.0.data().as_ffi())),
            Value::Code(e) => o.push_str(&format!("C{:016x}", e.0.data().as_ffi())),
            Value::TaggedUnion(t, x) => {
                o.push_str(&format!("(G{t:016x} "));
                go(x, o);
                o.push_str(" )");
            }
            Value::ConstructorFn(t, s, k) => {
                o.push_str(&format!("K{t:016x}:#{:016x}:{:016x}", s.0, k.0.data().as_ffi()))
            }
            Value::Closure(..) => o.push('L'),
            Value::ExternalFn(_) => o.push('X'),
            Value::Store(_) => o.push_str("(O )"),
        }
    }
    let mut s = String::new();
    go(v, &mut s);
    s
}

// ---------------------------------------------------------------------------------------------
// generators

const K1: u64 = (1 << 32) | 0; // idx 0, version 1
const K2: u64 = (0x7fff_ffff << 32) | 0x0012_3456; // odd version
const KNULL: u64 = (1 << 32) | 0xffff_ffff;

fn atoms() -> Vec<V> {
    vec![
        V::Unit,
        V::Number(0x3ff8_0000_0000_0000),  // 1.5
        V::Number(0x8000_0000_0000_0000),  // -0.0
        V::Number(0x7ff8_0000_0000_0001),  // quiet NaN with payload
        V::Number(0x7ff0_0000_0000_0000),  // +inf
        V::Str(String::new()),
        V::Str("aé漢🎵".to_string()),
        V::Code(K2),
        V::ErrorV(K1),
        V::Closure,
        V::Fixpoint("f".to_string(), K1),
        V::ExternalFn("ext".to_string()),
        V::CtorFn(1, "Some".to_string(), K1),
    ]
}
const RKEYS: [&str; 3] = ["", "k", "é"];

fn forests(n: usize, trees: &Vec<Vec<V>>, memo: &mut Vec<Option<Vec<Vec<V>>>>) -> Vec<Vec<V>> {
    if let Some(v) = &memo[n] {
        return v.clone();
    }
    let mut out = vec![];
    if n == 0 {
        out.push(vec![]);
    } else {
        for first in 1..=n {
            let rest = forests(n - first, trees, memo);
            for t in &trees[first] {
                for r in &rest {
                    let mut v = vec![t.clone()];
                    v.extend(r.iter().cloned());
                    out.push(v);
                }
            }
        }
    }
    memo[n] = Some(out.clone());
    out
}

/// all values with at most `max` nodes over the atom alphabet
fn all_values(max: usize) -> Vec<V> {
    let mut trees: Vec<Vec<V>> = vec![vec![]; max + 1];
    for k in 1..=max {
        let mut v = vec![];
        if k == 1 {
            v.extend(atoms());
        }
        let mut memo = vec![None; k];
        for f in forests(k - 1, &trees, &mut memo) {
            v.push(V::Array(f.clone()));
            v.push(V::Tuple(f.clone()));
            v.push(V::Record(f.iter().enumerate().map(|(i, x)| (RKEYS[i % 3].to_string(), x.clone())).collect()));
            if f.len() == 1 {
                v.push(V::Tagged(0, Box::new(f[0].clone())));
                v.push(V::Tagged(u64::MAX, Box::new(f[0].clone())));
                v.push(V::Store(Box::new(f[0].clone())));
            }
        }
        trees[k] = v;
    }
    trees.into_iter().flatten().collect()
}

fn rand_string(r: &mut Rng) -> String {
    let n = match r.below(6) {
        0 => 0,
        1 => 1,
        _ => r.below(12),
    };
    let mut s = String::new();
    for _ in 0..n {
        let c = match r.below(6) {
            0 => r.below(0x80) as u32,                      // ASCII incl. NUL and controls
            1 => 0x80 + r.below(0x780) as u32,              // 2 byte
            2 => 0x800 + r.below(0xD800 - 0x800) as u32,    // 3 byte below surrogates
            3 => 0xE000 + r.below(0x2000) as u32,           // 3 byte above surrogates
            4 => 0x10000 + r.below(0x100000) as u32,        // 4 byte
            _ => b'a' as u32 + r.below(26) as u32,
        };
        if let Some(ch) = char::from_u32(c) {
            s.push(ch);
        }
    }
    s
}
fn rand_bits(r: &mut Rng) -> u64 {
    match r.below(8) {
        0 => 0,
        1 => 0x8000_0000_0000_0000,
        2 => 0x7ff0_0000_0000_0000 | (r.below(2) << 63),
        3 => 0x7ff0_0000_0000_0000 | (r.next() & 0x000f_ffff_ffff_ffff) | (r.below(2) << 63), // NaN (quiet or signalling)
        4 => r.below(1 << 52),                                                                 // subnormal
        5 => f64::to_bits(r.below(2000) as f64 - 1000.0),
        _ => r.next(),
    }
}
fn rand_key(r: &mut Rng) -> u64 {
    match r.below(6) {
        0 => KNULL,
        1 => K1,
        _ => (((r.next() as u32 | 1) as u64) << 32) | (r.next() as u32 as u64 % 0xffff_ffff),
    }
}
/// `opaque`: allow the five refused variants
fn rand_value(r: &mut Rng, depth: usize, width: u64, opaque: bool, errv: bool) -> V {
    let leaf = depth == 0 || r.below(3) == 0;
    if leaf {
        return match r.below(if opaque { 12 } else { 8 }) {
            0 => V::Unit,
            1 | 2 => V::Number(rand_bits(r)),
            3 | 4 => V::Str(rand_string(r)),
            5 => V::Code(rand_key(r)),
            6 => {
                if errv {
                    V::ErrorV(rand_key(r))
                } else {
                    V::Unit
                }
            }
            7 => V::Array(vec![]),
            8 => V::Closure,
            9 => V::Fixpoint(rand_string(r), rand_key(r)),
            10 => V::ExternalFn(rand_string(r)),
            _ => V::CtorFn(r.next(), rand_string(r), rand_key(r)),
        };
    }
    let n = r.below(width + 1) as usize;
    match r.below(if opaque { 6 } else { 5 }) {
        0 => V::Array((0..n).map(|_| rand_value(r, depth - 1, width, opaque, errv)).collect()),
        1 => V::Tuple((0..n).map(|_| rand_value(r, depth - 1, width, opaque, errv)).collect()),
        2 | 3 => V::Record((0..n).map(|_| (rand_string(r), rand_value(r, depth - 1, width, opaque, errv))).collect()),
        4 => V::Tagged(
            if r.below(2) == 0 { r.below(5) } else { r.next() },
            Box::new(rand_value(r, depth - 1, width, opaque, errv)),
        ),
        _ => V::Store(Box::new(rand_value(r, depth - 1, width, opaque, errv))),
    }
}

fn rand_ty(r: &mut Rng) -> Ty {
    let ks = |r: &mut Rng| -> Vec<u64> { (0..r.below(5)).map(|_| rand_key(r)).collect() };
    match r.below(16) {
        0 => Ty::Primitive(r.below(4) as u32),
        1 => Ty::Array(rand_key(r)),
        2 => Ty::Tuple(ks(r)),
        3 => Ty::Record((0..r.below(5)).map(|_| (r.next() >> r.below(64), rand_key(r), r.below(2) == 1)).collect()),
        4 => Ty::Function(rand_key(r), rand_key(r)),
        5 => Ty::Ref(rand_key(r)),
        6 => Ty::Code(rand_key(r)),
        7 => Ty::Union(ks(r)),
        8 => Ty::UserSum(
            r.next() >> r.below(64),
            (0..r.below(5))
                .map(|_| (r.next() >> r.below(64), if r.below(2) == 0 { None } else { Some(rand_key(r)) }))
                .collect(),
        ),
        9 => Ty::Boxed(rand_key(r)),
        10 => Ty::Intermediate,
        11 => Ty::TypeScheme(r.next()),
        12 => Ty::TypeAlias(r.next() >> r.below(64)),
        13 => Ty::Any,
        14 => Ty::Failure,
        _ => Ty::Unknown,
    }
}
fn all_small_types() -> Vec<Ty> {
    let ks = [K1, K2, KNULL];
    let mut v = vec![Ty::Any, Ty::Failure, Ty::Unknown, Ty::Intermediate, Ty::TypeScheme(0), Ty::TypeScheme(u64::MAX)];
    for p in 0..4 {
        v.push(Ty::Primitive(p));
    }
    for &k in &ks {
        v.extend([Ty::Array(k), Ty::Ref(k), Ty::Code(k), Ty::Boxed(k)]);
        for &k2 in &ks {
            v.push(Ty::Function(k, k2));
        }
    }
    for s in [0u64, 1, u64::MAX] {
        v.push(Ty::TypeAlias(s));
    }
    for n in 0..3usize {
        let l: Vec<u64> = (0..n).map(|i| ks[i % 3]).collect();
        v.push(Ty::Tuple(l.clone()));
        v.push(Ty::Union(l.clone()));
        v.push(Ty::Record(l.iter().enumerate().map(|(i, k)| (i as u64 * 7, *k, i % 2 == 0)).collect()));
        v.push(Ty::UserSum(
            n as u64,
            l.iter().enumerate().map(|(i, k)| (i as u64, if i % 2 == 0 { None } else { Some(*k) })).collect(),
        ));
        v.push(Ty::UserSum(u64::MAX, l.iter().map(|k| (3, Some(*k))).collect()));
    }
    v
}

/// malformed variants of a valid stream: every truncation, byte substitutions, over-long lengths, bad variant indices
fn mutations(r: &mut Rng, bytes: &[u8], budget: usize) -> Vec<Vec<u8>> {
    let mut out = vec![];
    let n = bytes.len();
    // truncations (all when short, sampled when long)
    if n <= 64 {
        for k in 0..n {
            out.push(bytes[..k].to_vec());
        }
    } else {
        for _ in 0..32 {
            out.push(bytes[..r.below(n as u64) as usize].to_vec());
        }
    }
    // bad variant index at the front
    for bad in [9u32, 10, 11, 14, 255, 256, 0x0100_0000, u32::MAX] {
        if n >= 4 {
            let mut b = bytes.to_vec();
            b[..4].copy_from_slice(&bad.to_le_bytes());
            out.push(b);
        }
    }
    // over-long / wrong length or payload word after the first tag
    for bad in [u64::MAX, 1 << 63, 1 << 32, 0x0100_0000_0000_0000, n as u64, 1_000_000] {
        if n >= 12 {
            let mut b = bytes.to_vec();
            b[4..12].copy_from_slice(&bad.to_le_bytes());
            out.push(b);
        }
        if n >= 8 {
            let mut b = bytes.to_vec();
            b[..8].copy_from_slice(&bad.to_le_bytes());
            out.push(b);
        }
    }
    // random substitutions, insertions, deletions
    for _ in 0..budget {
        if n == 0 {
            break;
        }
        let mut b = bytes.to_vec();
        let k = 1 + r.below(3);
        for _ in 0..k {
            if b.is_empty() {
                break;
            }
            let i = r.below(b.len() as u64) as usize;
            match r.below(8) {
                0 => b[i] = 0xff,
                1 => b[i] = 0,
                2 => b[i] ^= 1,
                3 => b[i] = b[i].wrapping_add(1),
                4 => b[i] = 0x80,
                5 => {
                    b.remove(i);
                }
                6 => b.insert(i, r.next() as u8),
                _ => b[i] = r.next() as u8,
            }
        }
        out.push(b);
    }
    // trailing garbage (must be accepted: bincode::deserialize allows trailing bytes)
    let mut b = bytes.to_vec();
    b.extend([0xde, 0xad, 0xbe, 0xef]);
    out.push(b);
    out
}

fn main() {
    let args: Vec<String> = std::env::args().skip(1).collect();
    let stdout = std::io::stdout();
    let mut out = std::io::BufWriter::new(stdout.lock());
    std::panic::set_hook(Box::new(|_| {}));
    let num = |i: usize| -> u64 { args.get(i).map(|s| s.parse().unwrap()).unwrap_or(0) };
    match args.first().map(|s| s.as_str()).unwrap_or("") {
        // enum <max-nodes> <shard> <nshards>
        "enum" => {
            let (k, n) = (num(2) as usize, (num(3) as usize).max(1));
            for (i, v) in all_values(num(1) as usize).iter().enumerate() {
                if i % n == k {
                    case_v(&mut out, v);
                }
            }
        }
        "count" => println!("{}", all_values(num(1) as usize).len()),
        // enumw <max-nodes>: direct `Serialize for Value`
        "enumw" => {
            for v in all_values(num(1) as usize).iter() {
                case_w(&mut out, v);
            }
        }
        // rand <seed> <count> <depth> <width>
        "rand" => {
            let mut r = Rng::new(num(1));
            for i in 0..num(2) {
                let opaque = i % 8 == 7;
                let errv = i % 16 == 3;
                let v = rand_value(&mut r, num(3) as usize, num(4), opaque, errv);
                case_v(&mut out, &v);
            }
        }
        "randw" => {
            let mut r = Rng::new(num(1));
            for i in 0..num(2) {
                let v = rand_value(&mut r, num(3) as usize, num(4), i % 4 == 3, i % 4 == 1);
                case_w(&mut out, &v);
            }
        }
        // args <seed> <count>: macro argument lists
        "args" => {
            let mut r = Rng::new(num(1));
            case_m(&mut out, &[]);
            for v in atoms() {
                case_m(&mut out, &[(v.clone(), K1)]);
                case_m(&mut out, &[(V::Unit, KNULL), (v, K2)]);
            }
            for i in 0..num(2) {
                let n = r.below(5);
                let a: Vec<(V, u64)> = (0..n)
                    .map(|_| (rand_value(&mut r, 3, 4, i % 8 == 7, i % 16 == 3), rand_key(&mut r)))
                    .collect();
                case_m(&mut out, &a);
            }
        }
        // types <seed> <count>
        "types" => {
            let mut r = Rng::new(num(1));
            for t in all_small_types() {
                case_t(&mut out, &t);
            }
            for _ in 0..num(2) {
                case_t(&mut out, &rand_ty(&mut r));
            }
        }
        // malformed <seed> <count> <per>: byte streams derived from valid encodings of values / args / types
        "malformed" => {
            let mut r = Rng::new(num(1));
            let per = num(3) as usize;
            let small = all_values(2);
            for i in 0..num(2) {
                let v = if (i as usize) < small.len() {
                    small[i as usize].clone()
                } else {
                    rand_value(&mut r, 3, 3, false, true)
                };
                if let Ok(bytes) = serialize_value(&to_real(&v)) {
                    for m in mutations(&mut r, &bytes, per) {
                        case_bytes(&mut out, 'B', &m);
                    }
                }
                if i % 4 == 0 {
                    let a = vec![(v.clone(), rand_key(&mut r)), (V::Str("x".into()), K1)];
                    let real: Vec<(Value, TypeNodeId)> = a.iter().map(|(v, k)| (to_real(v), tkey(*k))).collect();
                    if let Ok(bytes) = serialize_macro_args(&real) {
                        for m in mutations(&mut r, &bytes, per) {
                            case_bytes(&mut out, 'A', &m);
                        }
                    }
                }
                if i % 4 == 1 {
                    let t = rand_ty(&mut r);
                    if let Ok(bytes) = bincode::serialize(&ty_real(&t)) {
                        for m in mutations(&mut r, &bytes, per) {
                            case_bytes(&mut out, 'Y', &m);
                        }
                    }
                }
                if i % 4 == 2 {
                    if let Ok(bytes) = bincode::serialize(&to_real(&v)) {
                        for m in mutations(&mut r, &bytes, per) {
                            case_bytes(&mut out, 'Z', &m);
                        }
                    }
                }
            }
            // purely random streams
            for _ in 0..num(2) {
                let n = r.below(40) as usize;
                let mut b: Vec<u8> = (0..n).map(|_| if r.below(3) == 0 { r.next() as u8 } else { r.below(10) as u8 }).collect();
                if n >= 4 && r.below(2) == 0 {
                    b[1] = 0;
                    b[2] = 0;
                    b[3] = 0;
                }
                let kind = ['B', 'A', 'Y', 'Z'][r.below(4) as usize];
                case_bytes(&mut out, kind, &b);
            }
        }
        // cases: lines `V\t<value>`, `M\t<args>`, `T\t<type>`, `W\t<value>`, `B|A|Y|Z\t<hex>` on stdin (corpus, replay,
        // and the bytes produced by the Lean encoder)
        "cases" => {
            let mut s = String::new();
            std::io::Read::read_to_string(&mut std::io::stdin(), &mut s).unwrap();
            for line in s.lines() {
                let f: Vec<&str> = line.split('\t').collect();
                if f.len() < 2 || line.starts_with('#') {
                    continue;
                }
                match f[0] {
                    "V" => match parse_v(&mut P::new(f[1])) {
                        Some(v) => case_v(&mut out, &v),
                        None => writeln!(out, "V\t{}\tBAD-INPUT\t-", f[1]).unwrap(),
                    },
                    "W" => match parse_v(&mut P::new(f[1])) {
                        Some(v) => case_w(&mut out, &v),
                        None => writeln!(out, "W\t{}\tBAD-INPUT\t-", f[1]).unwrap(),
                    },
                    "M" => match if f[1] == "." { Some(vec![]) } else { parse_args(f[1]) } {
                        Some(a) => case_m(&mut out, &a),
                        None => writeln!(out, "M\t{}\tBAD-INPUT\t-", f[1]).unwrap(),
                    },
                    "T" => match parse_ty(f[1]) {
                        Some(t) => case_t(&mut out, &t),
                        None => writeln!(out, "T\t{}\tBAD-INPUT\t-", f[1]).unwrap(),
                    },
                    "B" | "A" | "Y" | "Z" => match unhex(f[1]) {
                        Some(b) => case_bytes(&mut out, f[0].chars().next().unwrap(), &b),
                        None => writeln!(out, "{}\t{}\tBAD-INPUT", f[0], f[1]).unwrap(),
                    },
                    _ => {}
                }
            }
        }
        _ => {
            eprintln!("usage: c20 enum|count|enumw|rand|randw|args|types|malformed|cases ...");
            std::process::exit(2);
        }
    }
}
