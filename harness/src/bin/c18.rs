//! c18: the Rust transpiler (`Context::emit_rust`) against the bytecode VM.
//! stdin: JSON lines {"id","src","times","inputs":[[..],..],"out":"<path of the .rs file to write>"}.
//! Per case: call the real `emit_rust`; on Ok write `<generated source><test main>` to `out` (the main is the repo's
//! `mimium_test_main.rs.template`, filled the way `rust_codegen_test.rs` fills it, with a host whose `now` is the sample
//! index and which prints every output word as 16 hex digits); dump the control skeleton of the MIR the generator saw
//! (`emit_mir` of the same compiler); run the same source on the VM (`runner::run_vm`).
//! stdout: one JSON object per case
//!   {"id","emit":"ok"|"err"|"panic","msg", "has_main":bool, "has_dsp":bool, "cfg":[{"index","label","blocks":"…"}], "vm":"<Outcome::show>"}
//! cfg block text: instructions joined by `;`, blocks by `/`:
//!   o (non-control) | p<dst>,<l>,<r> (Phi) | P<dst>,<v>.. (PhiSwitch) | j<c>,<t>,<e>,<m> (JmpIf) | J<off> (Jmp)
//!   | s<scrut>,<merge>,<default or ->,<lit>:<bb>.. (Switch) | R (Return / ReturnFeed)
//!   values: Register r -> 4r, Argument i -> 4i+1, Function i -> 4i+2, None -> 3, anything else -> 7
use mimium_lang::mir::{Instruction, Mir, Value};
use mimium_lang::utils::error::ReportableError;
use mimium_lang::{Config, ExecContext};
use mmh::runner::{RunCfg, panic_msg, run_vm};
use std::io::{BufRead, Write};
use std::path::PathBuf;

const MAIN_TEMPLATE: &str = include_str!("/repo/crates/lib/mimium-lang/src/compiler/mimium_test_main.rs.template");

const HOST_DECLS: &str = r#"
struct VerifHost {
    now: f64,
}

impl MimiumHost for VerifHost {
    fn call_ext(&mut self, name: &str, _args: &[Word], _ret_words: usize) -> Result<Vec<Word>, String> {
        Err(format!("unexpected external call: {}", name))
    }

    fn current_time(&mut self) -> f64 {
        self.now
    }

    fn sample_rate(&mut self) -> f64 {
        48_000.0
    }
}
"#;

fn val(v: &Value) -> u64 {
    match v {
        Value::Register(r) => 4 * *r,
        Value::Argument(i) => 4 * (*i as u64) + 1,
        Value::Function(i) => 4 * (*i as u64) + 2,
        Value::None => 3,
        _ => 7,
    }
}

fn cfg_dump(mir: &Mir) -> Vec<serde_json::Value> {
    mir.functions
        .iter()
        .map(|f| {
            let blocks: Vec<String> = f
                .body
                .iter()
                .map(|b| {
                    b.0.iter()
                        .map(|(dst, ins)| match ins {
                            Instruction::Phi(l, r) => format!("p{},{},{}", val(dst), val(l), val(r)),
                            Instruction::PhiSwitch(vs) => {
                                let mut s = format!("P{}", val(dst));
                                for v in vs {
                                    s.push_str(&format!(",{}", val(v)));
                                }
                                s
                            }
                            Instruction::JmpIf(c, t, e, m) => format!("j{},{},{},{}", val(c), t, e, m),
                            Instruction::Jmp(off) => format!("J{off}"),
                            Instruction::Switch { scrutinee, cases, default_block, merge_block } => {
                                let mut s = format!(
                                    "s{},{},{}",
                                    val(scrutinee),
                                    merge_block,
                                    default_block.map(|d| d.to_string()).unwrap_or("-".into())
                                );
                                for (lit, bb) in cases {
                                    s.push_str(&format!(",{lit}:{bb}"));
                                }
                                s
                            }
                            Instruction::Return(_, _) | Instruction::ReturnFeed(_, _) => "R".to_string(),
                            _ => "o".to_string(),
                        })
                        .collect::<Vec<_>>()
                        .join(";")
                })
                .collect();
            serde_json::json!({"index": f.index, "label": f.label.as_str(), "blocks": blocks.join("/")})
        })
        .collect()
}

fn errs(es: &[Box<dyn ReportableError>]) -> String {
    es.iter().map(|e| e.get_message()).collect::<Vec<_>>().join(" | ")
}

struct Emit {
    status: &'static str,
    msg: String,
    has_main: bool,
    has_dsp: bool,
    cfg: Vec<serde_json::Value>,
}

fn emit(src: &str, times: u64, inputs: &[Vec<f64>], out: &str) -> Emit {
    let mut ctx = ExecContext::new([].into_iter(), None::<PathBuf>, Config::default());
    ctx.prepare_compiler();
    let compiler = ctx.get_compiler().expect("compiler");
    let cfg = match compiler.emit_mir(src) {
        Ok(mir) => cfg_dump(&mir),
        Err(_) => vec![],
    };
    let output = match compiler.emit_rust(src) {
        Ok(o) => o,
        Err(es) => return Emit { status: "err", msg: errs(&es), has_main: false, has_dsp: false, cfg },
    };
    let has_main = output.source.contains("pub fn call_main");
    let has_dsp = output.source.contains("pub fn call_dsp");
    let nin = output.io_channels.map_or(0, |io| io.input as usize);
    let mut rows = String::new();
    for t in 0..times {
        let mut v = inputs.get(t as usize).cloned().unwrap_or_default();
        v.resize(nin, 0.0);
        rows.push_str("        &[");
        for x in v {
            rows.push_str(&format!("0x{:016x}u64, ", x.to_bits()));
        }
        rows.push_str("],\n");
    }
    let run_body = if has_dsp {
        format!(
            "    let inputs: &[&[Word]] = &[\n{rows}    ];\n    for (t, input) in inputs.iter().enumerate() {{\n        program.host.now = t as f64;\n        let output = program.call_dsp(input).unwrap();\n        let words: Vec<String> = output.iter().map(|w| format!(\"{{:016x}}\", w)).collect();\n        println!(\"{{}}\", words.join(\",\"));\n    }}\n"
        )
    } else {
        String::new()
    };
    let main = MAIN_TEMPLATE
        .replace("/*__DECLS__*/", HOST_DECLS)
        .replace(
            "/*__PROGRAM_INIT__*/",
            "let host = VerifHost { now: 0.0 };\n    let mut program = MimiumProgram::with_host(host);",
        )
        .replace("/*__CALL_MAIN__*/", if has_main { "    program.call_main().unwrap();\n" } else { "" })
        .replace("/*__RUN_BODY__*/", &run_body);
    std::fs::write(out, format!("{}{main}", output.source)).expect("write generated source");
    Emit { status: "ok", msg: String::new(), has_main, has_dsp, cfg }
}

fn main() {
    std::panic::set_hook(Box::new(|_| {}));
    let stdin = std::io::stdin();
    let stdout = std::io::stdout();
    let mut out = std::io::BufWriter::new(stdout.lock());
    for line in stdin.lock().lines() {
        let line = line.unwrap();
        if line.trim().is_empty() {
            continue;
        }
        let v: serde_json::Value = serde_json::from_str(&line).unwrap();
        let id = v["id"].as_str().unwrap_or("?").to_string();
        let src = v["src"].as_str().unwrap_or("").to_string();
        let times = v["times"].as_u64().unwrap_or(8);
        let path = v["out"].as_str().unwrap_or("/dev/null").to_string();
        let inputs: Vec<Vec<f64>> = v["inputs"]
            .as_array()
            .map(|a| {
                a.iter()
                    .map(|r| r.as_array().map(|x| x.iter().map(|f| f.as_f64().unwrap_or(0.0)).collect()).unwrap_or_default())
                    .collect()
            })
            .unwrap_or_default();
        let e = match std::panic::catch_unwind(std::panic::AssertUnwindSafe(|| emit(&src, times, &inputs, &path))) {
            Ok(e) => e,
            Err(p) => Emit { status: "panic", msg: panic_msg(p), has_main: false, has_dsp: false, cfg: vec![] },
        };
        let mut cfg = RunCfg::new(times);
        cfg.inputs = inputs.clone();
        let vm = if v["vm"].as_bool().unwrap_or(true) { run_vm(&src, &cfg).show() } else { "-".to_string() };
        let o = serde_json::json!({"id": id, "emit": e.status, "msg": e.msg, "has_main": e.has_main, "has_dsp": e.has_dsp,
                                   "cfg": e.cfg, "vm": vm});
        writeln!(out, "{o}").unwrap();
        out.flush().unwrap();
    }
}
