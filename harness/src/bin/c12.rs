//! c12: heap / closure traffic of the VM, sample by sample (hook `runtime::vm::verif::heap_*`, cfg mimium_verif), and the
//! live object counts `Machine::closures.len()` / `Machine::heap.len()` after every sample.
//! stdin: JSON lines {"id","src","times","scheduler"}.  stdout, per case, a block of lines for the Lean judge `drv_c12`:
//!   case <id> <status words...>            status = ok | compile-error .. | panic .. | runtime-error ..
//!   i <ops>                                 traffic of compilation + `main` (global initialisers), before the first sample
//!   s <ops>                                 traffic of one sample (scheduler tasks of that sample + the dsp call); `s` alone if none
//!   n <closures.len()> <heap.len()>         observed after the preceding `i` / `s` line
//!   x <message>                             the run stopped here (panic / runtime error) — the ops recorded so far precede it
//!   end
//! op = <space><kind><slot>.<generation>=<refcount after>   or  …!  when the handle did not name a live object
//!   space c|h (closure slot map | heap slot map); kind A alloc, + retain, - release, F removed, U dereferenced, C closed
use mimium_audiodriver::driver::VmDspRuntime;
use mimium_lang::runtime::vm::verif;
use mmh::runner::{panic_msg, vm_start};
use std::io::{BufRead, Write};

fn show_ops(ops: &[verif::HeapOp]) -> String {
    let mut s = String::with_capacity(ops.len() * 10);
    for o in ops {
        s.push(' ');
        s.push(o.space as char);
        s.push(o.op as char);
        s.push_str(&format!("{}.{}", o.key & 0xffff_ffff, o.key >> 32));
        if o.valid {
            s.push_str(&format!("={}", o.rc));
        } else {
            s.push('!');
        }
    }
    s
}

fn counts(vm: &mmh::runner::VmRun) -> (usize, usize) {
    let rt = vm.rd.downcast_runtime_ref::<VmDspRuntime>().expect("vm runtime");
    (rt.vm.closures.len(), rt.vm.heap.len())
}

fn run_case(src: &str, times: u64, scheduler: bool, out: &mut impl Write, id: &str) {
    verif::heap_start();
    let started = std::panic::catch_unwind(std::panic::AssertUnwindSafe(|| vm_start(src, scheduler)));
    let mut vm = match started {
        Ok(Ok(v)) => v,
        Ok(Err(es)) => {
            let _ = verif::heap_take();
            writeln!(out, "case {id} compile-error {}", es.join(" | ").replace(['\n', '\t'], " ")).unwrap();
            writeln!(out, "end").unwrap();
            return;
        }
        Err(e) => {
            let _ = verif::heap_take();
            writeln!(out, "case {id} panic-at-start {}", panic_msg(e).replace(['\n', '\t'], " ")).unwrap();
            writeln!(out, "end").unwrap();
            return;
        }
    };
    writeln!(out, "case {id} ok").unwrap();
    writeln!(out, "i{}", show_ops(&verif::heap_drain())).unwrap();
    let (c, h) = counts(&vm);
    writeln!(out, "n {c} {h}").unwrap();
    for t in 0..times {
        let inp = vec![0.0; vm.nin];
        let r = std::panic::catch_unwind(std::panic::AssertUnwindSafe(|| vm.step(t, &inp)));
        writeln!(out, "s{}", show_ops(&verif::heap_drain())).unwrap();
        match r {
            Ok(Ok(_)) => {
                let (c, h) = counts(&vm);
                writeln!(out, "n {c} {h}").unwrap();
            }
            Ok(Err(e)) => {
                writeln!(out, "x runtime-error at sample {t}: {}", e.replace(['\n', '\t'], " ")).unwrap();
                break;
            }
            Err(e) => {
                writeln!(out, "x panic at sample {t}: {}", panic_msg(e).replace(['\n', '\t'], " ")).unwrap();
                break;
            }
        }
    }
    let _ = verif::heap_take();
    writeln!(out, "end").unwrap();
    // the machine may be in an inconsistent state after a panic: leak it instead of running destructors
    std::mem::forget(vm);
}

fn main() {
    std::panic::set_hook(Box::new(|_| {}));
    let stdin = std::io::stdin();
    let stdout = std::io::stdout();
    let mut out = std::io::BufWriter::new(stdout.lock());
    for line in stdin.lock().lines() {
        let line = line.unwrap();
        if line.trim().is_empty() {
            continue;
        }
        let v: serde_json::Value = serde_json::from_str(&line).unwrap();
        let id = v["id"].as_str().unwrap_or("?").replace([' ', '\t'], "_");
        let src = v["src"].as_str().unwrap_or("").to_string();
        let times = v["times"].as_u64().unwrap_or(8);
        let scheduler = v["scheduler"].as_bool().unwrap_or(false);
        run_case(&src, times, scheduler, &mut out, &id);
        out.flush().unwrap();
    }
}
