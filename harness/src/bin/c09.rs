//! c09 (also used by C10): the staging round trip of the real compiler, at the level of syntax trees.
//!
//! stdin: one JSON object per line `{"id":..,"src":"..","mode":"expand"|"plain"|"front"|"stage0"}`
//! stdout: `id \t ok \t <canonical S-expression> \t <note>` or `id \t err \t <message>`
//!
//! * `expand` — the source contains staging constructs. The stage-1 tree is obtained twice:
//!   (a) from the REAL pipeline (`Context::emit_mir`), whose `log::trace!("ast after stage-0 execution: …")` line is
//!       captured by a logger installed here (text of `simple_print`);
//!   (b) from a replica of `compile_and_execute_stage0` assembled from the public API (the real
//!       `translate_staging::translate`, the real `codegen_combinator_signatures`, the real bytecode VM), which yields
//!       an `ExprNodeId` that is printed canonically. (a) and (b) must print the same `simple_print` text (`note` =
//!       `same`); a difference means the replica no longer mirrors the compiler (`note` = `replica-differs`).
//! * `plain` — the source has no staging construct: canonical print of its tree after the front-end passes that also
//!   precede staging (`convert_pronoun_with_module`), i.e. what a hand-written expansion looks like at the point where
//!   the expanded tree re-enters the compiler.
use mimium_lang::{
    Config, ExecContext,
    ast::{Expr, Literal},
    compiler::{bytecodegen, mirgen, parser, translate_staging},
    interner::{ExprNodeId, Symbol, TypeNodeId},
    log,
    pattern::Pattern,
    plugin::{self, MachineFunction},
    runtime::vm,
    utils::{error::ReportableError, miniprint::MiniPrint},
};
use std::io::{BufRead, Write};
use std::path::PathBuf;
use std::sync::Mutex;

static CAPTURED: Mutex<Option<String>> = Mutex::new(None);
const PREFIX: &str = "ast after stage-0 execution: ";

struct Capture;
impl log::Log for Capture {
    fn enabled(&self, m: &log::Metadata) -> bool {
        m.level() == log::Level::Trace && m.target().ends_with("mirgen")
    }
    fn log(&self, r: &log::Record) {
        if r.level() == log::Level::Trace && r.target().ends_with("mirgen") {
            let s = format!("{}", r.args());
            if let Some(rest) = s.strip_prefix(PREFIX) {
                *CAPTURED.lock().unwrap() = Some(rest.to_string());
            }
        }
    }
    fn flush(&self) {}
}
static LOGGER: Capture = Capture;

fn errs(es: &[Box<dyn ReportableError>]) -> String {
    es.iter().map(|e| e.get_message()).collect::<Vec<_>>().join(" | ").replace(['\n', '\t'], " ")
}

fn hex16(s: &str) -> String {
    match s.parse::<f64>() {
        Ok(f) => format!("{:016x}", f.to_bits()),
        Err(_) => format!("badfloat:{s}"),
    }
}

/// `compiler::intrinsics::OP_INTRINSIC_MARKER_NS` (crate-private there; the translator checks the value)
const OP_NS: &str = "__mimium_op_intrinsic";

fn mangle(segs: &[Symbol]) -> String {
    // mirrors translate_staging::mangle_qualified_segments
    match segs {
        [] => String::new(),
        [ns, name] if ns.as_str() == OP_NS => name.to_string(),
        [single] => single.to_string(),
        _ => segs.iter().map(|s| s.as_str()).collect::<Vec<_>>().join("$"),
    }
}

fn pat(p: &Pattern) -> String {
    match p {
        Pattern::Single(s) => s.to_string(),
        Pattern::Placeholder => "_".into(),
        Pattern::Tuple(ps) => format!("({})", ps.iter().map(pat).collect::<Vec<_>>().join(" ")),
        Pattern::Record(_) => "<record-pattern>".into(),
        Pattern::Error => "<error-pattern>".into(),
    }
}

fn opt(e: &Option<ExprNodeId>) -> String {
    e.map(canon).unwrap_or_else(|| "none".into())
}

fn list(es: &[ExprNodeId]) -> String {
    es.iter().map(|e| canon(*e)).collect::<Vec<_>>().join(" ")
}

/// canonical text of a tree: no spans, no types, float literals as the bit pattern of their value
fn canon(e: ExprNodeId) -> String {
    match e.to_expr() {
        Expr::Literal(Literal::Float(s)) => format!("(flt {})", hex16(s.as_str())),
        Expr::Literal(Literal::Int(i)) => format!("(int {i})"),
        Expr::Literal(Literal::String(s)) => format!("(str {:?})", s.as_str()),
        Expr::Literal(Literal::SelfLit) => "self".into(),
        Expr::Literal(Literal::Now) => "now".into(),
        Expr::Literal(Literal::SampleRate) => "sr".into(),
        Expr::Literal(Literal::PlaceHolder) => "placeholder".into(),
        Expr::Var(x) => format!("(var {x})"),
        Expr::QualifiedVar(p) => format!("(var {})", mangle(&p.segments)),
        Expr::Block(b) => format!("(block {})", opt(&b)),
        Expr::Tuple(es) => format!("(tup {})", list(&es)).replace(" )", ")"),
        Expr::Proj(a, i) => format!("(proj {} {i})", canon(a)),
        Expr::Apply(f, args) => format!("(app {} {})", canon(f), list(&args)).replace(" )", ")"),
        Expr::MacroExpand(f, args) => format!("(macro {} {})", canon(f), list(&args)).replace(" )", ")"),
        Expr::ArrayAccess(a, i) => format!("(arrayaccess {} {})", canon(a), canon(i)),
        Expr::ArrayLiteral(es) => format!("(arr {})", list(&es)).replace(" )", ")"),
        Expr::RecordLiteral(_) | Expr::ImcompleteRecord(_) | Expr::RecordUpdate(..) | Expr::FieldAccess(..) => {
            format!("(other {})", e.to_expr().simple_print().replace(['\t', '\n'], " "))
        }
        Expr::UniOp(op, a) => format!("(unop {} {})", op.0, canon(a)),
        Expr::BinOp(a, op, b) => format!("(binop {} {} {})", op.0, canon(a), canon(b)),
        Expr::Lambda(ps, _, body) => {
            format!("(lam ({}) {})", ps.iter().map(|p| p.id.to_string()).collect::<Vec<_>>().join(" "), canon(body))
        }
        Expr::Feed(x, body) => format!("(feed {x} {})", canon(body)),
        Expr::Let(tp, v, then) => match &tp.pat {
            Pattern::Single(x) => format!("(let {x} {} {})", canon(v), opt(&then)),
            Pattern::Placeholder => format!("(let _ {} {})", canon(v), opt(&then)),
            p => format!("(letp {} {} {})", pat(p), canon(v), opt(&then)),
        },
        Expr::LetRec(id, v, then) => format!("(letrec {} {} {})", id.id, canon(v), opt(&then)),
        Expr::Assign(l, r) => format!("(assign {} {})", canon(l), canon(r)),
        Expr::Then(a, b) => format!("(then {} {})", canon(a), opt(&b)),
        Expr::If(c, t, el) => format!("(if {} {} {})", canon(c), canon(t), opt(&el)),
        Expr::Match(..) => format!("(other {})", e.to_expr().simple_print().replace(['\t', '\n'], " ")),
        Expr::Bracket(a) => format!("(bracket {})", canon(a)),
        Expr::Escape(a) => format!("(escape {})", canon(a)),
        Expr::Paren(a) => format!("(paren {})", canon(a)),
        Expr::Error => "error".into(),
    }
}

fn new_ctx() -> ExecContext {
    let mut ctx = ExecContext::new([].into_iter(), None::<PathBuf>, Config::default());
    ctx.prepare_compiler();
    ctx
}

/// (a) the real pipeline; returns the captured `simple_print` text of the stage-1 tree
fn real_expand(src: &str) -> Result<String, String> {
    *CAPTURED.lock().unwrap() = None;
    let ctx = new_ctx();
    let r = ctx.get_compiler().unwrap().emit_mir(src);
    let cap = CAPTURED.lock().unwrap().take();
    match (r, cap) {
        (Err(es), None) => Err(format!("compile-error {}", errs(&es))),
        (_, Some(s)) => Ok(s),
        (Ok(_), None) => Err("no-staging (the compiler did not run a macro stage)".into()),
    }
}

/// front end up to the point where staging starts (parse, wrap, convert_pronoun + typecheck)
fn front(src: &str, wrap: bool) -> Result<(ExprNodeId, Vec<(Symbol, TypeNodeId)>), String> {
    let ctx = new_ctx();
    let builtin_types = ctx.get_compiler().unwrap().get_ext_typeinfos();
    let (ast, module_info, perrs) = parser::parse_to_expr(src, None);
    if !perrs.is_empty() {
        return Err(format!("parse-error {}", errs(&perrs)));
    }
    let expr = if wrap { ast.wrap_to_staged_expr() } else { ast };
    let (expr, _infer, es) = mirgen::typecheck_with_module_info(expr, &builtin_types, None, module_info);
    if !es.is_empty() {
        return Err(format!("compile-error {}", errs(&es)));
    }
    Ok((expr, builtin_types))
}

/// (b) replica of mirgen::compile_and_execute_stage0 from public pieces
fn replica_expand(src: &str) -> Result<ExprNodeId, String> {
    let (expr, builtin_types) = front(src, true)?;
    let stage0 = translate_staging::translate(expr);
    let sigs = plugin::codegen_combinators::codegen_combinator_signatures();
    let builtin_plugin = plugin::get_builtin_fns_as_plugins();
    let mut hidden: std::collections::HashSet<Symbol> = sigs.iter().map(|c| c.name).collect();
    for m in builtin_plugin.get_macro_functions() {
        hidden.insert(m.get_name());
    }
    let all_types: Vec<(Symbol, TypeNodeId)> = builtin_types
        .iter()
        .filter(|(n, _)| !hidden.contains(n))
        .cloned()
        .chain(sigs.iter().map(|c| (c.name, c.ty)))
        .collect();
    let mir = mirgen::compile(stage0, &all_types, &[], None).map_err(|es| format!("stage0-compile-error {}", errs(&es)))?;
    let program = bytecodegen::gen_bytecode(mir, bytecodegen::Config::default());
    let ext = sigs
        .into_iter()
        .map(|c| Box::new(c) as Box<dyn MachineFunction>)
        .chain(builtin_plugin.get_ext_closures());
    let mut machine = vm::Machine::new(program, [].into_iter(), ext);
    let rc = machine.execute_main();
    if rc <= 0 {
        return Err(format!("stage0-vm-error {rc}"));
    }
    let raw = machine.get_top_n(1)[0];
    machine.try_get_code(raw).ok_or_else(|| format!("stage0 result {raw} is not a code value"))
}

fn one(mode: &str, src: &str) -> Result<(String, String), String> {
    match mode {
        "plain" => {
            let (expr, _) = front(src, false)?;
            Ok((canon(expr), "plain".into()))
        }
        "front" => {
            // the tree of a staged source right before `translate_staging::translate` (wrapped, converted, type checked)
            let (expr, _) = front(src, true)?;
            Ok((canon(expr), "front".into()))
        }
        "stage0" => {
            // the stage-0 program (combinator calls) that translate_staging produces
            let (expr, _) = front(src, true)?;
            Ok((canon(translate_staging::translate(expr)), "stage0".into()))
        }
        _ => {
            let real = real_expand(src)?;
            match replica_expand(src) {
                Ok(e) => {
                    let mine = format!("{:?}", e.to_expr().simple_print()); // the compiler logs the text with {:?}
                    let note = if mine == real { "same".to_string() } else if std::env::var("C09_DEBUG").is_ok() { format!("replica-differs REAL {real} REPLICA {mine}") } else { "replica-differs".to_string() };
                    Ok((canon(e), note))
                }
                Err(m) => Ok((format!("(raw {})", real.replace(['\t', '\n'], " ")), format!("replica-failed {m}"))),
            }
        }
    }
}

fn main() {
    std::panic::set_hook(Box::new(|_| {}));
    let _ = log::set_logger(&LOGGER);
    log::set_max_level(log::LevelFilter::Trace);
    let stdin = std::io::stdin();
    let stdout = std::io::stdout();
    let mut out = std::io::BufWriter::new(stdout.lock());
    for line in stdin.lock().lines() {
        let line = line.unwrap();
        if line.trim().is_empty() {
            continue;
        }
        let v: serde_json::Value = match serde_json::from_str(&line) {
            Ok(v) => v,
            Err(e) => {
                writeln!(out, "?\terr\tbad-json {e}").unwrap();
                continue;
            }
        };
        let id = v["id"].as_str().map(|s| s.to_string()).unwrap_or_else(|| v["id"].to_string());
        let src = v["src"].as_str().unwrap_or("").to_string();
        let mode = v["mode"].as_str().unwrap_or("expand").to_string();
        let r = std::panic::catch_unwind(std::panic::AssertUnwindSafe(|| one(&mode, &src)));
        match r {
            Ok(Ok((c, note))) => writeln!(out, "{id}\tok\t{c}\t{note}").unwrap(),
            Ok(Err(m)) => writeln!(out, "{id}\terr\t{}", m.replace(['\t', '\n'], " ")).unwrap(),
            Err(e) => writeln!(out, "{id}\terr\tpanic {}", mmh::runner::panic_msg(e).replace(['\t', '\n'], " ")).unwrap(),
        }
        out.flush().unwrap();
    }
}
