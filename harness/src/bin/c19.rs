//! C19: several threads of ONE process compile and run programs at the same time.
//! usage: c19 jobs [--timeout SECS] [--jitter SEED] [--dump DIR] --paths p0,p1,.. --thread i,j,k --thread … 
//!   1. reference: every distinct path compiled+run alone on the main thread (digest of all artefacts)
//!   2. K threads (one per --thread) start together (barrier + seeded jitter) and run their job lists
//!   3. line per job: `J \t thread \t job \t path \t same \t status \t differing-fields`
//!   watchdog: if the threads are not done after the timeout: `DEADLOCK \t <unfinished threads>` and exit code 3.
//!        c19 interner <jitter>   schedules on stdin, REAL threads over the real interner (see internops.rs)
use mmh::detcomp::{compile_all, load, Art};
use std::sync::mpsc;
use std::time::Duration;

fn diff_fields(a: &Art, b: &Art) -> Vec<&'static str> {
    let mut v = vec![];
    for (k, x) in &a.f {
        if b.get(k) != x.as_str() {
            v.push(*k);
        }
    }
    if a.status != b.status {
        v.push("status");
    }
    v
}

fn main() {
    let args: Vec<String> = std::env::args().skip(1).collect();
    std::panic::set_hook(Box::new(|_| {}));
    match args.first().map(|s| s.as_str()) {
        Some("interner") => {
            let jitter: u64 = args.get(1).and_then(|s| s.parse().ok()).unwrap_or(1);
            let unit = mmh::internops::unit_node();
            println!("BASE\t{}\t0", mmh::internops::raw(&unit));
            let mut line = String::new();
            let mut n = 0u64;
            while std::io::stdin().read_line(&mut line).unwrap_or(0) > 0 {
                match mmh::internops::parse_line(line.trim_end_matches('\n')) {
                    Some(ops) => {
                        n += 1;
                        let ths = mmh::internops::run_threads(&ops, unit, jitter.wrapping_mul(31).wrapping_add(n));
                        println!("{}", ths.iter().map(|t| t.show()).collect::<Vec<_>>().join("\t"));
                    }
                    None => println!("bad-input"),
                }
                line.clear();
            }
        }
        Some("asstr") => asstr(&args[1..]),
        Some("report") => report_mode(&args[1..]),
        Some("jobs") => jobs(&args[1..]),
        _ => {
            eprintln!("usage: c19 jobs … | c19 interner <jitter>");
            std::process::exit(2);
        }
    }
}

fn jobs(args: &[String]) {
    let (mut timeout, mut jitter, mut dump) = (120u64, 1u64, None);
    // --noref 1: no in-process reference (the caller compares with solo runs in FRESH processes); every J line carries the digest
    let mut noref = false;
    // --nopath 1: the sources are compiled as in-memory programs (no file path: REPL line, editor buffer, web playground)
    let mut nopath = false;
    let mut paths: Vec<String> = vec![];
    let mut threads: Vec<Vec<usize>> = vec![];
    let mut i = 0;
    while i + 1 < args.len() {
        match args[i].as_str() {
            "--timeout" => timeout = args[i + 1].parse().unwrap(),
            "--jitter" => jitter = args[i + 1].parse().unwrap(),
            "--dump" => dump = Some(args[i + 1].clone()),
            "--noref" => noref = args[i + 1] == "1",
            "--nopath" => nopath = args[i + 1] == "1",
            "--paths" => paths = args[i + 1].split(',').map(|s| s.to_string()).collect(),
            "--thread" => threads.push(args[i + 1].split(',').filter_map(|s| s.parse().ok()).collect()),
            _ => {}
        }
        i += 2;
    }
    let srcs: Vec<Option<String>> = paths.iter().map(|p| load(p)).collect();
    // 1. single-threaded reference
    let mut used: Vec<usize> = threads.iter().flatten().copied().collect();
    used.sort();
    used.dedup();
    let mut refs: Vec<Option<Art>> = vec![None; paths.len()];
    for &u in &used {
        if noref {
            continue;
        }
        if let Some(Some(s)) = srcs.get(u) {
            let a = compile_all(s, if nopath { None } else { Some(paths[u].clone().into()) }, 32);
            println!("\n@@REF\t{u}\t{}\t{}\t{}\t{}", paths[u], a.status, a.nontrivial() as u8, a.digest());
            refs[u] = Some(a);
        }
    }
    // 2. concurrent
    let k = threads.len();
    let barrier = std::sync::Arc::new(std::sync::Barrier::new(k));
    let refs = std::sync::Arc::new(refs);
    let srcs = std::sync::Arc::new(srcs);
    let paths = std::sync::Arc::new(paths);
    let (tx, rx) = mpsc::channel::<(usize, Vec<String>)>();
    for (t, list) in threads.iter().cloned().enumerate() {
        let (b, refs, srcs, paths, tx, dump) = (barrier.clone(), refs.clone(), srcs.clone(), paths.clone(), tx.clone(), dump.clone());
        std::thread::Builder::new()
            .stack_size(64 << 20)
            .spawn(move || {
                let mut lines = vec![];
                b.wait();
                let z = (jitter.wrapping_add(t as u64 * 977)).wrapping_mul(0x9E3779B97F4A7C15);
                std::thread::sleep(Duration::from_micros((z >> 54) % 700));
                for (j, &u) in list.iter().enumerate() {
                    let Some(Some(src)) = srcs.get(u) else { continue };
                    let a = compile_all(src, if nopath { None } else { Some(paths[u].clone().into()) }, 32);
                    let (same, d) = match refs.get(u) {
                        Some(Some(r)) => {
                            let d = diff_fields(r, &a);
                            if !d.is_empty() {
                                if let Some(dir) = &dump {
                                    r.dump(dir, &format!("ref.{u}"));
                                    a.dump(dir, &format!("t{t}.j{j}.{u}"));
                                }
                            }
                            (if d.is_empty() { "1" } else { "0" }, d)
                        }
                        _ => {
                            if let Some(dir) = &dump {
                                a.dump(dir, &format!("t{t}.j{j}.{u}"));
                            }
                            ("-", vec![])
                        }
                    };
                    lines.push(format!(
                        "\n@@J\t{t}\t{j}\t{}\t{same}\t{}\t{}\t{}\t{}",
                        paths[u],
                        a.status,
                        d.join(","),
                        a.nontrivial() as u8,
                        a.digest()
                    ));
                }
                let _ = tx.send((t, lines));
            })
            .unwrap();
    }
    drop(tx);
    let deadline = std::time::Instant::now() + Duration::from_secs(timeout);
    let mut done = vec![false; k];
    let mut got = 0;
    while got < k {
        let left = deadline.saturating_duration_since(std::time::Instant::now());
        match rx.recv_timeout(left) {
            Ok((t, lines)) => {
                done[t] = true;
                got += 1;
                for l in lines {
                    println!("{l}");
                }
            }
            Err(mpsc::RecvTimeoutError::Timeout) => {
                let pend: Vec<String> = done.iter().enumerate().filter(|x| !*x.1).map(|x| x.0.to_string()).collect();
                println!("\n@@DEADLOCK\t{}", pend.join(","));
                std::process::exit(3);
            }
            Err(mpsc::RecvTimeoutError::Disconnected) => {
                // a thread died without reporting (panic outside catch_unwind)
                let pend: Vec<String> = done.iter().enumerate().filter(|x| !*x.1).map(|x| x.0.to_string()).collect();
                println!("\n@@DIED\t{}", pend.join(","));
                std::process::exit(4);
            }
        }
    }
    println!("\n@@DONE\t{k}");
}

/// F8 probe: `Symbol::as_str` hands out a `&str` into the interner's single growing buffer with the lifetime erased.
/// Each reader thread interns a name, keeps the slice (exactly what the compiler does with `sym.as_str()`), lets the
/// other threads intern fresh strings (the buffer reallocates), and then checks whether the slice still points at the text.
/// Prints `@@ASSTR checks stale first`: stale = the slice's address no longer holds the symbol's text (buffer moved).
fn asstr(args: &[String]) {
    use mimium_lang::interner::ToSymbol;
    let k: usize = args.first().and_then(|s| s.parse().ok()).unwrap_or(4);
    let rounds: usize = args.get(1).and_then(|s| s.parse().ok()).unwrap_or(200);
    let barrier = std::sync::Arc::new(std::sync::Barrier::new(k));
    let hs: Vec<_> = (0..k)
        .map(|t| {
            let b = barrier.clone();
            std::thread::spawn(move || {
                let (mut checks, mut stale, mut first) = (0u64, 0u64, String::new());
                b.wait();
                for r in 0..rounds {
                    let name = format!("module_name_{t}_{r}");
                    let sym = name.to_symbol();
                    let slice: &str = sym.as_str();
                    // what other compilations do meanwhile: intern new identifiers
                    for j in 0..50 {
                        let _ = format!("ident_{t}_{r}_{j}_padding_padding_padding").to_symbol();
                    }
                    std::thread::yield_now();
                    checks += 1;
                    // do NOT read through `slice` (it may dangle: that would be the use-after-free itself, observed to
                    // SIGSEGV); compare its address with where the same symbol's text lives now
                    let (old, len) = (slice.as_ptr() as usize, slice.len());
                    let again = sym.as_str();
                    if again.as_ptr() as usize != old {
                        stale += 1;
                        if first.is_empty() {
                            first = format!("slice of {name:?} (len {len}) taken at {old:#x}, text now lives at {:#x}", again.as_ptr() as usize);
                        }
                    }
                }
                (checks, stale, first)
            })
        })
        .collect();
    let (mut c, mut s, mut f) = (0, 0, String::new());
    for h in hs {
        if let Ok((a, b, x)) = h.join() {
            c += a;
            s += b;
            if f.is_empty() {
                f = x;
            }
        }
    }
    println!("\n@@ASSTR\t{c}\t{s}\t{f}");
}

/// Rendered diagnostics: K threads compile DIFFERENT ill-typed in-memory programs at the same time and print their
/// diagnostics with `utils::error::report`, all under the same nominal path (programs without a file; mimium-web uses "/").
/// `report` writes to fd 2, which is pointed at a scratch file meanwhile. Every diagnostic block printed concurrently must be
/// byte-identical to one the same job prints alone (blocks are attributed to jobs by the undefined variable they name).
/// usage: c19 report K ROUNDS SCRATCHFILE  ->  `@@REPORT \t blocks \t bad \t lost \t first-bad (escaped) \t alone (escaped)`
fn report_mode(args: &[String]) {
    use std::io::{Read, Seek, SeekFrom, Write};
    use std::os::fd::AsRawFd;
    let k: usize = args.first().and_then(|s| s.parse().ok()).unwrap_or(4);
    let rounds: usize = args.get(1).and_then(|s| s.parse().ok()).unwrap_or(50);
    let scratch = args.get(2).cloned().unwrap_or_else(|| format!("/tmp/c19_report_{}.txt", std::process::id()));
    let tag = |i: usize| format!("job{i}x");
    let source = |i: usize| {
        let t = tag(i);
        let pad = "// padding line\n".repeat(i * 3 % 11);
        format!("{pad}fn dsp(){{\n    let {t}_local = 1.0 + {t}_missing_one\n    {t}_local * {t}_missing_two\n}}\n")
    };
    fn job(src: &str) {
        let mut ctx = mimium_lang::ExecContext::new([].into_iter(), None, mimium_lang::Config::default());
        ctx.prepare_compiler();
        if let Err(errs) = ctx.get_compiler().unwrap().emit_mir(src) {
            mimium_lang::utils::error::report(src, std::path::PathBuf::from("/"), &errs);
        }
    }
    fn strip_ansi(s: &str) -> String {
        let mut out = String::new();
        let mut it = s.chars().peekable();
        while let Some(c) = it.next() {
            if c == '\u{1b}' && it.peek() == Some(&'[') {
                for d in it.by_ref() {
                    if d.is_ascii_alphabetic() {
                        break;
                    }
                }
            } else {
                out.push(c);
            }
        }
        out
    }
    fn blocks(text: &str) -> Vec<String> {
        let mut res: Vec<String> = vec![];
        for line in strip_ansi(text).lines() {
            if line.starts_with("Error:") || res.is_empty() {
                res.push(String::new());
            }
            let cur = res.last_mut().unwrap();
            cur.push_str(line.trim_end());
            cur.push('\n');
        }
        res.into_iter().filter(|b| b.starts_with("Error:")).collect()
    }
    let capture = |f: &mut dyn FnMut()| -> String {
        let mut file = std::fs::OpenOptions::new().create(true).truncate(true).read(true).write(true).open(&scratch).unwrap();
        let _ = std::io::stderr().flush();
        let saved = unsafe { libc::dup(2) };
        unsafe { libc::dup2(file.as_raw_fd(), 2) };
        f();
        let _ = std::io::stderr().flush();
        unsafe {
            libc::dup2(saved, 2);
            libc::close(saved);
        }
        let mut text = String::new();
        let _ = file.seek(SeekFrom::Start(0));
        let _ = file.read_to_string(&mut text);
        let _ = std::fs::remove_file(&scratch);
        text
    };
    let sources: Vec<String> = (0..k).map(source).collect();
    let mut alone: Vec<Vec<String>> = vec![];
    for s in &sources {
        let t = capture(&mut || job(s));
        alone.push(blocks(&t));
    }
    let barrier = std::sync::Arc::new(std::sync::Barrier::new(k));
    let text = capture(&mut || {
        let hs: Vec<_> = (0..k)
            .map(|i| {
                let (src, b) = (sources[i].clone(), barrier.clone());
                std::thread::spawn(move || {
                    b.wait();
                    for _ in 0..rounds {
                        job(&src);
                    }
                })
            })
            .collect();
        for h in hs {
            let _ = h.join();
        }
    });
    let bs = blocks(&text);
    let owner = |b: &str| (0..k).rev().find(|&i| b.lines().next().unwrap_or("").contains(&tag(i)));
    let mut per = vec![0usize; k];
    let (mut bad, mut first, mut first_alone) = (0usize, String::new(), String::new());
    for b in &bs {
        match owner(b) {
            Some(i) => {
                per[i] += 1;
                if !alone[i].contains(b) {
                    bad += 1;
                    if first.is_empty() {
                        first = b.clone();
                        first_alone = alone[i].join("");
                    }
                }
            }
            None => {
                bad += 1;
                if first.is_empty() {
                    first = b.clone();
                }
            }
        }
    }
    let lost: usize = (0..k).map(|i| (alone[i].len() * rounds).abs_diff(per[i])).sum();
    let esc = |s: &str| s.replace('\\', "\\\\").replace('\n', "\\n").replace('\t', " ");
    println!("\n@@REPORT\t{}\t{bad}\t{lost}\t{}\t{}\t{}", bs.len(), esc(&first), esc(&first_alone), alone.iter().map(|a| a.len()).sum::<usize>());
}
