//! Prints the real `Program` (`mimium_lang::compiler::parser::parse_program`) in the wire format of the lowering correspondence
//! (C16 / C04 / C14): an S-expression with every span as `@start..end`, symbols quoted and escaped.  The Lean side is
//! `lean/Mimium/Model/LowerIO.lean` (`showProgram`); the two strings are compared exactly.
use mimium_lang::ast::operators::Op;
use mimium_lang::ast::program::{Program, ProgramStatement, UseTarget, Visibility};
use mimium_lang::ast::statement::Statement;
use mimium_lang::ast::{Expr, Literal, MatchPattern, RecordField, StageKind};
use mimium_lang::interner::{ExprNodeId, Symbol, TypeNodeId};
use mimium_lang::pattern::{Pattern, TypedId};
use mimium_lang::types::{PType, Type};
use mimium_lang::utils::metadata::Span;

fn sp(s: &Span, o: &mut String) {
    o.push('@');
    o.push_str(&s.start.to_string());
    o.push_str("..");
    o.push_str(&s.end.to_string());
}

fn sym_str(s: &str, o: &mut String) {
    o.push('\'');
    for c in s.chars() {
        if c.is_ascii_alphanumeric() || c == '_' || c == '.' || c == '$' {
            o.push(c);
        } else {
            o.push('\\');
            o.push_str(&format!("{:x}", c as u32));
            o.push(';');
        }
    }
    o.push('\'');
}

fn sym(s: &Symbol, o: &mut String) {
    sym_str(s.as_str(), o)
}

fn lit(l: &Literal, o: &mut String) {
    match l {
        Literal::String(s) => {
            o.push_str("(string ");
            sym(s, o);
            o.push(')');
        }
        Literal::Int(n) => o.push_str(&format!("(int {n})")),
        Literal::Float(s) => {
            o.push_str("(float ");
            sym(s, o);
            o.push(')');
        }
        Literal::SelfLit => o.push_str("self"),
        Literal::Now => o.push_str("now"),
        Literal::SampleRate => o.push_str("samplerate"),
        Literal::PlaceHolder => o.push_str("placeholder"),
    }
}

fn op(x: &Op, o: &mut String) {
    let s = match x {
        Op::Sum => "sum",
        Op::Minus => "minus",
        Op::Product => "product",
        Op::Divide => "divide",
        Op::Equal => "equal",
        Op::NotEqual => "notequal",
        Op::LessThan => "lessthan",
        Op::LessEqual => "lessequal",
        Op::GreaterThan => "greaterthan",
        Op::GreaterEqual => "greaterequal",
        Op::Modulo => "modulo",
        Op::Exponent => "exponent",
        Op::And => "and",
        Op::Or => "or",
        Op::At => "at",
        Op::Pipe => "pipe",
        Op::PipeMacro => "pipemacro",
        Op::Unknown(u) => {
            o.push_str("(unknown ");
            sym_str(u, o);
            o.push(')');
            return;
        }
    };
    o.push_str(s);
}

fn ty(t: &TypeNodeId, o: &mut String) {
    let span = t.to_span();
    match t.to_type() {
        Type::Primitive(PType::Unit) => o.push_str("(unit"),
        Type::Primitive(PType::Int) => o.push_str("(int"),
        Type::Primitive(PType::Numeric) => o.push_str("(numeric"),
        Type::Primitive(PType::String) => o.push_str("(string"),
        Type::Array(e) => {
            o.push_str("(tarray ");
            ty(&e, o);
        }
        Type::Tuple(ts) => {
            o.push_str("(ttuple");
            for e in &ts {
                o.push(' ');
                ty(e, o);
            }
        }
        Type::Record(fs) => {
            o.push_str("(trecord");
            for f in &fs {
                o.push_str(" (");
                sym(&f.key, o);
                o.push(' ');
                ty(&f.ty, o);
                o.push_str(if f.has_default { " 1)" } else { " 0)" });
            }
        }
        Type::Function { arg, ret } => {
            o.push_str("(tfn ");
            ty(&arg, o);
            o.push(' ');
            ty(&ret, o);
        }
        Type::Code(e) => {
            o.push_str("(tcode ");
            ty(&e, o);
        }
        Type::Union(ts) => {
            o.push_str("(tunion");
            for e in &ts {
                o.push(' ');
                ty(e, o);
            }
        }
        Type::TypeAlias(n) => {
            o.push_str("(talias ");
            sym(&n, o);
        }
        Type::Unknown => o.push_str("(unknown"),
        other => {
            // never built by lower.rs
            o.push_str("(tother ");
            sym_str(&format!("{other:?}"), o);
        }
    }
    sp(&span, o);
    o.push(')');
}

fn pat(p: &Pattern, o: &mut String) {
    match p {
        Pattern::Single(s) => {
            o.push_str("(psingle ");
            sym(s, o);
            o.push(')');
        }
        Pattern::Placeholder => o.push_str("pplaceholder"),
        Pattern::Tuple(ps) => {
            o.push_str("(ptuple");
            for q in ps {
                o.push(' ');
                pat(q, o);
            }
            o.push(')');
        }
        Pattern::Record(fs) => {
            o.push_str("(precord");
            for (k, q) in fs {
                o.push_str(" (");
                sym(k, o);
                o.push(' ');
                pat(q, o);
                o.push(')');
            }
            o.push(')');
        }
        Pattern::Error => o.push_str("perror"),
    }
}

fn mpat(p: &MatchPattern, o: &mut String) {
    match p {
        MatchPattern::Literal(l) => {
            o.push_str("(mlit ");
            lit(l, o);
            o.push(')');
        }
        MatchPattern::Wildcard => o.push_str("mwild"),
        MatchPattern::Variable(s) => {
            o.push_str("(mvar ");
            sym(s, o);
            o.push(')');
        }
        MatchPattern::Constructor(s, inner) => {
            o.push_str("(mctor ");
            sym(s, o);
            o.push(' ');
            match inner {
                Some(i) => mpat(i, o),
                None => o.push('-'),
            }
            o.push(')');
        }
        MatchPattern::Tuple(ps) => {
            o.push_str("(mtuple");
            for q in ps {
                o.push(' ');
                mpat(q, o);
            }
            o.push(')');
        }
    }
}

fn stage(k: &StageKind, o: &mut String) {
    o.push_str(match k {
        StageKind::Persistent => "persistent",
        StageKind::Macro => "macro",
        StageKind::Main => "main",
    })
}

fn opt_expr(e: &Option<ExprNodeId>, o: &mut String) {
    match e {
        Some(e) => expr(e, o),
        None => o.push('-'),
    }
}

fn opt_ty(t: &Option<TypeNodeId>, o: &mut String) {
    match t {
        Some(t) => ty(t, o),
        None => o.push('-'),
    }
}

fn tid(t: &TypedId, o: &mut String) {
    o.push_str("(tid ");
    sym(&t.id, o);
    o.push(' ');
    ty(&t.ty, o);
    o.push(' ');
    opt_expr(&t.default_value, o);
    o.push(')');
}

fn fields(fs: &[RecordField], o: &mut String) {
    for f in fs {
        o.push_str(" (");
        sym(&f.name, o);
        o.push(' ');
        expr(&f.expr, o);
        o.push(')');
    }
}

fn exprs(es: &[ExprNodeId], o: &mut String) {
    for e in es {
        o.push(' ');
        expr(e, o);
    }
}

fn tpat(p: &mimium_lang::pattern::TypedPattern, o: &mut String) {
    o.push_str("(tpat ");
    pat(&p.pat, o);
    o.push(' ');
    ty(&p.ty, o);
    o.push(' ');
    opt_expr(&p.default_value, o);
    o.push(')');
}

pub fn expr(e: &ExprNodeId, o: &mut String) {
    let span = e.to_span();
    match e.to_expr() {
        Expr::Literal(l) => {
            o.push_str("(lit ");
            lit(&l, o);
        }
        Expr::Var(s) => {
            o.push_str("(var ");
            sym(&s, o);
        }
        Expr::QualifiedVar(p) => {
            o.push_str("(qvar");
            for s in &p.segments {
                o.push(' ');
                sym(s, o);
            }
        }
        Expr::Block(b) => {
            o.push_str("(block ");
            opt_expr(&b, o);
        }
        Expr::Tuple(es) => {
            o.push_str("(tuple");
            exprs(&es, o);
        }
        Expr::Proj(x, n) => {
            o.push_str("(proj ");
            expr(&x, o);
            o.push_str(&format!(" {n}"));
        }
        Expr::ArrayAccess(x, i) => {
            o.push_str("(arrayaccess ");
            expr(&x, o);
            o.push(' ');
            expr(&i, o);
        }
        Expr::ArrayLiteral(es) => {
            o.push_str("(array");
            exprs(&es, o);
        }
        Expr::RecordLiteral(fs) => {
            o.push_str("(record");
            fields(&fs, o);
        }
        Expr::ImcompleteRecord(fs) => {
            o.push_str("(increcord");
            fields(&fs, o);
        }
        Expr::RecordUpdate(x, fs) => {
            o.push_str("(recupdate ");
            expr(&x, o);
            fields(&fs, o);
        }
        Expr::FieldAccess(x, f) => {
            o.push_str("(field ");
            expr(&x, o);
            o.push(' ');
            sym(&f, o);
        }
        Expr::Apply(f, args) => {
            o.push_str("(app ");
            expr(&f, o);
            o.push_str(" (args");
            exprs(&args, o);
            o.push(')');
        }
        Expr::MacroExpand(f, args) => {
            o.push_str("(macro ");
            expr(&f, o);
            o.push_str(" (args");
            exprs(&args, o);
            o.push(')');
        }
        Expr::BinOp(l, (x, xs), r) => {
            o.push_str("(binop ");
            op(&x, o);
            sp(&xs, o);
            o.push(' ');
            expr(&l, o);
            o.push(' ');
            expr(&r, o);
        }
        Expr::UniOp((x, xs), r) => {
            o.push_str("(uniop ");
            op(&x, o);
            sp(&xs, o);
            o.push(' ');
            expr(&r, o);
        }
        Expr::Paren(x) => {
            o.push_str("(paren ");
            expr(&x, o);
        }
        Expr::Lambda(ps, rt, b) => {
            o.push_str("(lambda (params");
            for p in &ps {
                o.push(' ');
                tid(p, o);
            }
            o.push_str(") ");
            opt_ty(&rt, o);
            o.push(' ');
            expr(&b, o);
        }
        Expr::Assign(l, r) => {
            o.push_str("(assign ");
            expr(&l, o);
            o.push(' ');
            expr(&r, o);
        }
        Expr::Then(x, k) => {
            o.push_str("(then ");
            expr(&x, o);
            o.push(' ');
            opt_expr(&k, o);
        }
        Expr::Feed(s, x) => {
            o.push_str("(feed ");
            sym(&s, o);
            o.push(' ');
            expr(&x, o);
        }
        Expr::Let(p, x, k) => {
            o.push_str("(let ");
            tpat(&p, o);
            o.push(' ');
            expr(&x, o);
            o.push(' ');
            opt_expr(&k, o);
        }
        Expr::LetRec(id, x, k) => {
            o.push_str("(letrec ");
            tid(&id, o);
            o.push(' ');
            expr(&x, o);
            o.push(' ');
            opt_expr(&k, o);
        }
        Expr::If(c, t, e2) => {
            o.push_str("(if ");
            expr(&c, o);
            o.push(' ');
            expr(&t, o);
            o.push(' ');
            opt_expr(&e2, o);
        }
        Expr::Match(s, arms) => {
            o.push_str("(match ");
            expr(&s, o);
            for a in &arms {
                o.push_str(" (arm ");
                mpat(&a.pattern, o);
                o.push(' ');
                expr(&a.body, o);
                o.push(')');
            }
        }
        Expr::Bracket(x) => {
            o.push_str("(bracket ");
            expr(&x, o);
        }
        Expr::Escape(x) => {
            o.push_str("(escape ");
            expr(&x, o);
        }
        Expr::Error => o.push_str("(error"),
    }
    sp(&span, o);
    o.push(')');
}

fn statement(s: &Statement, o: &mut String) {
    match s {
        Statement::Let(p, e) => {
            o.push_str("(slet ");
            tpat(p, o);
            o.push(' ');
            expr(e, o);
            o.push(')');
        }
        Statement::LetRec(id, e) => {
            o.push_str("(sletrec ");
            tid(id, o);
            o.push(' ');
            expr(e, o);
            o.push(')');
        }
        Statement::Assign(l, r) => {
            o.push_str("(sassign ");
            expr(l, o);
            o.push(' ');
            expr(r, o);
            o.push(')');
        }
        Statement::Single(e) => {
            o.push_str("(single ");
            expr(e, o);
            o.push(')');
        }
        Statement::DeclareStage(k) => {
            o.push_str("(sstage ");
            stage(k, o);
            o.push(')');
        }
        Statement::Error => o.push_str("serror"),
    }
}

fn vis(v: &Visibility, o: &mut String) {
    o.push_str(match v {
        Visibility::Public => "pub",
        Visibility::Private => "priv",
    })
}

fn item(x: &(ProgramStatement, Span), o: &mut String) {
    o.push('[');
    pstmt(&x.0, o);
    sp(&x.1, o);
    o.push(']');
}

fn pstmt(s: &ProgramStatement, o: &mut String) {
    match s {
        ProgramStatement::FnDefinition { visibility, name, args, return_type, body } => {
            o.push_str("(fn ");
            vis(visibility, o);
            o.push(' ');
            sym(name, o);
            o.push_str(" (params");
            for p in &args.0 {
                o.push(' ');
                tid(p, o);
            }
            sp(&args.1.span, o);
            o.push_str(") ");
            opt_ty(return_type, o);
            o.push(' ');
            expr(body, o);
            o.push(')');
        }
        ProgramStatement::StageDeclaration { stage: k } => {
            o.push_str("(stage ");
            stage(k, o);
            o.push(')');
        }
        ProgramStatement::GlobalStatement(st) => {
            o.push_str("(global ");
            statement(st, o);
            o.push(')');
        }
        ProgramStatement::Import(s) => {
            o.push_str("(import ");
            sym(s, o);
            o.push(')');
        }
        ProgramStatement::ModuleDefinition { visibility, name, body } => {
            o.push_str("(mod ");
            vis(visibility, o);
            o.push(' ');
            sym(name, o);
            o.push(' ');
            match body {
                Some(b) => {
                    o.push_str("(body");
                    for x in b {
                        o.push(' ');
                        item(x, o);
                    }
                    o.push(')');
                }
                None => o.push('-'),
            }
            o.push(')');
        }
        ProgramStatement::UseStatement { visibility, path, target } => {
            o.push_str("(use ");
            vis(visibility, o);
            o.push_str(" (path");
            for s in &path.segments {
                o.push(' ');
                sym(s, o);
            }
            o.push_str(") ");
            match target {
                UseTarget::Single => o.push_str("single"),
                UseTarget::Wildcard => o.push_str("wildcard"),
                UseTarget::Multiple(ss) => {
                    o.push_str("(multiple");
                    for s in ss {
                        o.push(' ');
                        sym(s, o);
                    }
                    o.push(')');
                }
            }
            o.push(')');
        }
        ProgramStatement::TypeAlias { visibility, name, target_type } => {
            o.push_str("(alias ");
            vis(visibility, o);
            o.push(' ');
            sym(name, o);
            o.push(' ');
            ty(target_type, o);
            o.push(')');
        }
        ProgramStatement::TypeDeclaration { visibility, name, variants, is_recursive } => {
            o.push_str("(typedecl ");
            vis(visibility, o);
            o.push(' ');
            sym(name, o);
            o.push_str(if *is_recursive { " rec" } else { " norec" });
            for v in variants {
                o.push_str(" (variant ");
                sym(&v.name, o);
                o.push(' ');
                opt_ty(&v.payload, o);
                o.push(')');
            }
            o.push(')');
        }
        ProgramStatement::Comment(s) => {
            o.push_str("(comment ");
            sym(s, o);
            o.push(')');
        }
        ProgramStatement::DocComment(s) => {
            o.push_str("(doccomment ");
            sym(s, o);
            o.push(')');
        }
        ProgramStatement::Error => o.push_str("perr"),
    }
}

pub fn program(p: &Program) -> String {
    let mut o = String::from("(program");
    for x in &p.statements {
        o.push(' ');
        item(x, &mut o);
    }
    o.push(')');
    o
}
