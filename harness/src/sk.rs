//! Skeleton text format shared with the Lean driver: `D3` delay, `M1` mem, `E2` feed, `F[a,b,..]` fn call.
use state_tree::tree::StateTreeSkeleton;

pub type Sk = StateTreeSkeleton<u64>;

pub fn show(s: &Sk) -> String {
    match s {
        Sk::Delay { len } => format!("D{len}"),
        Sk::Mem(n) => format!("M{n}"),
        Sk::Feed(n) => format!("E{n}"),
        Sk::FnCall(cs) => {
            let inner: Vec<String> = cs.iter().map(|c| show(c)).collect();
            format!("F[{}]", inner.join(","))
        }
    }
}

pub fn parse(s: &str) -> Option<Sk> {
    let b = s.as_bytes();
    let mut i = 0;
    let r = parse_at(b, &mut i)?;
    if i == b.len() { Some(r) } else { None }
}

fn parse_at(b: &[u8], i: &mut usize) -> Option<Sk> {
    let c = *b.get(*i)?;
    *i += 1;
    match c {
        b'D' | b'M' | b'E' => {
            let st = *i;
            while *i < b.len() && b[*i].is_ascii_digit() {
                *i += 1;
            }
            let n: u64 = std::str::from_utf8(&b[st..*i]).ok()?.parse().ok()?;
            Some(match c {
                b'D' => Sk::Delay { len: n },
                b'M' => Sk::Mem(n),
                _ => Sk::Feed(n),
            })
        }
        b'F' => {
            if *b.get(*i)? != b'[' {
                return None;
            }
            *i += 1;
            let mut cs = vec![];
            if *b.get(*i)? == b']' {
                *i += 1;
                return Some(Sk::FnCall(cs));
            }
            loop {
                cs.push(Box::new(parse_at(b, i)?));
                match *b.get(*i)? {
                    b',' => *i += 1,
                    b']' => {
                        *i += 1;
                        break;
                    }
                    _ => return None,
                }
            }
            Some(Sk::FnCall(cs))
        }
        _ => None,
    }
}

/// Generic skeleton (any SizedType) to the u64 one.
pub fn to_u64<T: state_tree::tree::SizedType>(s: &StateTreeSkeleton<T>) -> Sk {
    match s {
        StateTreeSkeleton::Delay { len } => Sk::Delay { len: *len },
        StateTreeSkeleton::Mem(t) => Sk::Mem(t.word_size()),
        StateTreeSkeleton::Feed(t) => Sk::Feed(t.word_size()),
        StateTreeSkeleton::FnCall(cs) => Sk::FnCall(cs.iter().map(|c| Box::new(to_u64(c))).collect()),
    }
}
