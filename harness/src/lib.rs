//! Shared pieces of the correspondence harness (one binary per property under src/bin/).
pub mod rng;
pub mod runner;
pub mod sk;
pub mod detcomp;
pub mod internops;
pub mod lower_print;
