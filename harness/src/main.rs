//! mmh — runs the real mimium-rs code for the correspondence checks of /verif.
mod c08;
mod rng;
mod sk;

fn main() {
    let args: Vec<String> = std::env::args().skip(1).collect();
    if args.is_empty() {
        eprintln!("usage: mmh <mode> ...");
        std::process::exit(2);
    }
    match args[0].as_str() {
        "c08" => c08::main(&args[1..]),
        m => {
            eprintln!("unknown mode {m}");
            std::process::exit(2);
        }
    }
}
