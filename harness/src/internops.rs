//! C15/C19: drive the REAL process-global interner / type arena with the op lists of the Lean model
//! (`Model/Interner.lean`): `tid:i:<str>` = `to_symbol`, `tid:r:<k>` = `as_str` of the k-th symbol the thread obtained,
//! `tid:a:<p>:<k1,..>` = `Type::Tuple([unit; p] ++ kids).into_id()`, `tid:g:<k>` = `to_type()` of its k-th node.
//! Output per thread: `hs|as|strs|nodes` with RAW ids (symbol index, slot index of the type key).
use mimium_lang::interner::{Symbol, ToSymbol, TypeNodeId};
use mimium_lang::types::{PType, Type};

#[derive(Clone, Debug)]
pub enum Op {
    Intern(String),
    Resolve(usize),
    Alloc(usize, Vec<usize>),
    Get(usize),
}

pub fn parse_line(line: &str) -> Option<Vec<(usize, Op)>> {
    let mut v = vec![];
    for tok in line.split(';').filter(|s| !s.is_empty()) {
        let f: Vec<&str> = tok.split(':').collect();
        let t: usize = f.first()?.parse().ok()?;
        let op = match (f.get(1).copied()?, f.len()) {
            ("i", 3) => Op::Intern(f[2].to_string()),
            ("r", 3) => Op::Resolve(f[2].parse().ok()?),
            ("a", 3) => Op::Alloc(f[2].parse().ok()?, vec![]),
            ("a", 4) => Op::Alloc(
                f[2].parse().ok()?,
                if f[3].is_empty() { vec![] } else { f[3].split(',').filter_map(|x| x.parse().ok()).collect() },
            ),
            ("g", 3) => Op::Get(f[2].parse().ok()?),
            _ => return None,
        };
        v.push((t, op));
    }
    Some(v)
}

pub fn raw(id: &TypeNodeId) -> u64 {
    // slotmap key Debug: `TypeKey(<idx>v<version>)`
    let s = format!("{:?}", id.0);
    let a = s.find('(').map(|i| i + 1).unwrap_or(0);
    let b = s.find('v').unwrap_or(s.len());
    s[a..b].parse().unwrap_or(u64::MAX)
}

#[derive(Default)]
pub struct Th {
    pub hs: Vec<Symbol>,
    pub nodes_h: Vec<TypeNodeId>,
    pub strs: Vec<String>,
    pub nodes: Vec<String>,
}

impl Th {
    pub fn exec(&mut self, op: &Op, unit: TypeNodeId) {
        match op {
            Op::Intern(s) => self.hs.push(s.to_symbol()),
            Op::Resolve(k) => self.strs.push(match self.hs.get(*k) {
                Some(sym) => sym.as_str().to_string(),
                None => "~".to_string(),
            }),
            Op::Alloc(p, ks) => {
                let mut v: Vec<TypeNodeId> = vec![unit; *p];
                v.extend(ks.iter().filter_map(|k| self.nodes_h.get(*k).copied()));
                self.nodes_h.push(Type::Tuple(v).into_id());
            }
            Op::Get(k) => self.nodes.push(match self.nodes_h.get(*k) {
                None => "~".to_string(),
                Some(id) => match id.to_type() {
                    Type::Tuple(v) => {
                        let p = v.iter().take_while(|x| x.0 == unit.0).count();
                        format!("{p}/{}", v[p..].iter().map(|x| raw(x).to_string()).collect::<Vec<_>>().join("."))
                    }
                    other => format!("?{other}"),
                },
            }),
        }
    }
    pub fn show(&self) -> String {
        format!(
            "{}|{}|{}|{}",
            self.hs.iter().map(|s| s.0.to_string()).collect::<Vec<_>>().join(","),
            self.nodes_h.iter().map(|s| raw(s).to_string()).collect::<Vec<_>>().join(","),
            self.strs.join(","),
            self.nodes.join(",")
        )
    }
}

pub fn unit_node() -> TypeNodeId {
    Type::Primitive(PType::Unit).into_id()
}

/// logical threads, executed in exactly the listed order (the schedule is the input)
pub fn run_sequential(ops: &[(usize, Op)], unit: TypeNodeId) -> Vec<Th> {
    let k = ops.iter().map(|x| x.0 + 1).max().unwrap_or(0);
    let mut ths: Vec<Th> = (0..k).map(|_| Th::default()).collect();
    for (t, op) in ops {
        ths[*t].exec(op, unit);
    }
    ths
}

/// real OS threads, each running its projection of the schedule; the interleaving is whatever the OS does
pub fn run_threads(ops: &[(usize, Op)], unit: TypeNodeId, jitter: u64) -> Vec<Th> {
    let k = ops.iter().map(|x| x.0 + 1).max().unwrap_or(0);
    let barrier = std::sync::Arc::new(std::sync::Barrier::new(k));
    let hs: Vec<_> = (0..k)
        .map(|t| {
            let mine: Vec<Op> = ops.iter().filter(|x| x.0 == t).map(|x| x.1.clone()).collect();
            let b = barrier.clone();
            std::thread::spawn(move || {
                let mut th = Th::default();
                b.wait();
                let mut z = jitter.wrapping_add(t as u64).wrapping_mul(0x9E3779B97F4A7C15);
                for (i, op) in mine.iter().enumerate() {
                    z ^= z >> 29;
                    z = z.wrapping_mul(0xBF58476D1CE4E5B9);
                    if (z >> 60) == 0 || i == 0 {
                        for _ in 0..(z >> 52) & 0xff {
                            std::hint::spin_loop();
                        }
                        std::thread::yield_now();
                    }
                    th.exec(op, unit);
                }
                th
            })
        })
        .collect();
    hs.into_iter().map(|h| h.join().unwrap_or_default()).collect()
}
