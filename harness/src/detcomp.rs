//! C15/C19: compile one source with the real compiler and collect every artefact the property names,
//! in a canonical, address-free text form (so that two compilations can be compared across processes).
use mimium_audiodriver::{
    backends::local_buffer::LocalBufferDriver,
    driver::{Driver, RuntimeData},
};
use mimium_lang::{Config, ExecContext, plugin::Plugin, runtime::vm::Program, utils::error::ReportableError};
use std::hash::Hasher;
use std::path::PathBuf;

pub const FIELDS: [&str; 8] = ["diag", "bc", "bcx", "wasm", "mir", "sk", "out", "rust"];

#[derive(Default, Clone)]
pub struct Art {
    /// field name -> canonical text (wasm: hex of the bytes)
    pub f: Vec<(&'static str, String)>,
    pub prog: Option<Program>,
    /// ok | err (diagnostics) | panic
    pub status: &'static str,
}

pub fn h64(s: &str) -> String {
    // SipHash with fixed zero keys: stable across processes
    #[allow(deprecated)]
    let mut h = std::hash::SipHasher::new();
    h.write(s.as_bytes());
    format!("{:016x}", h.finish())
}

fn errs(es: &[Box<dyn ReportableError>]) -> String {
    es.iter()
        .map(|e| {
            let labels = e
                .get_labels()
                .iter()
                .map(|(loc, m)| format!("{}..{}:{m}", loc.span.start, loc.span.end))
                .collect::<Vec<_>>()
                .join("; ");
            format!("{} [{labels}]", e.get_message())
        })
        .collect::<Vec<_>>()
        .join(" | ")
}

fn guard<T>(f: impl FnOnce() -> T) -> Result<T, String> {
    std::panic::catch_unwind(std::panic::AssertUnwindSafe(f)).map_err(|e| {
        let m = if let Some(s) = e.downcast_ref::<&str>() {
            s.to_string()
        } else if let Some(s) = e.downcast_ref::<String>() {
            s.clone()
        } else {
            "?".to_string()
        };
        format!("PANIC:{m}")
    })
}

/// Compile `src` to MIR, bytecode, WASM, Rust, and run `n` samples on the VM.
pub fn compile_all(src: &str, path: Option<PathBuf>, n: usize) -> Art {
    let mut a = Art { status: "ok", ..Default::default() };
    let mut diag = String::new();
    let mut put = |a: &mut Art, k: &'static str, v: String| a.f.push((k, v));

    let mut driver = LocalBufferDriver::new(n);
    let plug: Box<dyn Plugin> = Box::new(driver.get_as_plugin());
    let mut ctx = ExecContext::new([plug].into_iter(), path, Config::default());
    ctx.add_system_plugin(mimium_scheduler::get_default_scheduler_plugin());
    ctx.prepare_compiler();

    // MIR + state skeleton
    let (mut mir_s, mut sk_s) = ("-".to_string(), "-".to_string());
    match guard(|| ctx.get_compiler().unwrap().emit_mir(src)) {
        Ok(Ok(mir)) => {
            match guard(|| format!("{mir}")) {
                Ok(s) => mir_s = s,
                Err(p) => mir_s = p,
            }
            sk_s = format!("{:?}", mir.get_dsp_state_skeleton());
        }
        Ok(Err(es)) => {
            a.status = "err";
            diag = errs(&es);
        }
        Err(p) => {
            a.status = "panic";
            diag = p;
        }
    }
    // bytecode
    let (mut bc_s, mut bcx_s) = ("-".to_string(), "-".to_string());
    match guard(|| ctx.get_compiler().unwrap().emit_bytecode(src)) {
        Ok(Ok(p)) => {
            bc_s = format!("{p}");
            bcx_s = guard(|| {
                format!(
                    "ext={:?} types={:?} globals={:?} dsp={:?} io={:?} strings={:?}",
                    p.ext_fun_table.iter().map(|(n, t)| format!("{n}:{}", t.to_type())).collect::<Vec<_>>(),
                    p.type_table.iter().map(|t| format!("{}", t.to_type())).collect::<Vec<_>>(),
                    p.global_vals,
                    p.dsp_index,
                    p.iochannels,
                    p.strings
                )
            })
            .unwrap_or_else(|e| e);
            a.prog = Some(p);
        }
        Ok(Err(es)) => bc_s = format!("ERR:{}", errs(&es)),
        Err(p) => bc_s = p,
    }
    // wasm
    let wasm_s = match guard(|| ctx.get_compiler().unwrap().emit_wasm(src)) {
        Ok(Ok(w)) => {
            let mut s = String::with_capacity(w.bytes.len() * 2 + 64);
            for b in &w.bytes {
                s.push_str(&format!("{b:02x}"));
            }
            s.push_str(&format!(" sk={:?} io={:?}", w.dsp_state_skeleton, w.io_channels));
            s
        }
        Ok(Err(es)) => format!("ERR:{}", errs(&es)),
        Err(p) => p,
    };
    // rust
    let rust_s = match guard(|| ctx.get_compiler().unwrap().emit_rust(src)) {
        Ok(Ok(r)) => r.source,
        Ok(Err(es)) => format!("ERR:{}", errs(&es)),
        Err(p) => p,
    };
    // run on the VM
    let out_s = match &a.prog {
        None => "-".to_string(),
        Some(p) if p.dsp_index.is_none() => "nodsp".to_string(),
        Some(p) => {
            let p = p.clone();
            guard(move || {
                ctx.prepare_machine_with_bytecode(p);
                let _ = ctx.run_main();
                let rd = {
                    let c: &mut ExecContext = &mut ctx;
                    match RuntimeData::try_from(c) {
                        Ok(r) => r,
                        Err(_) => return "noruntime".to_string(),
                    }
                };
                driver.init(rd, None);
                driver.play();
                driver.get_generated_samples().iter().map(|x| format!("{:016x}", x.to_bits())).collect::<Vec<_>>().join(",")
            })
            .unwrap_or_else(|e| e)
        }
    };
    put(&mut a, "diag", diag);
    put(&mut a, "bc", bc_s);
    put(&mut a, "bcx", bcx_s);
    put(&mut a, "wasm", wasm_s);
    put(&mut a, "mir", mir_s);
    put(&mut a, "sk", sk_s);
    put(&mut a, "out", out_s);
    put(&mut a, "rust", rust_s);
    a
}

impl Art {
    pub fn digest(&self) -> String {
        self.f.iter().map(|(k, v)| format!("{k}={}:{}", h64(v), v.len())).collect::<Vec<_>>().join("\t")
    }
    pub fn get(&self, k: &str) -> &str {
        self.f.iter().find(|(n, _)| *n == k).map(|(_, v)| v.as_str()).unwrap_or("")
    }
    pub fn dump(&self, dir: &str, tag: &str) {
        let _ = std::fs::create_dir_all(dir);
        for (k, v) in &self.f {
            let _ = std::fs::write(format!("{dir}/{tag}.{k}"), v);
        }
    }
    /// nontrivial = produced bytecode with at least one function
    pub fn nontrivial(&self) -> bool {
        self.prog.as_ref().map(|p| !p.global_fn_table.is_empty()).unwrap_or(false)
    }
}

pub fn load(path: &str) -> Option<String> {
    std::fs::read_to_string(path).ok()
}
