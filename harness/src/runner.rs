//! Compile a mimium source with the real compiler and run it sample by sample on the bytecode VM and on the WASM
//! runtime. The harness owns the per-sample loop (`set_input -> run_dsp(Time(t)) -> get_output`), as the cpal
//! backend does; `now` / `samplerate` come from a `LocalBufferDriver`'s counters on the VM side.
use mimium_audiodriver::{
    backends::local_buffer::LocalBufferDriver,
    driver::{Driver, RuntimeData},
};
use mimium_lang::{
    Config, ExecContext,
    plugin::Plugin,
    runtime::{self, DspRuntime},
    utils::error::ReportableError,
};
use std::path::PathBuf;
use std::sync::atomic::Ordering;

#[derive(Clone, Debug)]
pub struct RunCfg {
    pub path: Option<PathBuf>,
    pub times: u64,
    /// inputs[t][ch]; missing entries are 0.0
    pub inputs: Vec<Vec<f64>>,
    pub scheduler: bool,
}

impl RunCfg {
    pub fn new(times: u64) -> Self {
        RunCfg { path: None, times, inputs: vec![], scheduler: false }
    }
    fn input_at(&self, t: u64, nin: usize) -> Vec<f64> {
        let mut v = self.inputs.get(t as usize).cloned().unwrap_or_default();
        v.resize(nin, 0.0);
        v
    }
}

#[derive(Clone, Debug, PartialEq)]
pub enum Outcome {
    /// channels (in,out), flattened output sample bits [t0c0, t0c1, t1c0, ...]
    Ok { nin: usize, nout: usize, bits: Vec<u64> },
    /// compile-time diagnostics (class names / messages)
    CompileErr(Vec<String>),
    /// a panic anywhere (message)
    Panic(String),
    /// run-time error code from the runtime
    RuntimeErr(String),
}

impl Outcome {
    pub fn class(&self) -> &'static str {
        match self {
            Outcome::Ok { .. } => "ok",
            Outcome::CompileErr(_) => "compile-error",
            Outcome::Panic(_) => "panic",
            Outcome::RuntimeErr(_) => "runtime-error",
        }
    }
    /// canonical text: NaNs are canonicalised (the property says NaN matches NaN)
    pub fn show(&self) -> String {
        match self {
            Outcome::Ok { nin, nout, bits } => {
                let v: Vec<String> = bits.iter().map(|b| canon_bits(*b)).collect();
                format!("ok {} {} {}", nin, nout, v.join(","))
            }
            Outcome::CompileErr(es) => format!("compile-error {}", es.join(" | ").replace(['\n', '\t'], " ")),
            Outcome::Panic(m) => format!("panic {}", m.replace(['\n', '\t'], " ")),
            Outcome::RuntimeErr(m) => format!("runtime-error {}", m.replace(['\n', '\t'], " ")),
        }
    }
}

pub fn canon_bits(b: u64) -> String {
    let f = f64::from_bits(b);
    if f.is_nan() { "nan".to_string() } else { format!("{:016x}", b) }
}

fn errs_to_strings(es: &[Box<dyn ReportableError>]) -> Vec<String> {
    es.iter().map(|e| e.get_message()).collect()
}

pub fn panic_msg(e: Box<dyn std::any::Any + Send>) -> String {
    if let Some(s) = e.downcast_ref::<&str>() {
        s.to_string()
    } else if let Some(s) = e.downcast_ref::<String>() {
        s.clone()
    } else {
        "<non-string panic>".to_string()
    }
}

/// A VM instance under the harness' control.
pub struct VmRun {
    pub ctx: ExecContext,
    pub driver: LocalBufferDriver,
    pub rd: RuntimeData,
    pub nin: usize,
    pub nout: usize,
}

pub fn vm_start(src: &str, scheduler: bool) -> Result<VmRun, Vec<String>> {
    vm_start_at(src, scheduler, None)
}

/// `path`: the file the source came from (resolves `include`s relative to it)
pub fn vm_start_at(src: &str, scheduler: bool, path: Option<PathBuf>) -> Result<VmRun, Vec<String>> {
    let driver = LocalBufferDriver::new(0);
    let audiodriverplug: Box<dyn Plugin> = Box::new(driver.get_as_plugin());
    let mut ctx = ExecContext::new([audiodriverplug].into_iter(), path, Config::default());
    if scheduler {
        ctx.add_system_plugin(mimium_scheduler::get_default_scheduler_plugin());
    }
    ctx.prepare_machine(src).map_err(|e| errs_to_strings(&e))?;
    let _ = ctx.run_main();
    let mut rd = RuntimeData::try_from(&mut ctx).map_err(|e| vec![format!("{e:?}")])?;
    rd.runtime.set_sample_rate(48000.0);
    let (nin, nout) = rd.io_channels().map_or((0, 0), |io| (io.input as usize, io.output as usize));
    Ok(VmRun { ctx, driver, rd, nin, nout })
}

impl VmRun {
    pub fn step(&mut self, t: u64, input: &[f64]) -> Result<Vec<u64>, String> {
        self.driver.count.store(t, Ordering::Relaxed);
        if self.nin > 0 {
            self.rd.set_input(input);
        }
        let rc = self.rd.run_dsp(runtime::Time(t));
        if rc < 0 {
            return Err(format!("run_dsp returned {rc}"));
        }
        Ok(self.rd.get_output(self.nout).iter().map(|f| f.to_bits()).collect())
    }
}

pub fn run_vm(src: &str, cfg: &RunCfg) -> Outcome {
    let src = src.to_string();
    let cfg = cfg.clone();
    let r = std::panic::catch_unwind(std::panic::AssertUnwindSafe(move || {
        let mut vm = match vm_start_at(&src, cfg.scheduler, cfg.path.clone()) {
            Ok(v) => v,
            Err(es) => return Outcome::CompileErr(es),
        };
        let mut bits = Vec::with_capacity(cfg.times as usize * vm.nout.max(1));
        for t in 0..cfg.times {
            let inp = cfg.input_at(t, vm.nin);
            match vm.step(t, &inp) {
                Ok(o) => bits.extend(o),
                Err(e) => return Outcome::RuntimeErr(e),
            }
        }
        Outcome::Ok { nin: vm.nin, nout: vm.nout, bits }
    }));
    match r {
        Ok(o) => o,
        Err(e) => Outcome::Panic(panic_msg(e)),
    }
}

/// A WASM runtime instance under the harness' control (same code path as the CLI: WasmEngine + WasmDspRuntime).
pub struct WasmRun {
    pub ctx: ExecContext,
    pub rt: mimium_lang::runtime::wasm::engine::WasmDspRuntime,
    pub nin: usize,
    pub nout: usize,
    pub wasm_bytes: Vec<u8>,
    /// dsp state skeleton of the program currently running (what the CLI keeps in `OldWasmProgram`)
    pub skel: Option<state_tree::tree::StateTreeSkeleton<mimium_lang::mir::StateType>>,
    pub scheduler: bool,
}

pub fn wasm_start(src: &str, scheduler: bool) -> Result<WasmRun, Vec<String>> {
    wasm_start_at(src, scheduler, None)
}

pub fn wasm_start_at(src: &str, scheduler: bool, path: Option<PathBuf>) -> Result<WasmRun, Vec<String>> {
    use mimium_lang::compiler::wasmgen::WasmGenerator;
    use mimium_lang::runtime::wasm::engine::{WasmDspRuntime, WasmEngine};
    use std::sync::Arc;
    let mut ctx = ExecContext::new([].into_iter(), path, Config::default());
    if scheduler {
        ctx.add_system_plugin(mimium_scheduler::get_default_scheduler_plugin());
    }
    ctx.prepare_compiler();
    let mut ext_fns = ctx.get_extfun_types();
    ext_fns.sort_by(|a, b| a.name.as_str().cmp(b.name.as_str()));
    ext_fns.dedup_by(|a, b| a.name == b.name);
    let mir = ctx.get_compiler().unwrap().emit_mir(src).map_err(|e| errs_to_strings(&e))?;
    let io_channels = mir.get_dsp_iochannels();
    let dsp_skeleton = mir.get_dsp_state_skeleton().cloned();
    let mut generator = WasmGenerator::new(Arc::new(mir), &ext_fns);
    let wasm_bytes = generator.generate().map_err(|e| vec![format!("wasmgen: {e}")])?;
    let plugin_fns = ctx.freeze_wasm_plugin_fns();
    let wasm_workers = ctx.generate_wasm_audioworkers();
    let mut engine = WasmEngine::new(&ext_fns, plugin_fns).map_err(|e| vec![format!("wasm engine: {e}")])?;
    engine.load_module(&wasm_bytes).map_err(|e| vec![format!("wasm load: {e}")])?;
    let skel = dsp_skeleton.clone();
    let mut rt = WasmDspRuntime::new(engine, io_channels, dsp_skeleton);
    rt.set_wasm_audioworkers(wasm_workers);
    rt.set_sample_rate(48000.0);
    rt.run_main().map_err(|e| vec![format!("wasm main: {e}")])?;
    let (nin, nout) = io_channels.map_or((0, 0), |io| (io.input as usize, io.output as usize));
    Ok(WasmRun { ctx, rt, nin, nout, wasm_bytes, skel, scheduler })
}

impl WasmRun {
    pub fn step(&mut self, t: u64, input: &[f64]) -> Result<Vec<u64>, String> {
        if self.nin > 0 {
            self.rt.set_input(input);
        }
        let rc = self.rt.run_dsp(runtime::Time(t));
        if rc < 0 {
            return Err(format!("run_dsp returned {rc}"));
        }
        Ok(self.rt.get_output(self.nout).iter().map(|f| f.to_bits()).collect())
    }
}

pub fn run_wasm(src: &str, cfg: &RunCfg) -> Outcome {
    let src = src.to_string();
    let cfg = cfg.clone();
    let r = std::panic::catch_unwind(std::panic::AssertUnwindSafe(move || {
        let mut w = match wasm_start_at(&src, cfg.scheduler, cfg.path.clone()) {
            Ok(v) => v,
            Err(es) => return Outcome::CompileErr(es),
        };
        let mut bits = Vec::with_capacity(cfg.times as usize * w.nout.max(1));
        for t in 0..cfg.times {
            let inp = cfg.input_at(t, w.nin);
            match w.step(t, &inp) {
                Ok(o) => bits.extend(o),
                Err(e) => return Outcome::RuntimeErr(e),
            }
        }
        Outcome::Ok { nin: w.nin, nout: w.nout, bits }
    }));
    match r {
        Ok(o) => o,
        Err(e) => Outcome::Panic(panic_msg(e)),
    }
}

/// Hot swap on the VM: compile `src2` with the running context's compiler and hand the program to
/// `VmDspRuntime::try_hot_swap` (-> `Machine::new_resume`). A compile error leaves the runtime untouched (Err).
pub fn vm_swap(vm: &mut VmRun, src2: &str) -> Result<bool, Vec<String>> {
    let prog = vm.ctx.get_compiler().ok_or(vec!["no compiler".to_string()])?.emit_bytecode(src2).map_err(|e| errs_to_strings(&e))?;
    let ok = vm.rd.resume_with_program(runtime::ProgramPayload::VmProgram(prog));
    let (nin, nout) = vm.rd.io_channels().map_or((0, 0), |io| (io.input as usize, io.output as usize));
    vm.nin = nin;
    vm.nout = nout;
    Ok(ok)
}

/// Hot swap on WASM. The payload is built the way `mimium-cli`'s `prepare_hot_swap_wasm_payload` builds it
/// (that function is private to the CLI: prewarm a fresh engine by running `main`, take its global state, build the
/// patch plan from the previous and the new dsp skeleton with `state_tree::build_state_storage_patch_plan`, whole-copy
/// plan when the skeletons are equal); the swap itself is the real `WasmDspRuntime::try_hot_swap`.
pub fn wasm_swap(w: &mut WasmRun, src2: &str) -> Result<bool, Vec<String>> {
    use mimium_lang::compiler::wasmgen::WasmGenerator;
    use mimium_lang::runtime::wasm::engine::{WasmDspRuntime, WasmEngine};
    use state_tree::{StateStoragePatchPlan, patch::CopyFromPatch};
    use std::sync::Arc;
    let mut ext_fns = w.ctx.get_extfun_types();
    ext_fns.sort_by(|a, b| a.name.as_str().cmp(b.name.as_str()));
    ext_fns.dedup_by(|a, b| a.name == b.name);
    let mir = w.ctx.get_compiler().ok_or(vec!["no compiler".to_string()])?.emit_mir(src2).map_err(|e| errs_to_strings(&e))?;
    let new_skel = mir.get_dsp_state_skeleton().cloned();
    let mut generator = WasmGenerator::new(Arc::new(mir), &ext_fns);
    let bytes = generator.generate().map_err(|e| vec![format!("wasmgen: {e}")])?;
    // prewarm (CLI: try_prewarm_wasm_global_state)
    let mut engine = WasmEngine::new(&ext_fns, None).map_err(|e| vec![format!("prewarm engine: {e}")])?;
    engine.load_module(&bytes).map_err(|e| vec![format!("prewarm load: {e}")])?;
    let mut prt = WasmDspRuntime::new(engine, None, None);
    prt.run_main().map_err(|e| vec![format!("prewarm main: {e}")])?;
    let prewarmed: Vec<u64> = prt.engine_mut().get_global_state_data().map(|d| d.to_vec()).ok_or(vec!["no prewarmed state".to_string()])?;
    let prepared_engine = Box::new(prt.into_engine());
    // plan (CLI: build_required_state_patch_plan)
    let plan = if let (Some(old), Some(new)) = (w.skel.clone(), new_skel.clone()) {
        match state_tree::build_state_storage_patch_plan(old, new.clone()) {
            Some(p) => p,
            None => {
                let total = new.total_size() as usize;
                StateStoragePatchPlan { total_size: total, patches: vec![CopyFromPatch { src_addr: 0, dst_addr: 0, size: total }] }
            }
        }
    } else {
        StateStoragePatchPlan { total_size: prewarmed.len(), patches: vec![] }
    };
    let payload = runtime::ProgramPayload::WasmModule {
        bytes: bytes.clone(),
        prepared_engine,
        dsp_state_skeleton: new_skel.clone(),
        state_patch_plan: plan,
        prewarmed_global_state: prewarmed,
    };
    let ok = w.rt.try_hot_swap(payload);
    if ok {
        w.skel = new_skel;
        w.wasm_bytes = bytes;
    }
    Ok(ok)
}
