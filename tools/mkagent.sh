#!/bin/sh
# usage: tools/mkagent.sh TAG [repo]  — creates /tmp/wt/TAG (branch wip-TAG of /verif, with its own copy of target/ and lean/.lake so
# that checks and mutrun start warm) and, with `repo`, /tmp/fx/TAG/repo (detached worktree of /repo HEAD for Rust changes).
set -e
TAG=$1
cd "$(dirname "$0")/.."
git worktree add -q -b wip-$TAG /tmp/wt/$TAG
mkdir -p /tmp/wt/$TAG/work/fixes
cp -a target /tmp/wt/$TAG/target
cp -a lean/.lake /tmp/wt/$TAG/lean/.lake
cp -f harness/Cargo.lock /tmp/wt/$TAG/harness/Cargo.lock 2>/dev/null || true
if [ "$2" = "repo" ]; then
  mkdir -p /tmp/fx/$TAG
  git -C /repo worktree add -q --detach /tmp/fx/$TAG/repo HEAD
fi
echo /tmp/wt/$TAG
