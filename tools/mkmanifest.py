#!/usr/bin/env python3
"""Writes MANIFEST.json from the table below (kept as code so that it is always valid JSON)."""
import json, os
VERIF = os.path.dirname(os.path.dirname(os.path.abspath(__file__)))
props = [json.loads(l) for l in open(os.path.join(VERIF, "properties.jsonl"))]
ids = [p["id"] for p in props]

CHECKS = {
 "C08": dict(
   category="proof",
   text="Every clause of the statement except the last is a Lean theorem over ALL pairs of layouts about a literal port of the state-tree crate "
        "(shape, bounds, destination-disjointness, order, zero elsewhere, order-independence of application, no-op on identical layouts, apply never panics). "
        "The survivor clause is machine-refuted for the algorithm as it stands (finding F5, listed) and the judge looks for survivors lost beyond what the model predicts. "
        "The port is tied to the crate by exhaustive (<=4 nodes quick, <=5 thorough) and random correspondence of patch sets and applied storage; "
        "the implementation's own output is additionally judged by a Lean checker with a soundness theorem.",
   design_ref="DESIGN.md §5 C08",
   note="Trusted: Lean kernel + {propext, Classical.choice, Quot.sound}; the hand port Model/StateTree.lean (validated by the correspondence run each time); "
        "tools/extract.py for DELAY_ADDITIONAL_OFFSET; harness text codec. f64 scores modelled as Nat.",
   technique="Lean 4 theorems over a hand-ported model + exhaustive/random differential correspondence with the crate"),
}
NA_REASON = "not yet built in this session: the Lean model and its correspondence for this property are still under construction (see DESIGN.md §10 build order); no check is claimed until both exist"

man = {
 "version": 1,
 "setup_cmd": "./setup.sh",
 "hooks": {
   "guard": "--cfg mimium_verif",
   "enable": "RUSTFLAGS='--cfg mimium_verif' cargo build --offline (the harness crate /verif/harness builds /repo's crates through path dependencies with this flag)",
   "baseline_off_cmd": "cd /repo && cargo test --workspace --no-fail-fast --offline",
   "source_commits": [],
   "add_only": True,
 },
 "engines": [
   {"name": "lean", "path": "lean/", "serves_properties": sorted(CHECKS), "kind_free_text": "Lean 4 models (Model/), lemmas (Proofs/), property theorems (Props/), generated data (Gen/), line-protocol driver (Driver.lean -> mmdriver)"},
   {"name": "harness", "path": "harness/", "serves_properties": sorted(CHECKS), "kind_free_text": "Rust crate linking /repo's crates; runs the real code on the cases of the correspondence stage"},
   {"name": "orchestrator", "path": "tools/", "serves_properties": sorted(CHECKS), "kind_free_text": "check entry, translator extract.py, per-property stages prove/correspond/decide, evidence writers"},
 ],
 "checks": [],
 "not_applicable": [],
 "notes": "Family: machine-checked proof in Lean 4. Each check = prove (lake build + axiom audit) -> correspond (model vs real code) -> decide. See DESIGN.md.",
}
for i in ids:
    if i in CHECKS:
        c = CHECKS[i]
        man["checks"].append({
            "property_id": i,
            "quick_cmd": f"./check {i} --tier quick",
            "thorough_cmd": f"./check {i} --tier thorough",
            "evidence_file": f"evidence/{i}.json",
            "replay_cmd_template": f"./check {i} --replay {{path}}",
            "engine": "lean+harness",
            "level_claimed": {"category": c["category"], "text": c["text"], "design_ref": c["design_ref"]},
            "level_note": c["note"],
            "technique": c["technique"],
        })
    else:
        man["not_applicable"].append({"property_id": i, "reason": NA_REASON})
json.dump(man, open(os.path.join(VERIF, "MANIFEST.json"), "w"), indent=1)
print("checks:", len(man["checks"]), "not_applicable:", len(man["not_applicable"]))
