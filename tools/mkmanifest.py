#!/usr/bin/env python3
"""Writes MANIFEST.json from the table below (kept as code so that it is always valid JSON)."""
import json, os
VERIF = os.path.dirname(os.path.dirname(os.path.abspath(__file__)))
props = [json.loads(l) for l in open(os.path.join(VERIF, "properties.jsonl"))]
ids = [p["id"] for p in props]

CHECKS = {}
MD = os.path.join(VERIF, "tools", "manifest.d")
for fn in sorted(os.listdir(MD)):
    if fn.endswith(".json"):
        CHECKS[fn[:-5]] = json.load(open(os.path.join(MD, fn)))
NA = {}
if os.path.exists(os.path.join(MD, "not_applicable.txt")):
    for line in open(os.path.join(MD, "not_applicable.txt")):
        if "|" in line:
            k, v = line.split("|", 1)
            NA[k.strip()] = v.strip()
import subprocess
# hook commits in /repo = commits whose subject starts with "verif hook:"
HOOK_COMMITS = [l.split(" ")[0] for l in subprocess.run(["git", "-C", "/repo", "log", "--format=%h %s"], capture_output=True, text=True).stdout.splitlines() if " verif hook:" in " " + l]
NA_REASON = "not yet built in this session: the Lean model and its correspondence for this property are still under construction (see DESIGN.md §10 build order); no check is claimed until both exist"

man = {
 "version": 1,
 "setup_cmd": "./setup.sh",
 "hooks": {
   "guard": "--cfg mimium_verif",
   "enable": "RUSTFLAGS='--cfg mimium_verif' cargo build --offline (the harness crate /verif/harness builds /repo's crates through path dependencies with this flag)",
   "baseline_off_cmd": "cd /repo && cargo test --workspace --no-fail-fast --offline",
   "source_commits": HOOK_COMMITS,
   "add_only": True,
 },
 "engines": [
   {"name": "lean", "path": "lean/", "serves_properties": sorted(CHECKS), "kind_free_text": "Lean 4 models (Model/), lemmas (Proofs/), property theorems (Props/), generated data (Gen/), line-protocol driver (Driver.lean -> mmdriver)"},
   {"name": "harness", "path": "harness/", "serves_properties": sorted(CHECKS), "kind_free_text": "Rust crate linking /repo's crates; runs the real code on the cases of the correspondence stage"},
   {"name": "orchestrator", "path": "tools/", "serves_properties": sorted(CHECKS), "kind_free_text": "check entry, translator extract.py, per-property stages prove/correspond/decide, evidence writers"},
 ],
 "checks": [],
 "not_applicable": [],
 "notes": "Family: machine-checked proof in Lean 4. Each check = prove (lake build + axiom audit) -> correspond (model vs real code) -> decide. See DESIGN.md.",
}
for i in ids:
    if i in CHECKS:
        c = CHECKS[i]
        man["checks"].append({
            "property_id": i,
            "quick_cmd": f"./check {i} --tier quick",
            "thorough_cmd": f"./check {i} --tier thorough",
            "evidence_file": f"evidence/{i}.json",
            "replay_cmd_template": f"./check {i} --replay {{path}}",
            "engine": "lean+harness",
            "level_claimed": {"category": c["category"], "text": c["text"], "design_ref": c["design_ref"]},
            "level_note": c["note"],
            "technique": c["technique"],
        })
    else:
        man["not_applicable"].append({"property_id": i, "reason": NA.get(i, NA_REASON)})
json.dump(man, open(os.path.join(VERIF, "MANIFEST.json"), "w"), indent=1)
print("checks:", len(man["checks"]), "not_applicable:", len(man["not_applicable"]))
