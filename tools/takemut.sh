#!/bin/sh
# usage: tools/takemut.sh <id> <PID…> : copy a sub-agent's mutant into seeded/<id>, evaluate it on a scratch copy, drop the worktree
id=$1; shift
mkdir -p /verif/seeded/$id && cp -r /tmp/mut/$id/MUTANT/* /verif/seeded/$id/ || exit 1
rm -rf /tmp/mut/$id/target
git -C /repo worktree remove --force /tmp/mut/$id; git -C /repo worktree prune
cd /verif && python3 tools/mutrun.py seeded/$id/patch.diff "$@"
