"""Program-level correspondence: generated core-language programs run on the real VM, the real WASM runtime and the
Lean reference evaluator (drv_prog). Shared by C01, C02, C03, C05, C06, C16 …"""
import json, subprocess, os, subprocess, sys, collections
sys.path.insert(0, os.path.join(os.path.dirname(os.path.abspath(__file__)), "gen"))
import coregen
from vlib import *


def norm_impl(o):
    """`ok nin nout bits` -> `ok nout bits` (the model line format); other classes by first word"""
    if o.startswith("ok "):
        p = o.split(" ")
        return "ok " + p[2] + " " + (p[3] if len(p) > 3 else "")
    return o.split(" ")[0]


def run_batch(cases, backends="vm,wasm", want_model=True, nshards=None, want_mir=False, timeout=3600):
    """cases: list of dict(id, src, sx, inputs, times, scheduler?, path?). Returns dict id -> [vm, wasm, model] raw strings;
    `timeout` (seconds) bounds one harness process: when it expires the first case without an answer is recorded as
    `timeout …` (a hang) and the rest of the shard goes on in a fresh process;
    with want_mir a fourth entry: the Lean MIR semantics (`drv_mir`) run on the dump of the real compiler's MIR
    (`mir` binary): `ok nout bits` | `unsupported …` | `stuck …` | `fuel` | `compile-error` | None."""
    nshards = nshards or min(NCPU, max(1, len(cases) // 20))
    shards = [cases[i::nshards] for i in range(nshards)]

    def work(sh):
        if not sh:
            return {}
        res = {}
        todo = list(sh)
        while todo:
            inp = "".join(json.dumps({"id": c["id"], "src": c["src"], "times": c["times"], "inputs": c["inputs"],
                                      "scheduler": c.get("scheduler", False), "backends": backends,
                                      **({"path": c["path"]} if c.get("path") else {})}) + "\n" for c in todo)
            try:
                p = run([os.path.join(BIN, "runprog")], input=inp, timeout=timeout)
                stdout, died = p.stdout, None
            except subprocess.TimeoutExpired as e:
                stdout = e.stdout or ""
                stdout = stdout.decode("utf-8", "replace") if isinstance(stdout, bytes) else stdout
                died = "timeout no answer within %ss (the harness process was killed)" % timeout
            for l in stdout.splitlines():
                f = l.split("\t")
                if len(f) >= 3:
                    res[f[0]] = [f[1], f[2], None]
            missing = [c for c in todo if c["id"] not in res]
            if not missing:
                break
            # the harness process died (abort / segfault / stack overflow) or hung on the first case without an answer:
            # record it and go on with the rest of the shard in a fresh process
            crasher = missing[0]
            if died is not None:
                # the WHOLE shard ran out of time (the machine may simply be loaded): the first case without an answer is only
                # a suspect — it is a hang only if it does not answer ALONE within the same limit
                one = json.dumps({"id": crasher["id"], "src": crasher["src"], "times": crasher["times"], "inputs": crasher["inputs"],
                                  "scheduler": crasher.get("scheduler", False), "backends": backends,
                                  **({"path": crasher["path"]} if crasher.get("path") else {})}) + "\n"
                try:
                    q = run([os.path.join(BIN, "runprog")], input=one, timeout=timeout)
                    for l in q.stdout.splitlines():
                        f = l.split("\t")
                        if len(f) >= 3:
                            res[f[0]] = [f[1], f[2], None]
                    if crasher["id"] not in res:
                        d2 = "harness-died rc=%s %s" % (q.returncode, q.stderr[-200:].replace("\n", " ").replace("\t", " "))
                        res[crasher["id"]] = [d2, d2, None]
                except subprocess.TimeoutExpired:
                    res[crasher["id"]] = [died, died, None]
                todo = missing[1:]
                continue
            died = "harness-died rc=%s %s" % (p.returncode, p.stderr[-200:].replace("\n", " ").replace("\t", " "))
            res[crasher["id"]] = [died, died, None]
            todo = missing[1:]
        if want_mir:
            for v in res.values():
                v.append(None)
            mir_run(sh, res)
        if want_model:
            def model_run(cs, timeout):
                minp = "".join(f"{c['id']}\t{c['times']}\t{coregen.inputs_field(c['inputs'])}\t{c['sx']}\n" for c in cs if c.get("sx"))
                import subprocess
                try:
                    q = run([os.path.join(LEANBIN, "drv_prog")], input=minp, timeout=timeout)
                except subprocess.TimeoutExpired:
                    return False
                for l in q.stdout.splitlines():
                    f = l.split("\t")
                    if len(f) >= 2 and f[0] in res:
                        res[f[0]][2] = f[1]
                return True
            if not model_run(sh, 300):
                # some program is too expensive for the reference evaluator: find it, mark it, keep the others
                for c in sh:
                    if c.get("sx") and res[c["id"]][2] is None and not model_run([c], 20):
                        res[c["id"]][2] = "skip:model-timeout"
        return res
    out = {}
    for r in parallel(shards, work, nproc=nshards):
        out.update(r)
    return out


def mir_run(cases, res):
    """fourth opinion: dump the MIR of every case with the real compiler, run the Lean MIR semantics on it"""
    todo = [c for c in cases if c["id"] in res]
    dumps = {}
    while todo:
        inp = "".join(json.dumps({"id": c["id"], "src": c["src"], "scheduler": c.get("scheduler", False),
                                  **({"path": c["path"]} if c.get("path") else {})}) + "\n" for c in todo)
        p = run([os.path.join(BIN, "mir")], input=inp, timeout=3600)
        for l in p.stdout.splitlines():
            f = l.split("\t")
            if len(f) >= 3:
                dumps[f[0]] = (f[1], f[2])
        missing = [c for c in todo if c["id"] not in dumps]
        if not missing:
            break
        dumps[missing[0]["id"]] = ("harness-died", "")
        todo = missing[1:]
    minp = []
    for c in cases:
        if c["id"] not in res:
            continue
        st, sx = dumps.get(c["id"], ("missing", ""))
        if st == "ok":
            minp.append(f"{c['id']}\t{c['times']}\t{coregen.inputs_field(c['inputs'])}\t{sx}\n")
        else:
            res[c["id"]][3] = st
    if minp:
        import subprocess
        try:
            q = run([os.path.join(LEANBIN, "drv_mir")], input="".join(minp), timeout=600)
            for l in q.stdout.splitlines():
                f = l.split("\t")
                if len(f) >= 2 and f[0] in res:
                    res[f[0]][3] = f[1]
        except subprocess.TimeoutExpired:
            for c in cases:
                if c["id"] in res and res[c["id"]][3] is None:
                    res[c["id"]][3] = "skip:mir-timeout"


def mir_static(cases, nshards=None):
    """static checks of the Lean MIR model on the dump of every case's MIR (`drv_mir`, mode `static`).
    Returns id -> dict(status, fns, ok, checked, fail=[labels], wf, wffail=[labels], enc, fwdnested); status != "ok": the
    program did not compile / dump.  ok/fail: `stateOkFn` (C05); wf/wffail: `wfFn` (C03); enc: functions whose control skeleton
    `RustGen.encode` accepts; fwdnested: functions whose skeleton is `forward` and `nested` (C18)."""
    nshards = nshards or min(NCPU, max(1, len(cases) // 50))
    shards = [cases[i::nshards] for i in range(nshards)]

    def work(sh):
        out = {}
        if not sh:
            return out
        inp = "".join(json.dumps({"id": c["id"], "src": c["src"], "scheduler": c.get("scheduler", False)}) + "\n" for c in sh)
        p = run([os.path.join(BIN, "mir")], input=inp, timeout=3600)
        lines = []
        for l in p.stdout.splitlines():
            f = l.split("\t")
            if len(f) >= 3 and f[1] == "ok":
                lines.append(f"{f[0]}\tstatic\t-\t{f[2]}\n")
            elif len(f) >= 2:
                out[f[0]] = {"status": f[1]}
        q = run([os.path.join(LEANBIN, "drv_mir")], input="".join(lines), timeout=600)
        for l in q.stdout.splitlines():
            f = l.split("\t")
            w = f[1].split(" ") if len(f) >= 2 else []
            if len(w) >= 5 and w[0] == "stateok":
                fail = w[4][len("fail="):]
                kv = dict(x.split("=", 1) for x in w[5:] if "=" in x)
                out[f[0]] = {"status": "ok", "fns": int(w[1]), "ok": int(w[2]), "checked": w[3] == "checked=true",
                             "fail": [x.split(":", 1)[1] for x in fail.split(",") if x],
                             "wf": int(kv.get("wf", 0)), "wffail": [x.split(":", 1)[1] for x in kv.get("wffail", "").split(",") if x],
                             "enc": int(kv.get("enc", 0)), "fwdnested": int(kv.get("fwdnested", 0))}
            elif len(f) >= 2:
                out[f[0]] = {"status": f[1]}
        return out
    res = {}
    for r in parallel(shards, work, nproc=nshards):
        res.update(r)
    return res


def mir_traces(cases, nshards=None):
    """per-sample state access trace, cursor and global storage words of the Lean MIR run (`drv_mir`, mode `trace`), in the
    record format of harness/src/bin/c05.rs.  Returns id -> `ok rec|rec|…` | `unsupported …` | `stuck …` | status of the dump."""
    nshards = nshards or min(NCPU, max(1, len(cases) // 50))
    shards = [cases[i::nshards] for i in range(nshards)]

    def work(sh):
        out = {}
        if not sh:
            return out
        byid = {c["id"]: c for c in sh}
        inp = "".join(json.dumps({"id": c["id"], "src": c["src"]}) + "\n" for c in sh)
        p = run([os.path.join(BIN, "mir")], input=inp, timeout=3600)
        lines = []
        for l in p.stdout.splitlines():
            f = l.split("\t")
            if len(f) >= 3 and f[1] == "ok":
                c = byid[f[0]]
                lines.append(f"{f[0]}\ttrace\t{c['times']}\t{coregen.inputs_field(c['inputs'])}\t{f[2]}\n")
            elif len(f) >= 2:
                out[f[0]] = f[1]
        q = run([os.path.join(LEANBIN, "drv_mir")], input="".join(lines), timeout=600)
        for l in q.stdout.splitlines():
            f = l.split("\t")
            if len(f) >= 2:
                out[f[0]] = f[1]
        return out
    res = {}
    for r in parallel(shards, work, nproc=nshards):
        res.update(r)
    return res


def mir_class(vm, wasm, model, mir):
    """cell of the agreement matrix for one program (raw outcome strings; wasm / model may be None or `-`)"""
    v = norm_impl(vm) if vm and vm.startswith("ok") else None
    w = norm_impl(wasm) if wasm and wasm.startswith("ok") else None
    m = model if model and model.startswith("ok") else None
    if mir is None or not mir.startswith("ok"):
        key = "mir:" + (mir or "none").split(" ")[0].split(":")[0]
        if vm and not vm.startswith("ok") and vm != "-":
            key += ",vm:" + vm.split(" ")[0]
        return key
    eq = lambda a: a is not None and a == mir
    return "mir" + ("=vm" if eq(v) else ("!vm" if v is not None else (",vm:" + vm.split(" ")[0] if vm and vm != "-" else ""))) + \
                   ("=wasm" if eq(w) else ("!wasm" if w is not None else "")) + \
                   ("=ref" if eq(m) else ("!ref" if m is not None else ""))


def mir_verdict(vm, wasm, model, mir):
    """None, or why the fourth opinion is a MODEL defect: every other opinion that ran agrees with every other, and the
    Lean MIR run does not (differs, is stuck, or ran out of fuel). `unsupported` is counted, not judged."""
    if mir is None or mir.startswith("unsupported") or mir.startswith("skip:") or mir == "compile-error":
        return None
    others = [norm_impl(x) for x in (vm, wasm) if x and x != "-"] + ([model] if model and not model.startswith("skip:") else [])
    if not others or not all(o.startswith("ok") and o == others[0] for o in others):
        return None          # the opinions that ran do not agree with each other: judged by the caller, the MIR run localises
    if mir.startswith("ok"):
        return None if mir == others[0] else "mir-run-differs"
    return "mir-run-" + mir.split(" ")[0]


def mir_localise(impl, model, mir):
    """where a disagreement between one back end (`impl`, raw) and the reference semantics sits, according to the MIR run"""
    if mir is None or not mir.startswith("ok"):
        return "mir run: " + str(mir)[:120]
    if model is not None and mir == model:
        return "back end (the MIR the compiler produced means what the reference semantics says)"
    if impl.startswith("ok") and mir == norm_impl(impl):
        return "mirgen or earlier (the MIR already means what the back end computes)"
    return "unclear (the MIR run agrees with neither)"


def gen_cases(seed, n, profile, times, start=0):
    cases, stats = [], collections.Counter()
    for i in range(start, start + n):
        p, inputs, st = coregen.make_case(seed, i, profile, times=times)
        stats.update(st)
        cases.append({"id": f"{profile}:{seed}:{i}", "src": p.src(), "sx": p.sx(), "inputs": inputs, "times": times,
                      "prog": p, "profile": profile, "seed": seed, "idx": i})
    return cases, stats


def nontrivial(out):
    """a run is non-trivial when its output stream is not constant"""
    if not out or not out.startswith("ok"):
        return False
    parts = out.split(" ")
    ws = parts[-1].split(",") if parts[-1] else []
    return len(set(ws)) > 1


def shrink_case(case, still_fails, budget=250):
    """minimise a failing generated case; still_fails(src, sx, inputs) -> bool"""
    p = case["prog"]

    def pred(q):
        try:
            return still_fails(q.src(), q.sx(), case["inputs"])
        except Exception:
            return False
    try:
        q = coregen.shrink(p, pred, budget)
        return {"src": q.src(), "sx": q.sx(), "inputs": case["inputs"], "times": case["times"]}
    except Exception as e:
        return {"src": case["src"], "sx": case["sx"], "inputs": case["inputs"], "times": case["times"], "shrink_error": str(e)}


def replay_known(known, backends="vm,wasm"):
    """run the listed known-finding inputs; returns list of (entry, vm, wasm, model)"""
    cases = []
    for k in known:
        if "src" in k:
            cases.append({"id": k["id"], "src": k["src"], "sx": k.get("sx"), "inputs": k.get("inputs", []), "times": k.get("times", 8),
                          "scheduler": k.get("scheduler", False), "path": k.get("path")})
    res = run_batch(cases, backends=backends, want_model=True, nshards=1) if cases else {}
    return [(k, *res[k["id"]]) for k in known if "src" in k]
