"""Program-level correspondence: generated core-language programs run on the real VM, the real WASM runtime and the
Lean reference evaluator (drv_prog). Shared by C01, C02, C03, C05, C06, C16 …"""
import json, os, subprocess, sys, collections
sys.path.insert(0, os.path.join(os.path.dirname(os.path.abspath(__file__)), "gen"))
import coregen
from vlib import *


def norm_impl(o):
    """`ok nin nout bits` -> `ok nout bits` (the model line format); other classes by first word"""
    if o.startswith("ok "):
        p = o.split(" ")
        return "ok " + p[2] + " " + (p[3] if len(p) > 3 else "")
    return o.split(" ")[0]


def run_batch(cases, backends="vm,wasm", want_model=True, nshards=None, timeout=3600):
    """cases: list of dict(id, src, sx, inputs, times, scheduler?, path?). Returns dict id -> (vm, wasm, model) raw strings.
    `timeout` (seconds) bounds one harness process: when it expires the first case without an answer is recorded as
    `timeout …` (a hang) and the rest of the shard goes on in a fresh process."""
    nshards = nshards or min(NCPU, max(1, len(cases) // 20))
    shards = [cases[i::nshards] for i in range(nshards)]

    def work(sh):
        if not sh:
            return {}
        res = {}
        todo = list(sh)
        while todo:
            inp = "".join(json.dumps({"id": c["id"], "src": c["src"], "times": c["times"], "inputs": c["inputs"],
                                      "scheduler": c.get("scheduler", False), "backends": backends,
                                      **({"path": c["path"]} if c.get("path") else {})}) + "\n" for c in todo)
            try:
                p = run([os.path.join(BIN, "runprog")], input=inp, timeout=timeout)
                stdout, died = p.stdout, None
            except subprocess.TimeoutExpired as e:
                stdout = e.stdout or ""
                stdout = stdout.decode("utf-8", "replace") if isinstance(stdout, bytes) else stdout
                died = "timeout no answer within %ss (the harness process was killed)" % timeout
            for l in stdout.splitlines():
                f = l.split("\t")
                if len(f) >= 3:
                    res[f[0]] = [f[1], f[2], None]
            missing = [c for c in todo if c["id"] not in res]
            if not missing:
                break
            # the harness process died (abort / segfault / stack overflow) or hung on the first case without an answer:
            # record it and go on with the rest of the shard in a fresh process
            crasher = missing[0]
            died = died or "harness-died rc=%s %s" % (p.returncode, p.stderr[-200:].replace("\n", " ").replace("\t", " "))
            res[crasher["id"]] = [died, died, None]
            todo = missing[1:]
        if want_model:
            def model_run(cs, timeout):
                minp = "".join(f"{c['id']}\t{c['times']}\t{coregen.inputs_field(c['inputs'])}\t{c['sx']}\n" for c in cs if c.get("sx"))
                import subprocess
                try:
                    q = run([os.path.join(LEANBIN, "drv_prog")], input=minp, timeout=timeout)
                except subprocess.TimeoutExpired:
                    return False
                for l in q.stdout.splitlines():
                    f = l.split("\t")
                    if len(f) >= 2 and f[0] in res:
                        res[f[0]][2] = f[1]
                return True
            if not model_run(sh, 300):
                # some program is too expensive for the reference evaluator: find it, mark it, keep the others
                for c in sh:
                    if c.get("sx") and res[c["id"]][2] is None and not model_run([c], 20):
                        res[c["id"]][2] = "skip:model-timeout"
        return res
    out = {}
    for r in parallel(shards, work, nproc=nshards):
        out.update(r)
    return out


def gen_cases(seed, n, profile, times, start=0):
    cases, stats = [], collections.Counter()
    for i in range(start, start + n):
        p, inputs, st = coregen.make_case(seed, i, profile, times=times)
        stats.update(st)
        cases.append({"id": f"{profile}:{seed}:{i}", "src": p.src(), "sx": p.sx(), "inputs": inputs, "times": times,
                      "prog": p, "profile": profile, "seed": seed, "idx": i})
    return cases, stats


def nontrivial(out):
    """a run is non-trivial when its output stream is not constant"""
    if not out or not out.startswith("ok"):
        return False
    parts = out.split(" ")
    ws = parts[-1].split(",") if parts[-1] else []
    return len(set(ws)) > 1


def shrink_case(case, still_fails, budget=250):
    """minimise a failing generated case; still_fails(src, sx, inputs) -> bool"""
    p = case["prog"]

    def pred(q):
        try:
            return still_fails(q.src(), q.sx(), case["inputs"])
        except Exception:
            return False
    try:
        q = coregen.shrink(p, pred, budget)
        return {"src": q.src(), "sx": q.sx(), "inputs": case["inputs"], "times": case["times"]}
    except Exception as e:
        return {"src": case["src"], "sx": case["sx"], "inputs": case["inputs"], "times": case["times"], "shrink_error": str(e)}


def replay_known(known, backends="vm,wasm"):
    """run the listed known-finding inputs; returns list of (entry, vm, wasm, model)"""
    cases = []
    for k in known:
        if "src" in k:
            cases.append({"id": k["id"], "src": k["src"], "sx": k.get("sx"), "inputs": k.get("inputs", []), "times": k.get("times", 8),
                          "scheduler": k.get("scheduler", False), "path": k.get("path")})
    res = run_batch(cases, backends=backends, want_model=True, nshards=1) if cases else {}
    return [(k, *res[k["id"]]) for k in known if "src" in k]
