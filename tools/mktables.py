#!/usr/bin/env python3
"""Regenerates the tables of DESIGN.md that are derived from committed data:
  design.src/80_findings.md : 8.1 (the `fixed:` lines of known_findings.jsonl) and 8.2 (its open entries)
  design.src/90_limits_log.md : the seeded-change table of section 12 (seeded/*/meta.json)
Hand-written paragraphs of both files are kept (everything outside the generated blocks)."""
import os, json, glob, re
V = os.path.dirname(os.path.dirname(os.path.abspath(__file__)))


def cell(s, n):
    s = " ".join(str(s).split()).replace("|", "/")
    return s if len(s) <= n else s[:n - 1] + "…"


def findings():
    fixed, open_ = [], []
    for l in open(os.path.join(V, "known_findings.jsonl")):
        l = l.strip()
        if l.startswith("fixed:"):
            fixed.append(l[len("fixed:"):].strip())
        elif l.startswith("{"):
            open_.append(json.loads(l))
    p = os.path.join(V, "design.src", "80_findings.md")
    s = open(p).read()
    a = s.index("### 8.1")
    a2 = s.index("\n", a) + 1
    b = s.index("Tried and withdrawn")
    s = s[:a2] + "\n" + "\n".join("* " + cell(f, 420) for f in fixed) + "\n\n" + s[b:]
    c = s.index("| property | id | what fails |")
    rows = ["| property | id | what fails |", "|---|---|---|"]
    for k in sorted(open_, key=lambda k: (k.get("property", ""), str(k.get("id", "")))):
        rows.append(f"| {k.get('property')} | {k.get('id')} | {cell(k.get('what', k.get('site', '')), 330)} |")
    # the table runs to the end of the file or to the next blank-line + non-table text
    m = re.search(r"\n\n(?!\|)", s[c:])
    end = c + m.start() if m else len(s)
    s = s[:c] + "\n".join(rows) + s[end:]
    if not s.endswith("\n"):
        s += "\n"
    open(p, "w").write(s)
    return len(fixed), len(open_)


def seeded():
    p = os.path.join(V, "design.src", "90_limits_log.md")
    s = open(p).read()
    c = s.index("| id | change | needs | caught by |")
    rows = ["| id | change | needs | caught by |", "|----|--------|-------|-----------|"]
    n = 0
    for d in sorted(glob.glob(os.path.join(V, "seeded", "*", "meta.json"))):
        m = json.load(open(d))
        n += 1
        cb = ", ".join(m.get("caught_by", [])) or "NOT CAUGHT"
        rows.append(f"| {os.path.basename(os.path.dirname(d))} | {cell(m.get('summary', ''), 260)} | {cell(m.get('needs_to_manifest', ''), 220)} | {cb} — {cell(m.get('how', ''), 300)} |")
    mm = re.search(r"\n\n(?!\|)", s[c:])
    end = c + mm.start() if mm else len(s)
    s = s[:c] + "\n".join(rows) + s[end:]
    if not s.endswith("\n"):
        s += "\n"
    open(p, "w").write(s)
    return n


if __name__ == "__main__":
    f, o = findings()
    print("fixed", f, "open", o, "seeded", seeded())
