#!/usr/bin/env python3
"""Regenerates lean/lakefile.toml: the library plus one `lean_exe` per driver file lean/Drv/Cxx.lean (exe name drv_cxx)."""
import os
VERIF = os.path.dirname(os.path.dirname(os.path.abspath(__file__)))
drv = sorted(f[:-5] for f in os.listdir(os.path.join(VERIF, "lean", "Drv")) if f.endswith(".lean"))
out = 'name = "Mimium"\nversion = "0.1.0"\ndefaultTargets = ["Mimium"]\n\n[[lean_lib]]\nname = "Mimium"\n\n[[lean_lib]]\nname = "Drv"\n'
for d in drv:
    out += f'\n[[lean_exe]]\nname = "drv_{d.lower()}"\nroot = "Drv.{d}"\n'
p = os.path.join(VERIF, "lean", "lakefile.toml")
if not os.path.exists(p) or open(p).read() != out:
    open(p, "w").write(out)

# root module importing every module of the library, so that `lake build Mimium` checks everything
mods = []
for root, _, files in os.walk(os.path.join(VERIF, "lean", "Mimium")):
    for f in files:
        if f.endswith(".lean"):
            rel = os.path.relpath(os.path.join(root, f), os.path.join(VERIF, "lean"))
            mods.append(rel[:-5].replace(os.sep, "."))
txt = "".join(f"import {m}\n" for m in sorted(mods))
rp = os.path.join(VERIF, "lean", "Mimium.lean")
if not os.path.exists(rp) or open(rp).read() != txt:
    open(rp, "w").write(txt)
