#!/usr/bin/env python3
"""Assembles DESIGN.md from design.src/*.md (hand written) and design.d/Cxx.md (per-property notes written with the checks)."""
import os, json, glob, subprocess
V = os.path.dirname(os.path.dirname(os.path.abspath(__file__)))
props = [json.loads(l) for l in open(os.path.join(V, "properties.jsonl"))]
out = []
for part in ["00_head.md", "10_machinery.md"]:
    out.append(open(os.path.join(V, "design.src", part)).read())
out.append("## 5. Per property (as built)\n\nOne subsection per property: model, theorems, tie, generators and bounds, level, findings.\n")
for p in props:
    f = os.path.join(V, "design.d", p["id"] + ".md")
    if os.path.exists(f):
        s = open(f).read().strip()
        if not s.startswith("###"):
            s = f"### {p['id']} — {p['title']}\n\n" + s
        out.append(s + "\n")
    else:
        out.append(f"### {p['id']} — {p['title']}\n\nnot built yet (see MANIFEST.json not_applicable).\n")
def clip(t, n):
    t = " ".join(str(t).split()).replace("|", "/")
    return t if len(t) <= n else t[:n].rstrip() + "…"


def findings_tables():
    """§8.1 / §8.2 are regenerated from known_findings.jsonl on every assembly, §12 from seeded/*/meta.json"""
    fixed, opened = [], []
    for l in open(os.path.join(V, "known_findings.jsonl")):
        l = l.strip()
        if l.startswith("fixed:"):
            fixed.append("* " + clip(l[len("fixed:"):].strip(), 520))
        elif l.startswith("{"):
            k = json.loads(l)
            if k.get("status", "open") == "open":
                opened.append((k["property"], str(k.get("id", "?")), clip(k.get("what", ""), 330)))
    t81 = "\n".join(fixed)
    t82 = "| property | id | what fails |\n|---|---|---|\n" + "\n".join(f"| {a} | {b} | {c} |" for a, b, c in sorted(opened))
    rows = []
    for d in sorted(glob.glob(os.path.join(V, "seeded", "*", "meta.json"))):
        m = json.load(open(d))
        sid = os.path.basename(os.path.dirname(d))
        cb = m.get("caught_by")
        caught = (", ".join(cb) if isinstance(cb, list) else str(cb)) + (" — " + str(m.get("caught_note") or m.get("how")) if (m.get("caught_note") or m.get("how")) else "")
        if m.get("stale"):
            caught = "[STALE: " + str(m["stale"]) + "] " + caught
        rows.append(f"| {sid} | {clip(m.get('summary', ''), 300)} | {clip(m.get('needs_to_manifest', ''), 260)} | {clip(caught, 520)} |")
    t12 = "| id | change | needs | caught by |\n|----|--------|-------|-----------|\n" + "\n".join(rows)
    return t81, t82, t12, len(fixed), len(opened), len(rows)


def splice(text, start_marker, end_marker, body):
    """replace what lies between the line starting with start_marker (kept) and the next line starting with end_marker (kept;
    None = end of text); hand-written paragraphs that follow the generated block carry the marker `<!-- hand -->` and are kept"""
    i = text.index(start_marker)
    i = text.index("\n", i) + 1
    j = len(text) if end_marker is None else text.index(end_marker, i)
    old = text[i:j]
    hand = old[old.index("<!-- hand -->"):] if "<!-- hand -->" in old else ""
    return text[:i] + "\n" + body + "\n\n" + hand + ("" if hand.endswith("\n") or not hand else "\n") + text[j:]


t81, t82, t12, nfixed, nopen, nseeded = findings_tables()
nfix = len([l for l in subprocess.run("git -C /repo log --format=%s", shell=True, capture_output=True, text=True).stdout.splitlines() if l.startswith("fix:")])
out[0] = out[0].replace("{N_FIXED}", str(nfixed)).replace("{N_FIX}", str(nfix)).replace("{N_OPEN}", str(nopen)).replace("{N_SEEDED}", str(nseeded))
for part in ["60_hooks_trust.md", "80_findings.md", "90_limits_log.md"]:
    txt = open(os.path.join(V, "design.src", part)).read()
    if part == "80_findings.md":
        txt = splice(txt, "### 8.1 Repaired", "### 8.2 Open", t81)
        txt = splice(txt, "### 8.2 Open", None, t82)
    if part == "90_limits_log.md":
        k = txt.index("## 12. Seeded changes")
        k = txt.index("| id | change | needs | caught by |", k)
        txt = txt[:k] + t12 + "\n"
    out.append(txt)
print("findings: fixed", nfixed, "open", nopen, "seeded", nseeded)
open(os.path.join(V, "DESIGN.md"), "w").write("\n".join(out))
print("DESIGN.md", sum(len(x) for x in out), "bytes")
