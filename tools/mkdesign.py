#!/usr/bin/env python3
"""Assembles DESIGN.md from design.src/*.md (hand written) and design.d/Cxx.md (per-property notes written with the checks)."""
import os, json, glob, subprocess
V = os.path.dirname(os.path.dirname(os.path.abspath(__file__)))
props = [json.loads(l) for l in open(os.path.join(V, "properties.jsonl"))]
out = []
for part in ["00_head.md", "10_machinery.md"]:
    out.append(open(os.path.join(V, "design.src", part)).read())
out.append("## 5. Per property (as built)\n\nOne subsection per property: model, theorems, tie, generators and bounds, level, findings.\n")
for p in props:
    f = os.path.join(V, "design.d", p["id"] + ".md")
    if os.path.exists(f):
        s = open(f).read().strip()
        if not s.startswith("###"):
            s = f"### {p['id']} — {p['title']}\n\n" + s
        out.append(s + "\n")
    else:
        out.append(f"### {p['id']} — {p['title']}\n\nnot built yet (see MANIFEST.json not_applicable).\n")
for part in ["60_hooks_trust.md", "80_findings.md", "90_limits_log.md"]:
    out.append(open(os.path.join(V, "design.src", part)).read())
open(os.path.join(V, "DESIGN.md"), "w").write("\n".join(out))
print("DESIGN.md", sum(len(x) for x in out), "bytes")
