#!/usr/bin/env python3
"""Writes the prompt for a seeded-change sub-agent: ONLY the property text and its scratch worktree (nothing from /verif).
usage: tools/mkmutprompt.py <mutant id, e.g. C04a> [note…]   -> prints the prompt; creates the detached worktree /tmp/mut/<id>"""
import json, os, subprocess, sys
V = os.path.dirname(os.path.dirname(os.path.abspath(__file__)))
mid = sys.argv[1]
pid = mid[:3]
note = " ".join(sys.argv[2:])
p = next(json.loads(l) for l in open(os.path.join(V, "properties.jsonl")) if json.loads(l)["id"] == pid)
wt = f"/tmp/mut/{mid}"
if not os.path.exists(wt):
    os.makedirs("/tmp/mut", exist_ok=True)
    subprocess.run(["git", "-C", "/repo", "worktree", "add", "--detach", wt, "HEAD"], check=True, capture_output=True)
q = p.get('quantifier') or {}
quant = q.get('text', '') if isinstance(q, dict) else str(q)
text = f"""You are a careful adversarial engineer helping to evaluate a verification effort. You work ONLY inside the scratch git worktree `{wt}` (a checkout of the Rust project mimium-rs: a statically typed functional language for sound with parser, type inference, MIR, a bytecode VM backend and a WASM backend). Do not touch any other directory (in particular never /repo and never /verif). There is no network; build offline (`CARGO_NET_OFFLINE=true cargo build --offline`, `cargo test --offline`); use `CARGO_TARGET_DIR={wt}/target`, and to save disk space (the disk is shared and small) always export `CARGO_INCREMENTAL=0` and `CARGO_PROFILE_DEV_DEBUG=0 CARGO_PROFILE_TEST_DEBUG=0`; delete `{wt}/target` when you are completely done. NEVER use `git stash` (the stash is shared with other people's worktrees of the same repository): to test the unchanged tree, save your change with `git diff > {wt}/MUTANT/patch.diff`, revert it with `git apply -R {wt}/MUTANT/patch.diff`, and re-apply it with `git apply {wt}/MUTANT/patch.diff`.

Here is a semantic property that the project is supposed to satisfy:

  {p['title']}
  {p.get('statement', p.get('text', ''))}
  (Quantified over: {quant})

Your job: produce ONE realistic change (a plausible bug: an off-by-one, a wrong comparison, a missing case, a swapped argument, a stale cache, a wrong order of two steps, an optimisation that is subtly wrong…) to the project's non-test source code that BREAKS this property, while the project still compiles and its existing test suite still passes (run at least the test suites of the crates you touched and of `mimium-test`: `cargo test --offline -p <crate>`; the full suite is `cargo test --workspace --offline`, ~360 tests).

Requirements for the change:
* It must need something SPECIFIC to manifest — a particular multi-step sequence of operations, an unusual but legal input shape, a particular size/offset/count, an interaction of two features, two cooperating sites that each look fine alone — not something that ordinary use or the existing tests would expose at once.
* It must be small (a few lines, at most ~25 changed lines), must not touch tests, must not add `#[cfg]` tricks, panics-on-purpose, randomness, time or environment dependence.
* Provide a demonstration: a small test (a new `#[test]` in a NEW file under the touched crate's `tests/` directory, or a small standalone program/`examples/` file) that FAILS (or prints a wrong result, clearly labelled) with your change and PASSES without it. Verify both directions yourself.
* Look at the code first to find where the property is actually implemented; pick a place where your change makes the property false for some inputs only.

Deliverables, all inside `{wt}`:
1. `{wt}/MUTANT/patch.diff` — the change to the source only (output of `git diff` restricted to non-test source files; the demonstration is NOT part of it);
2. `{wt}/MUTANT/demo/` — the demonstration file(s) plus `HOWTO.txt` with the exact commands to run it and the expected output with and without the change;
3. `{wt}/MUTANT/meta.json` — {{"property": "{pid}", "summary": one sentence, "files_touched": [...], "needs_to_manifest": what specific input/sequence/state is required, "tests_run": which test commands you ran and their result with the change applied, "demo_fails_with_change": true/false, "demo_passes_without_change": true/false}}.
Leave the worktree with the change APPLIED (uncommitted). Final answer: a short report (≤ 25 lines) with the same information. If after a serious attempt you cannot make a change that passes the existing tests, say so and deliver the closest you got, clearly marked.
"""
if note:
    text += "\nNote: " + note + "\n"
os.makedirs(os.path.join(V, "work", "mut_prompts"), exist_ok=True)
open(os.path.join(V, "work", "mut_prompts", f"prompt_{mid}.md"), "w").write(text)
print(text)
