#!/bin/sh
# usage: tools/mkfixer.sh TAG  — creates /tmp/fx/TAG/repo (detached worktree of /repo), /tmp/wt/TAG (branch wip-TAG of /verif)
# and work/prompt_TAG.md = fixer preamble + work/fixer_TAG.task
set -e
TAG=$1
cd "$(dirname "$0")/.."
mkdir -p /tmp/fx/$TAG
git -C /repo worktree add -q --detach /tmp/fx/$TAG/repo HEAD
git worktree add -q -b wip-$TAG /tmp/wt/$TAG
mkdir -p /tmp/wt/$TAG/work/fixes
sed -e "s#{RWT}#/tmp/fx/$TAG/repo#g" -e "s#{WT}#/tmp/wt/$TAG#g" -e "s#{TAG}#$TAG#g" work/fixer_preamble.md > work/prompt_$TAG.md
cat work/fixer_$TAG.task >> work/prompt_$TAG.md
echo work/prompt_$TAG.md
