"""C09 — staged (macro) code means the same as the code it generates."""
import collections
from vlib import *
import progcheck as pc
import stagecheck as sc
sys.path.insert(0, os.path.join(VERIF, "tools", "gen"))
import coregen, stagegen

MODULES = ["Mimium.Props.C09"]
# (profile, cases, backends)
QUICK = [("core", 1500, "vm"), ("scalar", 1000, "vm,wasm"), ("deep", 300, "vm")]
THOROUGH = [("core", 6000, "vm"), ("scalar", 4000, "vm,wasm"), ("deep", 1500, "vm")]


def gen_cases(seed, prof, n, backends, times, stats):
    out = []
    for i in range(n):
        sp, inputs, st = stagegen.make_case(seed, i, prof, times)
        stats.update(st)
        try:
            man = stagegen.manual(sp)
        except stagegen.Stuck as e:
            stats["generator_stuck"] += 1
            continue
        man_src = man.src()
        if len(man_src) > 200_000:
            # recursive macros that splice themselves twice per level: the expansion (and the compile time of either form)
            # grows exponentially — one such case (deep:11:260, 2.5 MB) kept the compiler busy for > 30 min
            stats["expansion_too_big_skipped"] += 1
            continue
        out.append(dict(id=f"{prof}:{seed}:{i}", sp=sp, src=sp.src(), sx=sp.sx(), man_src=man_src, man_sx=stagegen.plain_sx(man),
                        inputs=inputs, times=times, backends=backends, dup=False, nmacros=len(sp.macros)))
    return out


def run_cases(cases, trees=True):
    """fills c['r'] = dict(vm_s, wasm_s, vm_m, wasm_m, model_s (front, tree, out), model_m, t_expand, t_front, t_plain)"""
    for be in sorted(set(c["backends"] for c in cases)):
        sub = [c for c in cases if c["backends"] == be]
        jobs = [(c["id"] + "|s", c["src"], c["times"], c["inputs"]) for c in sub] + \
               [(c["id"] + "|m", c["man_src"], c["times"], c["inputs"]) for c in sub]
        res = sc.run_outputs(jobs, backends=be)
        for c in sub:
            c.setdefault("r", {})
            c["r"]["vm_s"], c["r"]["wasm_s"] = res[c["id"] + "|s"]
            c["r"]["vm_m"], c["r"]["wasm_m"] = res[c["id"] + "|m"]
    mres = sc.run_model([(c["id"] + "|s", c["sx"], c["times"], c["inputs"]) for c in cases] +
                        [(c["id"] + "|m", c["man_sx"], c["times"], c["inputs"]) for c in cases if c.get("man_sx")])
    for c in cases:
        c["r"]["model_s"] = mres[c["id"] + "|s"]
        c["r"]["model_m"] = mres.get(c["id"] + "|m", ("-", "-", "-"))
    if trees:
        jobs = []
        for c in cases:
            jobs += [(c["id"] + "|e", c["src"], "expand"), (c["id"] + "|f", c["src"], "front" if staged_src(c["src"]) else "plain"),
                     (c["id"] + "|p", c["man_src"], "plain")]
        tres = sc.run_trees(jobs)
        for c in cases:
            c["r"]["t_expand"], c["r"]["t_front"], c["r"]["t_plain"] = tres[c["id"] + "|e"], tres[c["id"] + "|f"], tres[c["id"] + "|p"]


def staged_src(src):
    """does the parser see a quote, a splice or a macro call (then the compiler wraps the program and runs the macro stage)"""
    return "`" in src or "$" in src or "!(" in src


def judge(c):
    """list of (kind, detail): kinds starting with `P:` are failures of the property on the real compiler, `M:` are
    model/implementation disagreements"""
    r = c["r"]
    out = []
    for be in c["backends"].split(","):
        s, m = r[be + "_s"], r[be + "_m"]
        sok, mok = s.startswith("ok"), m.startswith("ok")
        if sok and mok:
            if sc.norm_out(s) != sc.norm_out(m):
                out.append(("P:staged-differs-from-manual-expansion", be))
        elif mok and not sok:
            out.append(("P:staged-rejected-but-manual-expansion-runs", be + ":" + s[:160]))
        if sok and not c["dup"] and r["model_s"][2].startswith("ok") and sc.norm_out(s) != r["model_s"][2]:
            out.append(("M:output-differs-from-model", be))
    ms, mm = r["model_s"], r["model_m"]
    if r["vm_s"].startswith("ok") and not ms[2].startswith("ok"):
        out.append(("M:model-cannot-run-what-the-compiler-runs", ms[2][:160] + " / " + ms[1][:160]))
    if ms[2].startswith("ok") and mm[2].startswith("ok") and ms[2] != mm[2]:
        out.append(("M:model-expansion-differs-from-model-manual", ""))
    if "t_expand" in r:
        te, tf, tp = r["t_expand"], r["t_front"], r["t_plain"]
        if te[0] != "ok" and r["vm_s"].startswith("ok") and "`" in c["src"]:
            # never skip the tree comparison silently (e.g. the compiler's trace line was renamed)
            out.append(("M:expanded-tree-unavailable", te[1][:200]))
        if te[0] == "ok":
            if te[2] != "same":
                out.append(("M:harness-replica-differs-from-compiler", te[2][:300]))
            if te[1] != ms[1]:
                out.append(("M:expanded-tree-differs-from-model", ""))
            if tp[0] == "ok" and sc.strip_blocks(te[1]) != sc.strip_blocks(tp[1]):
                out.append(("P:expanded-tree-is-not-the-manual-expansion", ""))
        if tf[0] == "ok" and c["nmacros"] > 0 and sc.norm_none(tf[1]) != (("(bracket " + ms[0] + ")") if staged_src(c["src"]) else ms[0]):
            out.append(("M:front-end-tree-differs-from-model", ""))
        if c.get("pipe") and not staged_src(c["src"]) and tf[0] == "ok" and tp[0] == "ok":
            # a program whose only macro constructs are `_` pipes is expanded by the front end alone (no macro stage runs):
            # its tree must already be the manual expansion
            if sc.strip_blocks(tf[1]) != sc.strip_blocks(tp[1]):
                out.append(("P:expanded-tree-is-not-the-manual-expansion", "macro pipe, front end only"))
    return out


def nontrivial(c):
    r = c["r"]
    return c["nmacros"] > 0 and r["vm_s"].startswith("ok") and r["vm_m"].startswith("ok") and pc.nontrivial(r["vm_s"])


def replay_obj(c, probs):
    r = c["r"]
    o = {"case_id": c["id"], "src": c["src"], "sx": c["sx"], "manual_src": c["man_src"], "manual_sx": c.get("man_sx"), "inputs": c["inputs"],
         "times": c["times"], "backends": c["backends"], "problems": [list(p) for p in probs]}
    for k in ("vm_s", "vm_m", "wasm_s", "wasm_m"):
        o[k] = r.get(k, "-")[:1200]
    o["model"] = [x[:3000] for x in r["model_s"]]
    if "t_expand" in r:
        o["real_expanded_tree"] = r["t_expand"][1][:6000]
    return o


MACRO_PREFIX = "#stage(macro)\nfn zz_staged_identity(x){ x }\n#stage(main)\n"


def real_only_stream(ctx, known, times):
    """Forms OUTSIDE the Lean fragment (`match`, records, arrays, modules, type declarations, …): staged source against
    its hand-written expansion on the real compiler only, both back ends.
      * corpus/C09/*.json entries marked `real_only` (minimised past failures: `match` in the main stage, a file that ends in
        a macro-stage section, …);
      * every shipped source that runs: the file with a macro-stage section put in front of it — the whole main stage is then
        quoted, encoded by translate_code, rebuilt by the combinators on the macro VM and compiled again — against the file
        as it is (its own manual expansion). Compiled under the file's own path.
    A pair whose plain side runs must run staged, with the same channels and bit-identical samples. Returns the coverage record."""
    import corpusmut
    pairs = []
    cdir = os.path.join(VERIF, "corpus", "C09")
    for fn in sorted(os.listdir(cdir)) if os.path.isdir(cdir) else []:
        if fn.endswith(".json"):
            r = json.load(open(os.path.join(cdir, fn)))
            if r.get("real_only"):
                pairs.append(dict(id="corpus:" + fn[:-5], file="corpus/C09/" + fn, src=r["src"], man_src=r["manual_src"], path=None,
                                  times=r.get("times", times), inputs=r.get("inputs", [])))
    repo = REPO if os.path.isdir(os.path.join(REPO, "lib")) else "/repo"
    for f in corpusmut.shipped_files(repo):
        src = open(f, encoding="utf-8", errors="replace").read()
        pairs.append(dict(id="file:" + f, file=os.path.relpath(f, repo), src=MACRO_PREFIX + src, man_src=src, path=f, times=4,
                          inputs=[[0.5]] * 4))
    jobs = []
    for c in pairs:
        for side, text in (("s", c["src"]), ("m", c["man_src"])):
            jobs.append({"id": c["id"] + "|" + side, "src": text, "sx": None, "times": c["times"], "inputs": c["inputs"], "path": c["path"]})
    res = pc.run_batch(jobs, want_model=False, nshards=NCPU, timeout=300)
    listed = {f: k for k in known for f in k.get("files", [])}
    seen, bad, st = set(), [], collections.Counter()
    for c in pairs:
        s, m = res[c["id"] + "|s"], res[c["id"] + "|m"]
        if not (m[0].startswith("ok") and m[1].startswith("ok") and m[0].split(" ")[2] != "0"):
            st["manual_side_does_not_run(skipped)"] += 1
            continue
        st["compared"] += 1
        why = None
        for i, be in ((0, "vm"), (1, "wasm")):
            if not s[i].startswith("ok"):
                why = why or f"staged-rejected-but-manual-expansion-runs({be}): {s[i][:140]}"
            elif pc.norm_impl(s[i]) != pc.norm_impl(m[i]):
                why = why or f"staged-differs-from-manual-expansion({be})"
        if why is None:
            st["agree"] += 1
            if pc.nontrivial(m[0]):
                st["agree_nontrivial"] += 1
        elif c["file"] in listed:
            st["known-finding"] += 1
            seen.add(c["file"])
        else:
            bad.append((c, why, s, m))
    for f, k in listed.items():
        if f in seen:
            ctx.known_finding(f"{k['id']} {k['what']} [still fails: {f} behind a macro-stage prefix]")
        else:
            ctx.notes.append(f"known finding {k['id']}: {f} behind a macro-stage prefix no longer fails")
    if bad:
        bad.sort(key=lambda b: len(b[0]["src"]))
        c, why, s, m = bad[0]
        ctx.violation(f"staged program and its manual expansion disagree on the real compiler ({why}) in {len(bad)} real-only pairs: "
                      + ", ".join(b[0]["file"] for b in bad[:10]) + f"; smallest:\n{c['src'][:1500]}",
                      {"kind": "real-only", "src": c["src"], "manual_src": c["man_src"], "path": c["path"], "file": c["file"], "times": c["times"],
                       "inputs": c["inputs"], "why": why, "vm_s": s[0][:1200], "wasm_s": s[1][:1200], "vm_m": m[0][:1200], "wasm_m": m[1][:1200],
                       "files": [b[0]["file"] for b in bad]})
    return dict(st, pairs=len(pairs), failures=len(bad),
                rule="staged (corpus pair / shipped file behind `#stage(macro) fn …  #stage(main)`) vs manual expansion (the file as it is), "
                     "own path, VM + WASM, 4 samples; compared when the manual side runs with >= 1 channel on both back ends")


def main(ctx, args):
    ctx.assumptions += [
        "Model/Stage.lean is a hand port of convert_macroexpand, convert_self, translate_staging.rs and the combinators of codegen_combinators.rs; its stage-0 evaluator stands for the VM run of compile_and_execute_stage0 (pure fragment: numbers, code, functions, tuples, arrays)",
        "types are not modelled (type-id arguments of the lambda/letrec combinators are placeholders); literals carry the bits of their value",
        "the tree of the real expansion is read (a) from the compiler's own trace line `ast after stage-0 execution` and (b) from a replica of compile_and_execute_stage0 built from the public API; both must print the same text",
        "the meaning of an expanded tree is given by Model/Core.lean through the (unverified, exercised) reader Model/StageIO.lean::toCoreProg",
        "forms outside the Lean fragment (match, records, arrays, modules, type declarations) are compared on the real compiler only: corpus pairs marked real_only and every shipped source behind a macro-stage prefix against the source as it is",
        "known findings steer the generator: F11, F17 (F2 and F3 are repaired: several delay sizes and state inside `if` arms are generated) (no `if` inside tuple components), (S1, the block-scope leak, is repaired in /repo e02acb0: programs that bind one name twice are compared with the model like all others)",
    ]
    known = load_known("C09")
    if not extract(ctx):
        ctx.finish()
    proved = prove(ctx, MODULES, drivers=["drv_c09"])
    if not proved:
        # a broken obligation: keep the drivers of the last good build and search for a concrete failing input
        lake_build(["drv_c09"])
    if proved and ctx.tier == "thorough":
        proved = leancheck(ctx, MODULES)
    if not build_harness(ctx, bins=["c09", "runprog"]):
        ctx.finish()
    times = 12 if ctx.tier == "quick" else 32
    gstats, stats = collections.Counter(), collections.Counter()
    cases = []
    if args.replay and json.load(open(args.replay)).get("kind") == "real-only":
        r = json.load(open(args.replay))
        jobs = [{"id": side, "src": r[key], "sx": None, "times": r.get("times", 4), "inputs": r.get("inputs", []), "path": r.get("path")}
                for side, key in (("s", "src"), ("m", "manual_src"))]
        res = pc.run_batch(jobs, want_model=False, nshards=1)
        log(f"  staged: {res['s'][0][:200]} | {res['s'][1][:200]}\n  manual: {res['m'][0][:200]} | {res['m'][1][:200]}")
        if [pc.norm_impl(x) for x in res["s"][:2]] != [pc.norm_impl(x) for x in res["m"][:2]]:
            ctx.violation("staged program and its manual expansion disagree on the real compiler (real-only pair)", dict(r, vm_s=res["s"][0][:1200]))
        ctx.coverage.update({"evaluations": 1})
        ctx.finish("proof")
    if args.replay:
        r = json.load(open(args.replay))
        cases = [dict(id="replay", sp=None, src=r["src"], sx=r["sx"], man_src=r["manual_src"], man_sx=r.get("manual_sx"), inputs=r.get("inputs", []),
                      times=r.get("times", 8), backends=r.get("backends", "vm"), dup=r.get("dup", False), nmacros=1)]
    else:
        cdir = os.path.join(VERIF, "corpus", "C09")
        for fn in sorted(os.listdir(cdir)) if os.path.isdir(cdir) else []:
            if fn.endswith(".json"):
                r = json.load(open(os.path.join(cdir, fn)))
                if r.get("real_only"):
                    continue        # no S-expression for the model: compared on the real compiler only (real_only_stream)
                cases.append(dict(id="corpus:" + fn[:-5], sp=None, src=r["src"], sx=r["sx"], man_src=r["manual_src"], man_sx=r.get("manual_sx"),
                                  inputs=r.get("inputs", []), times=r.get("times", 8), backends=r.get("backends", "vm,wasm"), dup=r.get("dup", False), nmacros=1))
        for prof, n, be in (QUICK if ctx.tier == "quick" else THOROUGH):
            cases += gen_cases(ctx.seed, prof, n, be, times, gstats)
        # the macro pipe `x ||> f` (expanded by the front end, before staging): every rendering of every skeleton whose names
        # resolve lexically (classes S5 / S6 are C10's known findings) against the skeleton's manual expansion
        pv = [v for v in stagegen.pipe_variants() if v["cls"] == "ok"]
        if ctx.tier == "quick":
            pv = pv[ctx.seed % 3::3]
        for i, v in enumerate(pv):
            cases.append(dict(id=f"pipe:{v['shape']}:{i}", sp=v["sp"], src=v["sp"].src(), sx=v["sp"].sx(), man_src=v["man"].src(),
                              man_sx=stagegen.plain_sx(v["man"]), inputs=[], times=times, backends="vm,wasm", dup=False, nmacros=1, pipe=True))
            gstats["stage_macro_pipe"] += 1
    run_cases(cases)
    failures, nontriv, samples = [], set(), []
    for c in cases:
        stats["evaluations"] += 1
        probs = judge(c)
        r = c["r"]
        stats["staged_" + r["vm_s"].split(" ")[0]] += 1
        stats["manual_" + r["vm_m"].split(" ")[0]] += 1
        if r["vm_s"].startswith("ok") and not r["vm_m"].startswith("ok"):
            stats["manual_expansion_rejected_staged_ok"] += 1
        if c["dup"]:
            stats["dup_binders(model comparison skipped)"] += 1
        if "t_expand" in r and r["t_expand"][0] == "ok":
            stats["trees_compared"] += 1
        if probs:
            failures.append((c, probs))
        elif nontrivial(c):
            nontriv.add(hash(c["src"]))
            if len(samples) < 3 and stats["evaluations"] % 211 == 17:
                samples.append({"src": c["src"][:1500], "manual_src": c["man_src"][:1000], "output_bits": r["vm_s"][:160]})
    real_only = real_only_stream(ctx, known, times) if not args.replay else {}
    stats["evaluations"] += real_only.get("compared", 0)
    # known findings: replay the listed inputs
    for k in known:
        if k.get("kind") == "staged-rejected":
            res = sc.run_outputs([("s", k["src"], k.get("times", 4), []), ("m", k["manual_src"], k.get("times", 4), [])], backends="vm", nshards=1)
            if res["m"][0].startswith("ok") and not res["s"][0].startswith("ok"):
                ctx.known_finding(f"{k['id']} {k['what']} [still fails: staged {res['s'][0][:70]}]")
            else:
                ctx.notes.append(f"known finding {k['id']} no longer reproduces")
        elif k.get("kind") == "staged-differs":
            be = k.get("backend", "vm")
            res = sc.run_outputs([("s", k["src"], k.get("times", 4), []), ("m", k["manual_src"], k.get("times", 4), [])], backends=be, nshards=1)
            i = 0 if be == "vm" else 1
            if res["s"][i].startswith("ok") and sc.norm_out(res["s"][i]) != sc.norm_out(res["m"][i]):
                ctx.known_finding(f"{k['id']} {k['what']} [still fails on {be}]")
            else:
                ctx.notes.append(f"known finding {k['id']} no longer reproduces")
        elif k.get("kind") == "model-differs":
            res = sc.run_outputs([("s", k["src"], k.get("times", 4), [])], backends="vm", nshards=1)
            m = sc.run_model([("s", k["sx"], k.get("times", 4), [])], nshards=1)
            if res["s"][0].startswith("ok") and sc.norm_out(res["s"][0]) != m["s"][2]:
                ctx.known_finding(f"{k['id']} {k['what']} [still fails]")
            else:
                ctx.notes.append(f"known finding {k['id']} no longer reproduces")
    # a disagreement between the VM and the model on which staged == manual, model(staged) == model(manual) and the WASM
    # backend sides with the model is a VM-vs-WASM divergence of the core language on the plain program (C01/C08), not a
    # staging matter: counted and named in the evidence, not reported as a failure of this property
    core_div = []
    for c, probs in list(failures):
        if [k for k, _ in probs] == ["M:output-differs-from-model"] and probs[0][1] == "vm" and c["r"]["model_m"][2] == c["r"]["model_s"][2] \
                and sc.norm_out(c["r"]["vm_s"]) == sc.norm_out(c["r"]["vm_m"]):
            w = sc.run_outputs([("w", c["man_src"], c["times"], c["inputs"])], backends="wasm", nshards=1)["w"][1]
            if w.startswith("ok") and sc.norm_out(w) == c["r"]["model_m"][2]:
                failures.remove((c, probs))
                core_div.append(c)
    if core_div:
        stats["core_vm_wasm_divergences_on_the_plain_program(not staging)"] = len(core_div)
        ctx.notes.append("VM differs from WASM and from the reference semantics on the PLAIN manual expansion (core-language matter, C01): " + core_div[0]["man_src"][:600])
    pfail = [(c, p) for c, p in failures if any(k.startswith("P:") for k, _ in p)]
    mfail = [(c, p) for c, p in failures if not any(k.startswith("P:") for k, _ in p)]
    bykind = collections.Counter(k for _, p in failures for k, _ in p)

    def minimise(c, kinds):
        if c.get("sp") is None:
            return c
        def pred(q):
            try:
                man = stagegen.manual(q)
            except stagegen.Stuck:
                return False
            d = dict(c, sp=q, src=q.src(), sx=q.sx(), man_src=man.src(), man_sx=stagegen.plain_sx(man), dup=False,
                     nmacros=len(q.macros), id="shrink")
            d.pop("r", None)
            run_cases([d])
            return bool(set(k for k, _ in judge(d)) & kinds)
        try:
            q = sc.shrink_sprog(c["sp"], pred, 120)
            man = stagegen.manual(q)
            d = dict(c, sp=q, src=q.src(), sx=q.sx(), man_src=man.src(), man_sx=stagegen.plain_sx(man), dup=False, nmacros=len(q.macros))
            d.pop("r", None)
            run_cases([d])
            return d if judge(d) else c
        except Exception as e:
            ctx.notes.append("shrink failed: %s" % e)
            return c
    if pfail:
        pfail.sort(key=lambda f: len(f[0]["src"]))
        c, probs = pfail[0]
        c2 = minimise(c, set(k for k, _ in probs if k.startswith("P:")))
        rep = replay_obj(c2, judge(c2) or probs)
        rep["failing_cases"], rep["by_kind"] = len(pfail), dict(bykind)
        ctx.violation(f"staged program and its manual expansion disagree on the real compiler ({', '.join(sorted(set(k for k, _ in probs)))}) in {len(pfail)} cases; smallest:\n{rep['src']}\n--- manual expansion\n{rep['manual_src']}", rep)
    elif mfail:
        mfail.sort(key=lambda f: len(f[0]["src"]))
        c, probs = mfail[0]
        c2 = minimise(c, set(k for k, _ in probs))
        rep = replay_obj(c2, judge(c2) or probs)
        rep["failing_cases"], rep["by_kind"], rep["correspondence"] = len(mfail), dict(bykind), "Model/Stage.lean vs the real staging pipeline"
        ctx.violation(f"model and implementation disagree ({', '.join(sorted(set(k for k, _ in probs)))}) in {len(mfail)} cases but staged == manual on the real compiler; smallest:\n{rep['src']}", rep, found_input=False)
    if not proved and not pfail:
        ctx.violation("proof obligation broken: " + "; ".join(ctx._broken), {"stage": "prove", "theorems": ctx._broken,
                      "lake": getattr(ctx, "_lake_errors", "")}, found_input=False)
    ctx.coverage.update({
        "evaluations": stats["evaluations"],
        "distinct_nontrivial": len(nontriv),
        "rule": "type-directed random core programs (coregen profiles core/scalar/deep) whose float expressions are wrapped, at up to 3-5 places, in staging contexts "
                "(identity macro, $(`e), random templates with 1-3 holes, let-bound code, higher-order macro f(f(x)) with a macro function or macro lambda, counted recursion "
                "0-3 with and without lifted macro-stage arithmetic, nested quote/splice, macro generating a lambda); each case = staged source + manual expansion computed "
                "by substitution in Python + S-expression for the Lean model; run %d samples on the VM (scalar profile also WASM). Compared: staged vs manual outputs per backend, "
                "VM vs model outputs, real expanded tree vs model tree node for node, real expanded tree vs tree of the manual expansion modulo `{}` blocks, front-end tree vs model. "
                "non-trivial = at least one macro expanded, both programs accepted, output not constant; distinct = distinct staged source" % times,
        "samples": samples or [{"note": "replay mode"}],
        "traces_validated_against_impl": stats["trees_compared"],
        "property_failures": len(pfail),
        "model_impl_disagreements": len(mfail),
        "failure_kinds": dict(bykind),
        "outcome_classes": {k: v for k, v in stats.items() if k.startswith(("staged_", "manual_", "dup_"))},
        "staging_contexts_generated": {k: v for k, v in gstats.items() if k.startswith("stage_")},
        "construct_counts": {k: v for k, v in gstats.items() if not k.startswith("stage_")},
        "real_only_pairs(forms outside the Lean fragment)": real_only,
    })
    ctx.finish("proof")
