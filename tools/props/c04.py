"""C04 — front end and compile entry points are total on arbitrary text."""
import os, sys, json, re, collections, hashlib, bisect, subprocess
from vlib import *

MODULES = ["Mimium.Props.C04"]
STAGES = ["tok", "parse", "type", "bc", "wasm"]
STACK_KIB = 8192          # the main-thread stack of the CLI and of the language server's analysis worker
TIMEOUT_MS = 10000        # wall clock per case (a case normally takes 0.2–5 ms)
NEST_BOUND = 256          # stated bound: bracket / keyword / operator nesting up to this depth must not overflow the stack


def hx(s):
    return s.encode("utf-8", "surrogatepass").hex() or "-"


def unhx(h):
    return "" if h == "-" else bytes.fromhex(h).decode("utf-8", "replace")


# ---------------------------------------------------------------------------------------------------------------------
# panic sites, symbolisation

_src_cache = {}


def _lines(path):
    if path not in _src_cache:
        try:
            _src_cache[path] = open(path, encoding="utf-8", errors="replace").read().split("\n")
        except OSError:
            _src_cache[path] = None
    return _src_cache[path]


def site_key(loc):
    """`/repo/crates/lib/mimium-lang/src/compiler/mirgen.rs:2396:21` -> (key, display).
    The key is content-addressed (file, enclosing fn, text of the panicking line), so that unrelated edits that only shift
    line numbers do not turn a listed site into a 'new' one; the display keeps file:line."""
    m = re.match(r"(.*):(\d+):(\d+)$", loc)
    if not m:
        return loc, loc
    path, line = m.group(1), int(m.group(2))
    rel = path.split("/crates/", 1)[1] if "/crates/" in path else re.sub(r"^.*/registry/src/[^/]+/", "", path)
    rel = rel.replace("lib/mimium-lang/src/", "")
    ls = _lines(path)
    if not ls or line > len(ls):
        return f"{rel}:{line}", f"{rel}:{line}"
    text = re.sub(r"\s+", " ", " ".join(ls[line - 1:line + 2])).strip()      # the panicking line and the two after it
    fn = "?"
    for i in range(line - 1, -1, -1):
        mm = re.match(r"\s*(?:pub(?:\([a-z]+\))?\s+)?(?:const\s+|unsafe\s+|extern\s+\"C\"\s+)*fn\s+([A-Za-z_][A-Za-z0-9_]*)", ls[i])
        if mm:
            fn = mm.group(1)
            break
    h = hashlib.sha1(text.encode()).hexdigest()[:8]
    return f"{rel}::{fn}::{h}", f"{rel}:{line} (fn {fn})"


_syms = None


def symbols():
    global _syms
    if _syms is None:
        out = subprocess.run(["nm", "-C", "--defined-only", os.path.join(BIN, "c04")], capture_output=True, text=True).stdout
        t = []
        for l in out.splitlines():
            f = l.split(" ", 2)
            if len(f) == 3 and f[1] in "tTwW":
                t.append((int(f[0], 16), f[2]))
        t.sort()
        main = [a for a, n in t if n == "c04::main"]
        _syms = (t, main[0] if main else None)
    return _syms


def frame_names(fr):
    """`sig:mainaddr:a,b,c` -> function names (innermost first), generic parameters and hashes removed"""
    t, main = symbols()
    p = fr.split(":")
    if len(p) != 3 or main is None or not p[2]:
        return []
    base = int(p[1], 16) - main
    out = []
    for a in p[2].split(","):
        x = int(a, 16) - base
        i = bisect.bisect_right(t, (x, chr(0x10ffff))) - 1
        n = t[i][1] if 0 <= i < len(t) and 0 <= x - t[i][0] < (1 << 20) else "?"
        n = re.sub(r"<.*>", "<>", n)
        n = re.sub(r"::h[0-9a-f]{16}$", "", n)
        out.append(n)
    return out


def where_of(cls, extra):
    """function that recurses (abort) / deepest frame common to all samples (timeout)"""
    m = re.search(r"frames=(\S*)", extra)
    if not m or not m.group(1):
        return "?"
    samples = [frame_names(x) for x in m.group(1).split("/") if x]
    samples = [[n for n in s if n.startswith("mimium") or n.startswith("state_tree")] for s in samples]
    samples = [s for s in samples if s]
    if not samples:
        return "?"
    if cls == "abort" or any(len(s) >= 60 for s in samples):
        c = collections.Counter(n for s in samples for n in s)
        top = max(c.values())
        return sorted(n for n, k in c.items() if k == top)[0]
    outer = [list(reversed(s)) for s in samples]
    k = 0
    while all(len(o) > k for o in outer) and len({o[k] for o in outer}) == 1:
        k += 1
    return outer[0][k - 1] if k else samples[0][0]


# ---------------------------------------------------------------------------------------------------------------------
# result lines

def parse_result(line):
    f = line.rstrip("\n").split("\t")
    if len(f) < 10:
        return None
    r = {"hex": f[0], "class": f[1], "valid": f[2] == "1", "stages": dict(zip(STAGES, f[3:8])), "spans": f[8],
         "ndiag": int(f[9]) if f[9].isdigit() else 0, "extra": f[10] if len(f) > 10 else ""}
    m = re.search(r"ntok=(\d+)", r["extra"])
    r["ntok"] = int(m.group(1)) if m else -1
    return r


TYPE_ERR_UNWRAP = re.compile(r"called `Result::unwrap\(\)` on an `Err` value: \[(TypeMismatch|LengthMismatch|IndexForNonTuple|"
                             r"IndexOutOfRange|VariableNotFound|CircularType|NonFunction|NonSupertype|PatternMismatch|[A-Z][A-Za-z]+ ?\{|[A-Z][A-Za-z]+\()")


def failures(r):
    """signatures of the ways in which this case violates C04, and of the panics that are C03's business.
    Returns (c04: [(sig, display, msg)], c03: [(sig, display, msg)])"""
    c04, c03 = [], []
    if r["class"] in ("abort", "timeout"):
        st = re.search(r"stage=([a-z?]+)", r["extra"])
        st = st.group(1) if st else "?"
        w = where_of(r["class"], r["extra"])
        c04.append((f"{r['class']}:{st}:{w}", f"{r['class']} in stage {st} ({'recursion through' if r['class'] == 'abort' else 'stuck in'} {w})", r["extra"][:80]))
        return c04, c03
    seen = set()
    for st in STAGES:
        v = r["stages"][st]
        if not v.startswith("P"):
            continue
        loc, _, msg = v[1:].partition("|")
        key, disp = site_key(loc)
        sig = f"panic:{key}"
        if sig in seen:
            continue
        seen.add(sig)
        # a panic of a compile entry point on a text the front end accepts without any diagnostic is C03's business,
        # unless the panic payload itself is a type error (then the text HAS a type error and was answered by a crash)
        if st in ("bc", "wasm") and r["valid"] and not TYPE_ERR_UNWRAP.search(msg):
            c03.append((sig, f"{disp} [{st}]", msg))
        else:
            c04.append((sig, f"{disp} [{st}]", msg))
    if r["spans"] != "ok":
        m = re.match(r"B([a-z]+):[0-9./]+:([a-z>-]+):?([A-Za-z0-9_]*)", r["spans"])
        c04.append((f"span:{m.group(1)}:{m.group(2)}:{m.group(3)}" if m else "span:?", "diagnostic span outside the text / off a char boundary: " + r["spans"], r["spans"]))
    return c04, c03


def run_sup(gen_args, stdin_data=None, mode="sup", stack=STACK_KIB, timeout_ms=TIMEOUT_MS):
    p = mmh("C04", [mode, str(stack), str(timeout_ms)] + [str(a) for a in gen_args], input=stdin_data, timeout=7200)
    return p


def run_texts(texts, stack=STACK_KIB, timeout_ms=TIMEOUT_MS):
    """run a list of texts, returns parsed results in order"""
    p = run_sup(["lines"], stdin_data="".join(hx(t) + "\n" for t in texts), stack=stack, timeout_ms=timeout_ms)
    rs = [parse_result(l) for l in p.stdout.split("\n") if l]
    return [r for r in rs if r]


# ---------------------------------------------------------------------------------------------------------------------
# shrinking: delta debugging on the token list (pieces), then on characters

PIECE = re.compile(r"//[^\n]*|/\*.*?\*/|\"[^\"\n]*\"|[A-Za-z_][A-Za-z_0-9]*|[0-9]+(?:\.[0-9]+)?|\s+|->|<-|=>|\|\|>|==|!=|<=|>=|&&|\|\||\|>|::|\.\.|.", re.S)


def has_sig(r, sig):
    a, b = failures(r)
    if sig.startswith("valid:"):
        return any("valid:" + s == sig for s, _, _ in b)
    return any(s == sig for s, _, _ in a + b)


def shrink(text, sig, budget=40, max_s=90):
    """smallest text found that still shows signature `sig`"""
    import time
    t_end = time.time() + max_s
    is_to = sig.startswith("timeout")
    if is_to:
        budget = 8
    original = text

    def ok_batch(cands):
        if time.time() > t_end:
            return None
        if is_to:
            # candidates are judged with a short wall clock (a hang exceeds any); the result is confirmed with the full one below
            cands = cands[:5]
            rs = run_texts(cands, timeout_ms=2500)
            by = {unhx(r["hex"]): r for r in rs}
            for c in cands:
                r = by.get(c)
                if r and r["class"] == "timeout":
                    return c
            return None
        rs = run_texts(cands)
        by = {unhx(r["hex"]): r for r in rs}
        for c in cands:
            r = by.get(c)
            if r and has_sig(r, sig):
                return c
        return None
    for splitter in (lambda t: PIECE.findall(t), lambda t: list(t)):
        parts = splitter(text)
        n = 2
        while len(parts) >= 1 and budget > 0:
            budget -= 1
            chunk = max(1, len(parts) // n)
            cands = []
            for i in range(0, len(parts), chunk):
                c = "".join(parts[:i] + parts[i + chunk:])
                if c != "".join(parts):
                    cands.append(c)
            cands = sorted(set(cands), key=len)[:400]
            got = ok_batch(cands) if cands else None
            if got is not None:
                parts = splitter(got)
                n = max(n - 1, 2)
            elif chunk == 1:
                break
            else:
                n = min(len(parts), n * 2)
        text = "".join(parts)
    if is_to and text != original:
        rs = run_texts([text])
        if not (rs and rs[0]["class"] == "timeout"):
            return original
    return text


# ---------------------------------------------------------------------------------------------------------------------

ENUM = {"full": (set(), 0), "core": (set(), 0)}      # alphabet, max length of the exhaustive streams of this run


def is_enum_text(text):
    """is this text one of the exhaustively enumerated ones (counted arithmetically, not kept in a set)?"""
    parts = text.split(" ") if text else []
    return any(len(parts) <= n and all(p in a for p in parts) for a, n in ENUM.values())


def new_stats():
    return {"evaluations": 0, "distinct": set(), "nontrivial": set(), "distinct_n": 0, "nontrivial_n": 0, "classes": collections.Counter(), "valid": 0,
            "by_stream": collections.Counter(), "ntok_hist": collections.Counter(), "diag_cases": 0, "max_bytes": 0,
            "c04": {}, "c03": {}, "samples": [], "span_checked_diags": 0, "flaky": 0}


def note_failures(stats, stream, r, count):
    c04, c03 = failures(r)
    for bucket, lst in (("c04", c04), ("c03", c03)):
        for sig, disp, msg in lst:
            e = stats[bucket].setdefault(sig, {"count": 0, "hex": r["hex"], "display": disp, "msg": msg[:160], "stream": stream})
            e["count"] += count
            if len(r["hex"]) < len(e["hex"]):
                e.update({"hex": r["hex"], "display": disp, "msg": msg[:160], "stream": stream})


def absorb(stats, stream, out):
    """digest the output of one `c04 sup` run: result lines, or (exhaustive streams) the supervisor's aggregate"""
    problems = []
    sname = stream.rstrip("0123456789")
    for line in out.split("\n"):
        if not line:
            continue
        if line.startswith("#CUT"):
            stats["cut_streams"] = stats.get("cut_streams", []) + [stream]
            continue
        if line.startswith("#SUM\t"):
            j = json.loads(line[5:])
            stats["evaluations"] += j["evaluations"]
            stats["by_stream"][sname] += j["evaluations"]
            stats["valid"] += j["valid"]
            stats["span_checked_diags"] += j["ndiag"]
            stats["max_bytes"] = max(stats["max_bytes"], j["max_bytes"])
            stats["classes"].update(j["classes"])
            stats["ntok_hist"].update({int(k): v for k, v in j["ntok_hist"].items()})
            if "full-nosep" in stream:
                pass        # concatenations over the full alphabet can coincide (`=`+`=` is `==`): not counted as distinct
            elif "nosep" in stream:
                stats["nosep_n"] = stats.get("nosep_n", 0) + j["evaluations"]
                stats["nosep_nontrivial_n"] = stats.get("nosep_nontrivial_n", 0) + j["nontrivial"]
            else:
                stats["distinct_n"] += j["evaluations"]
                stats["nontrivial_n"] += j["nontrivial"]
            continue
        if line.startswith("#SAMPLE\t"):
            r = parse_result(line[8:])
            if r and len(stats["samples"]) < 2:
                stats["samples"].append({"src": unhx(r["hex"])[:200], "class": r["class"], "stages": r["stages"], "spans": r["spans"]})
            continue
        count, aggregated = 1, False
        if line.startswith("#AGG\t"):
            _, n, line = line.split("\t", 2)
            count, aggregated = int(n), True
        r = parse_result(line)
        if r is None or r["class"] == "badhex":
            problems.append({"kind": "bad-line", "stream": stream, "line": line[:300]})
            continue
        stats["flaky"] += "flaky=" in r["extra"]
        if aggregated or (sname.startswith("enum") and r["class"] in ("abort", "timeout")):
            # already counted in the #SUM line of this stream
            note_failures(stats, stream, r, count)
            continue
        stats["evaluations"] += 1
        stats["by_stream"][sname] += 1
        if not is_enum_text(unhx(r["hex"])):
            h = hash(r["hex"])
            stats["distinct"].add(h)
            if r["ntok"] >= 2:
                stats["nontrivial"].add(h)
        stats["classes"][r["class"]] += 1
        stats["valid"] += r["valid"]
        stats["span_checked_diags"] += r["ndiag"]
        stats["ntok_hist"][1 << max(r["ntok"], 0).bit_length()] += 1
        nb = 0 if r["hex"] == "-" else len(r["hex"]) // 2
        stats["max_bytes"] = max(stats["max_bytes"], nb)
        if r["class"] == "diagnostics" and len(stats["samples"]) < 2 and r["ntok"] >= 3 and stats["evaluations"] % 997 == 5:
            stats["samples"].append({"src": unhx(r["hex"])[:200], "class": r["class"], "stages": r["stages"], "spans": r["spans"]})
        note_failures(stats, stream, r, 1)
    return problems


def merge(a, b):
    for k in ("evaluations", "valid", "span_checked_diags", "flaky", "distinct_n", "nontrivial_n"):
        a[k] += b[k]
    for k in ("nosep_n", "nosep_nontrivial_n"):
        a[k] = a.get(k, 0) + b.get(k, 0)
    for k in ("distinct", "nontrivial"):
        a[k] |= b[k]
    for k in ("classes", "by_stream", "ntok_hist"):
        a[k].update(b[k])
    a["max_bytes"] = max(a["max_bytes"], b["max_bytes"])
    if b.get("cut_streams"):
        a["cut_streams"] = a.get("cut_streams", []) + b["cut_streams"]
    a["samples"] += b["samples"][:1]
    for bucket in ("c04", "c03"):
        for sig, e in b[bucket].items():
            o = a[bucket].get(sig)
            if o is None:
                a[bucket][sig] = dict(e)
            else:
                o["count"] += e["count"]
                if len(e["hex"]) < len(o["hex"]):
                    o.update({k: e[k] for k in ("hex", "display", "msg", "stream")})


def typedecl_texts(quick):
    """WELL-FORMED type-level declarations in every small combination: aliases (also cyclic: self, mutual, through tuple / array /
    function / record types), sum types with and without `rec` whose payloads mention them, at top level or inside a module, followed by
    a use (or none).  The token-sequence enumerations stop far below the ~12 tokens such a text needs (seeded C04d: a cyclic alias inside
    the payload of a non-`rec` sum type sent the recursion check of type declarations into unbounded recursion)."""
    bodies = ["float", "A", "B", "(float, A)", "(B, float)", "[A]", "[B]", "(A) -> float", "{x: B}", "(float, (A, B))"]
    if quick:
        bodies = bodies[:8]
    decls = []
    for n in ("A", "B"):
        for b in bodies:
            decls.append(f"type alias {n} = {b}")
    for n in ("T", "A"):
        for rec in ("", "rec "):
            for b in (["float", "A", "B", "(float, A)", "[B]", "T"] if quick else bodies + ["T"]):
                decls.append(f"type {rec}{n} = V({b}) | W")
    uses = ["", "fn dsp(x:A) -> float { 0.0 }", "fn dsp() -> float { 0.0 }", "fn f(t:T){ t }\nfn dsp(){ 0.0 }"]
    out = []
    for i, d1 in enumerate(decls):
        for j, d2 in enumerate(decls):
            if d1.split(" = ")[0].split()[-1] == d2.split(" = ")[0].split()[-1] and i != j and not quick:
                pass                 # the same name declared twice is a text like any other
            u = uses[(i * 7 + j) % len(uses)]
            out.append(f"{d1}\n{d2}\n{u}\n")
            if (i + j) % 5 == 0:
                out.append(f"mod m {{\n{d1}\n{d2}\n}}\n{u}\n")
    for d in decls:
        for u in uses:
            out.append(f"{d}\n{u}\n")
    return out


def main(ctx, args):
    ctx.assumptions += [
        "Model/ParserLoops.lean abstracts the grammar functions called inside a loop to arbitrary sequences of builder/parser primitives; "
        "the syntactic recognisers of tools/extract.py (gen_c04) + the reviewed list tools/parser_loops.json tie each Rust loop to its shape",
        "totality of lowering, type inference, MIR generation and both back ends is not proved: it is decided by the correspondence run "
        "(catch_unwind + wall clock + bounded stack in child processes) on the enumerated / mutated texts",
        f"stack bound: case threads run with {STACK_KIB} KiB (main-thread stack of the CLI / of the language server's analysis worker), "
        f"harness built with opt-level 1 (frames no smaller than in a release build); nesting bound {NEST_BOUND}",
        "a text is `valid` iff parse_to_expr and typecheck_with_module_info (the two calls of analysis.rs) return no diagnostic; panics of "
        "emit_bytecode/emit_wasm on valid texts are reported separately (C03) unless the panic payload is itself a type error",
    ]
    known = load_known("C04")
    px = run([sys.executable, os.path.join(VERIF, "tools", "extract.py")], cwd=VERIF)
    extract_broken = px.stderr.strip()[-1500:] if px.returncode != 0 else None
    jpath = os.path.join(LEAN, "Mimium", "Gen", "extracted.json")
    have_alpha = os.path.exists(jpath) and "C04_alphabet" in json.load(open(jpath))
    proved = prove(ctx, MODULES)
    if proved and ctx.tier == "thorough":
        proved = leancheck(ctx, MODULES)
    if extract_broken:
        proved = False
        ctx._broken = ["translator obligation (token alphabet / every loop of cst_parser.rs in a proven shape): " + extract_broken]
    if not build_harness(ctx):
        ctx.finish()
    if not have_alpha:
        ctx.violation("no token alphabet could be extracted from tokenizer.rs: " + (extract_broken or "?"),
                      {"stage": "extract", "obligation": "tools/extract.py gen_c04"}, found_input=False)
        ctx.finish()
    info = json.load(open(jpath))
    pa = mmh("C04", ["alphabet", jpath])
    if pa.returncode != 0:
        proved = False
        ctx._broken = getattr(ctx, "_broken", []) + ["enumeration alphabet does not lex to its kinds: " + pa.stdout[-500:]]

    stats = new_stats()
    problems = []
    quick = ctx.tier == "quick"
    span_stats = {"cases": 0, "errors": 0, "disagree": [], "bad": []}

    def spans_job(gen):
        p = run_sup(gen, mode="spans")
        q = driver("C04", ["spans"], input=p.stdout)
        res = {"cases": 0, "errors": 0, "disagree": [], "bad": [], "crash": None}
        if p.returncode != 0 or q.returncode != 0:
            res["crash"] = (p.stderr + q.stderr)[-800:]
            return res
        for a, b in zip(p.stdout.split("\n"), q.stdout.split("\n")):
            if not a:
                continue
            g = b.split("\t")
            res["cases"] += 1
            if len(g) < 3 or g[0].startswith("bad-input") or "\tPANIC " in a:
                res["disagree"].append({"line": a[:400], "driver": b})
                continue
            res["errors"] += int(g[2])
            if g[0] != "ok":
                res["disagree"].append({"src": unhx(a.split("\t")[0]), "impl": a.split("\t")[2][:300], "model": g[0]})
            if g[1] != "ok":
                res["bad"].append({"src": unhx(a.split("\t")[0]), "impl": a.split("\t")[2][:300], "judge": g[1]})
        return res

    occ_stats = {"cases": 0, "disagree": [], "pred": collections.Counter(), "after_bind_of_cyclic": collections.Counter()}

    def occurs_job(depth, shard, nshards):
        """P1 tie of Model/Occurs.lean: the real type checker is made to unify ?0 with every small type t; the model's
        `occ` (with the operator of the function-type arm as extracted from unification.rs) predicts whether the occurs check fires (a `Circular …` diagnostic) or the variable is bound"""
        q = driver("C04", ["occurs", str(depth)])
        rows = [l.split("\t") for l in q.stdout.split("\n") if l][shard::nshards]
        p = run_sup(["lines"], stdin_data="".join(r[0] + "\n" for r in rows))
        st = new_stats()
        pr = absorb(st, f"occurs{shard}", p.stdout)
        res = {"cases": 0, "disagree": [], "pred": collections.Counter(), "after": collections.Counter()}
        by = {}
        for l in p.stdout.split("\n"):
            r = parse_result(l) if l else None
            if r:
                by[r["hex"]] = r
        for hexp, quirk, fixed, occurs in rows:
            r = by.get(hexp)
            res["cases"] += 1
            res["pred"][f"{quirk}/{occurs}"] += 1
            if r is None:
                res["disagree"].append({"src": unhx(hexp), "model": quirk, "impl": "no result line"})
                continue
            circ = "circ=1" in r["extra"]
            if r["class"] in ("abort", "timeout"):
                impl = "bind"          # no diagnostic came out: the check did not fire before the crash
            else:
                impl = "circular" if circ else "bind"
            if impl != quirk:
                res["disagree"].append({"src": unhx(hexp), "model": quirk, "impl": impl, "class": r["class"], "stages": r["stages"]})
            if quirk == "bind" and occurs == "occurs":
                res["after"][r["class"]] += 1
        return ("occurs", res, st, pr)

    if args.replay:
        r = json.load(open(args.replay))
        text = r["src"] if "src" in r else unhx(r["src_hex"])
        problems += absorb(stats, "replay", run_sup(["lines"], stdin_data=hx(text) + "\n").stdout)
    else:
        # corpus + each open finding's own witness first
        cdir = os.path.join(VERIF, "corpus", "C04")
        data = ""
        if os.path.isdir(cdir):
            for fn in sorted(os.listdir(cdir)):
                for l in open(os.path.join(cdir, fn)):
                    l = l.rstrip("\n")
                    if l.strip() and not l.startswith("#"):
                        data += (hx(json.loads(l)) if l.startswith('"') else l.split("\t")[0]) + "\n"
        for k in known:
            data += hx(k["src"]) + "\n"
        problems += absorb(stats, "corpus", run_sup(["lines"], stdin_data=data).stdout)
        tds = typedecl_texts(quick)
        nsh = 8
        for part in parallel([tds[i::nsh] for i in range(nsh)], lambda ts: run_sup(["lines"], stdin_data="".join(hx(t) + "\n" for t in ts)).stdout):
            problems += absorb(stats, "typedecl", part)
        jobs = []
        sh = 16 if quick else 64
        full_len, core_len = (3, 5) if quick else (4, 6)
        ENUM["full"] = ({sp for _, sp in info["C04_alphabet"]}, full_len)
        ENUM["core"] = ({sp for _, sp in info["C04_core_alphabet"]}, core_len)
        for k in range(sh):
            jobs.append((f"enum-full{k}", ["enum", jpath, "full", full_len, "sep", k, sh]))
            jobs.append((f"enum-core{k}", ["enum", jpath, "core", core_len, "sep", k, sh]))
        jobs.append(("enum-full-nosep", ["enum", jpath, "full", 2, "nosep", 0, 1]))
        for k in range(4):
            jobs.append((f"enum-core-nosep{k}", ["enum", jpath, "core", 4 if quick else 5, "nosep", k, 4]))
        stride = 9 if quick else 1
        tsh = 8 if quick else 32
        for k in range(tsh):
            jobs.append((f"trunc{k}", ["trunc", k, tsh, stride]))
        nf, per = (16, 1200) if quick else (64, 20000)
        for i in range(nf):
            jobs.append((f"fuzz{i}", ["fuzz", ctx.seed * 1000 + i, per]))
        for k in range(7):
            jobs.append((f"nest{k}", ["nest", NEST_BOUND, k, 7], STACK_KIB, 120000))
            jobs.append((f"nest-smallstack{k}", ["nest", NEST_BOUND, k, 7], 2048, 120000))
        sjobs = [["enum", jpath, "full", 2, "sep", 0, 1], ["nest", 64]] + [["fuzz", ctx.seed * 1000 + 500 + i, 1500 if quick else 20000] for i in range(4)]

        def work(job):
            if job[0] == "spans":
                return ("spans", spans_job(job[1]))
            if job[0] == "occurs":
                return occurs_job(*job[1])
            st = new_stats()
            p = run_sup(job[1], stack=job[2], timeout_ms=job[3]) if len(job) > 2 else run_sup(job[1])
            pr = absorb(st, job[0], p.stdout)
            if p.returncode != 0:
                pr.append({"kind": "supervisor-crash", "stream": job[0], "stderr": p.stderr[-1500:]})
            return (st, pr)
        ojobs = [("occurs", (2, k, 4)) for k in range(4)]
        for res in parallel(jobs + [("spans", g) for g in sjobs] + ojobs, work):
            if res[0] == "occurs":
                _, r, st, pr = res
                occ_stats["cases"] += r["cases"]
                occ_stats["disagree"] += r["disagree"][:3]
                occ_stats["pred"].update(r["pred"])
                occ_stats["after_bind_of_cyclic"].update(r["after"])
                merge(stats, st)
                problems += pr
            elif res[0] == "spans":
                r = res[1]
                if r["crash"]:
                    problems.append({"kind": "spans-crash", "stderr": r["crash"]})
                span_stats["cases"] += r["cases"]
                span_stats["errors"] += r["errors"]
                span_stats["disagree"] += r["disagree"][:3]
                span_stats["bad"] += r["bad"][:3]
            else:
                merge(stats, res[0])
                problems += res[1]
        ctx.coverage["exhaustive_scope"] = (
            f"all sequences of <= {full_len} tokens over the {len(info['C04_alphabet'])} canonical spellings of the token alphabet extracted from "
            f"tokenizer.rs (every operator, punctuation, keyword + identifier, int, float, string, line break, both comments, error char), "
            f"joined by one space; all sequences of <= {core_len} tokens over the 14-kind core "
            f"{' '.join(s for _, s in info['C04_core_alphabet'])}; the same without separator for <= 2 resp. <= {4 if quick else 5} tokens")
        ctx.coverage["exhaustive"] = False

    # ---- decide ------------------------------------------------------------------------------------------------------
    for pr in problems:
        ctx.violation(f"{pr['kind']} in stream {pr.get('stream')}", pr, found_input=False)
    known_by_sig = {k["sig"]: k for k in known}
    hit = collections.Counter()
    new = []
    # panics of a compile entry point on a text the front end accepts WITHOUT any diagnostic (`valid`) were only reported in the
    # evidence until session 4 ("C03's business") although no check consumed them: they are judged like every other crash now —
    # listed signature = KNOWN-FINDING, anything else = VIOLATION (the signature carries the prefix `valid:`)
    merged = dict(stats["c04"])
    for sig, e in stats["c03"].items():
        merged["valid:" + sig] = e
    for sig, e in merged.items():
        if sig in known_by_sig:
            hit[sig] += e["count"]
        else:
            new.append((sig, e))
    emit = os.environ.get("C04_EMIT_FINDINGS")
    out_findings = []
    for sig, e in sorted(new, key=lambda x: len(x[1]["hex"])):
        text = unhx(e["hex"])
        small = shrink(text, sig) if len(text) > 1 else text
        rec = {"sig": sig, "site": e["display"], "message": e["msg"], "src": small, "src_hex": hx(small), "cases": e["count"],
               "first_seen_in_stream": e["stream"], "replay_cmd": "./check C04 --replay <this file>"}
        if emit:
            out_findings.append(rec)
        else:
            ctx.violation(f"{e['display']}: {e['msg'][:100]} on src={small!r} ({e['count']} failing cases)", rec)
    if emit:
        os.makedirs(os.path.join(VERIF, "work"), exist_ok=True)
        json.dump(out_findings, open(os.path.join(VERIF, "work", "c04_new_findings.json"), "w"), indent=1)
        log(f"wrote {len(out_findings)} new findings to work/c04_new_findings.json")
    for d in span_stats["bad"][:1]:
        ctx.violation(f"parser error span outside the text or off a character boundary: {d}", dict(d, clause="error span"))
    if span_stats["disagree"] and not span_stats["bad"]:
        ctx.violation(f"model errorSpan and parser_errors_to_reportable disagree: {span_stats['disagree'][0]}",
                      dict(span_stats["disagree"][0], correspondence="Model/ParserLoops.lean errorSpan vs parser/mod.rs"), found_input=False)
    if occ_stats["disagree"]:
        d = occ_stats["disagree"][0]
        ctx.violation(f"occurs check: model (Model/Occurs.lean, function-type arm as written) says {d['model']}, the real type checker {d['impl']} on {d['src']!r}",
                      dict(d, correspondence="Model/Occurs.lean occ vs typing/unification.rs occur_check", cases=len(occ_stats["disagree"])),
                      found_input=False)
    if not proved and not new:
        ctx.violation("proof obligation broken: " + "; ".join(ctx._broken), {"stage": "prove", "theorems": ctx._broken,
                      "lake": getattr(ctx, "_lake_errors", "")}, found_input=False)
    for k in known:
        n = hit.get(k["sig"], 0)
        if n or args.replay is None:
            ctx.known_finding(f"{k['id']} [{k['sig']}] {k['what']} (cases hit this run: {n})".replace("\n", "\\n"))
        if n == 0 and args.replay is None:
            ctx.notes.append(f"known finding {k['id']} did not reproduce on its own witness in this run")
    # core sequences no longer than the full-alphabet bound were enumerated twice
    nc, lmin = len(ENUM["core"][0]), min(ENUM["full"][1], ENUM["core"][1])
    overlap = sum(nc ** l for l in range(0, lmin + 1)) if stats["distinct_n"] else 0
    overlap_nontrivial = sum(nc ** l for l in range(2, lmin + 1)) if stats["distinct_n"] else 0
    ctx.coverage.update({
        "evaluations": stats["evaluations"],
        "distinct_nontrivial": len(stats["nontrivial"]) + stats["nontrivial_n"] - overlap_nontrivial + stats.get("nosep_nontrivial_n", 0),
        "rule": "exhaustive streams are distinct by construction (the core alphabet is a prefix code; the core/full overlap is subtracted; the "
                "separator-free full-alphabet stream is not counted); other streams are deduplicated by hash; one evaluation = one text run through tokenize, parse_to_expr, typecheck_with_module_info, Context::emit_bytecode and "
                "Context::emit_wasm in a child process; distinct = distinct text; non-trivial = at least two syntax tokens",
        "samples": stats["samples"][:4] or [{"note": "no sample recorded (replay mode or tiny run)"}],
        "traces_validated_against_impl": span_stats["cases"] + occ_stats["cases"],
        "model_impl_disagreements": len(span_stats["disagree"]) + len(occ_stats["disagree"]),
        "occurs_check_correspondence": {"programs": occ_stats["cases"], "model_prediction/does_?0_occur": dict(occ_stats["pred"]),
                                        "outcome_after_a_cyclic_binding_was_let_through": dict(occ_stats["after_bind_of_cyclic"])},
        "impl_property_failures": sum(e["count"] for e in stats["c04"].values()),
        "input_distribution": {
            "distinct_texts": len(stats["distinct"]) + stats["distinct_n"] - overlap + max(stats.get("nosep_n", 0) - nc - 1, 0),
            "by_stream": dict(stats["by_stream"]),
            "outcome_classes": dict(stats["classes"]),
            "texts_accepted_by_front_end": stats["valid"],
            "tokens_per_case_hist(bucket = next power of two)": {str(k): v for k, v in sorted(stats["ntok_hist"].items())},
            "max_text_bytes": stats["max_bytes"],
            "diagnostics_whose_spans_were_checked": stats["span_checked_diags"],
            "parser_error_spans_compared_with_model": span_stats["errors"],
            "streams_cut_after_3_hangs": stats.get("cut_streams", []),
            "aborts_or_timeouts_that_did_not_reproduce_in_a_fresh_child(verdict of the fresh child used)": stats["flaky"],
        },
        "failing_cases_by_known_finding": {known_by_sig[s]["id"]: n for s, n in hit.items()},
        "valid_program_panics_reported_to_C03": {s: {"cases": e["count"], "site": e["display"], "message": e["msg"][:100], "src": unhx(e["hex"])[:200]}
                                                 for s, e in sorted(stats["c03"].items())},
        "parser_loops": info.get("C04_loop_shapes"),
        "stack_kib": STACK_KIB, "nesting_bound": NEST_BOUND, "timeout_ms": TIMEOUT_MS,
    })
    ctx.finish("proof")
