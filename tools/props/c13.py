"""C13 — tokens and syntax tree are lossless over the source text."""
import os, sys, json, collections, re
from vlib import *

MODULES = ["Mimium.Props.C13"]
FIELDS = ["src_hex", "classes", "tokens", "token_indices", "leading", "trailing", "leaves", "flags", "tree", "errors", "relabels"]
NODE_RE = re.compile(r"\((\w+)")


def new_stats():
    return {"evaluations": 0, "distinct": set(), "nontrivial": set(), "disagreements": 0, "impl_property_failures": 0,
            "samples": [], "judge": collections.Counter(), "ntok_hist": collections.Counter(), "kinds": collections.Counter(),
            "trivia": 0, "dropped": 0, "max_bytes": 0, "tokseq_ok": 0, "node_kinds": collections.Counter(), "with_errors": 0,
            "error_classes": collections.Counter(), "relabelled": 0}


def merge(a, b):
    for k in ("evaluations", "disagreements", "impl_property_failures", "trivia", "dropped", "tokseq_ok", "with_errors", "relabelled"):
        a[k] += b[k]
    a["node_kinds"].update(b["node_kinds"])
    a["error_classes"].update(b["error_classes"])
    a["distinct"] |= b["distinct"]
    a["nontrivial"] |= b["nontrivial"]
    a["judge"].update(b["judge"])
    a["ntok_hist"].update(b["ntok_hist"])
    a["kinds"].update(b["kinds"])
    a["samples"] += b["samples"][:2]
    a["max_bytes"] = max(a["max_bytes"], b["max_bytes"])


def unhex(h):
    return "" if h == "-" else bytes.fromhex(h).decode("utf-8", "replace")


def compare_stream(name, mmh_args, stats, stdin_data=None, count_kinds=False, light=False):
    """run the real front end and the Lean model + judge on one stream of source texts; returns problem records"""
    p = mmh("C13", mmh_args, input=stdin_data)
    if p.returncode != 0:
        return [{"kind": "harness-crash", "stream": name, "stderr": p.stderr[-2000:]}]
    impl = p.stdout
    q = driver("C13", input=impl)
    if q.returncode != 0:
        return [{"kind": "driver-crash", "stream": name, "stderr": q.stderr[-2000:]}]
    problems = []
    il, ml = impl.split("\n"), q.stdout.split("\n")
    for a, b in zip(il, ml):
        if not a:
            continue
        if light and b.startswith("ok\tok\t"):
            # exhaustive token-sequence streams (distinct by construction): agreeing cases are only counted
            stats["evaluations"] += 1
            stats["tokseq_ok"] += 1
            continue
        f = a.split("\t")
        g = b.split("\t")
        stats["evaluations"] += 1
        if len(f) < 11 or len(g) < 6:
            problems.append({"kind": "bad-line", "stream": name, "impl": a[:300], "driver": b[:300]})
            continue
        agree, judge, ntok, ntriv, ndrop, detail = g[:6]
        is_k = f[0] == "K"
        h = hash("K" + f[2]) if is_k else hash(f[0])
        stats["distinct"].add(h)
        ntok = int(ntok)
        if ntok >= 3:      # at least two tokens besides Eof
            stats["nontrivial"].add(h)
        stats["judge"][judge.split("@")[0]] += 1
        stats["ntok_hist"][1 << max(ntok - 1, 0).bit_length()] += 1
        stats["trivia"] += int(ntriv)
        stats["dropped"] += int(ndrop)
        stats["max_bytes"] = max(stats["max_bytes"], len(f[0]) // 2)
        if count_kinds and f[2] not in ("-", "PANIC"):
            for t in f[2].split(","):
                stats["kinds"][t.split(":")[0]] += 1
            stats["node_kinds"].update(NODE_RE.findall(f[8]))
            if f[9] not in ("-", "PANIC"):
                stats["with_errors"] += 1
                for e in f[9].split(" ## "):
                    stats["error_classes"][e.split("|", 1)[-1].split(",")[0].split(":")[0][:40]] += 1
            if f[10] not in ("-", "PANIC"):
                stats["relabelled"] += 1
        if agree != "ok":
            stats["disagreements"] += 1
        if judge.startswith("bad"):
            stats["impl_property_failures"] += 1
        if agree == "ok" and not judge.startswith("bad"):
            if len(stats["samples"]) < 3 and ntok >= 4 and stats["evaluations"] % 4999 == 7:
                stats["samples"].append({"src": ("<kind sequence>" if is_k else unhex(f[0])[:200]), "impl_tokens": f[2][:300], "impl_token_indices": f[3][:100],
                                         "impl_trailing": f[5][:100], "impl_leaves": f[6][:100], "impl_tree": f[8][:300], "impl_errors": f[9][:200],
                                         "model": "identical", "judge": judge})
            if judge == "ok":
                continue
        rec = {"kind": "case", "stream": name, "agree": agree, "judge": judge, "model_value": detail[:2000]}
        rec.update({k: v for k, v in zip(FIELDS, f)})
        rec["src"] = "<kind sequence> " + f[2] if is_k else unhex(f[0])
        if len(f) > 11:
            rec["file"] = f[11]
        problems.append(rec)
    return problems


def main(ctx, args):
    ctx.assumptions += [
        "Model/Lexer.lean, Model/Preparse.lean are hand ports of tokenizer.rs / preparser.rs; Model/CstBuilder.lean models the builder "
        "primitives; Model/CstGrammar.lean is a literal port of every grammar function of cst_parser.rs; the tie is the correspondence run "
        "below (tree, error list and relabelled kinds compared exactly) plus the shape checks and the body-hash pins of tools/extract.py "
        "(gen_c13, gen_cst_grammar / tools/cst_grammar.json)",
        "source text is List Char with UTF-8 byte offsets (Char.utf8Size); Unicode XID classes are a parameter of the model, supplied per "
        "case by the harness from the same unicode-ident crate that chumsky uses",
        "chumsky combinator semantics (choice = first success, repeated, and_is/not, text::int/digits/ident/newline) as read from chumsky "
        "0.11.1; the newline class is re-extracted from the registry copy pinned by Cargo.lock",
        "HashMap<usize, Vec<usize>> trivia maps compared after sorting by key",
    ]
    known = load_known("C13")
    # translator: a source shape it no longer recognises breaks the obligation "model data/discipline = source"; we then
    # keep going with the last generated tables so that the judge below can still look for a concrete failing input
    px = run([sys.executable, os.path.join(VERIF, "tools", "extract.py")], cwd=VERIF)
    extract_broken = None
    if px.returncode != 0:
        extract_broken = px.stderr.strip()[-1500:]
        if not os.path.exists(os.path.join(LEAN, "Mimium", "Gen", "TokenTables.lean")):
            ctx.violation("translator could not re-extract the token tables and no previous tables exist: " + extract_broken,
                          {"stage": "extract", "obligation": "tools/extract.py gen_c13", "stderr": extract_broken}, found_input=False)
            ctx.finish()
    proved = prove(ctx, MODULES)
    if proved and ctx.tier == "thorough":
        proved = leancheck(ctx, MODULES)
    if extract_broken:
        proved = False
        ctx._broken = ["translator obligation (tables / parser-cursor discipline re-extracted from /repo): " + extract_broken]
    if not build_harness(ctx):
        ctx.finish()
    stats = new_stats()
    problems = []
    if args.replay:
        r = json.load(open(args.replay))
        if r.get("src_hex") == "K":
            data = "K\t" + r["tokens"] + "\n"
        else:
            data = (r.get("src_hex") or (r["src"].encode().hex() or "-")) + "\n"
        problems += compare_stream("replay", ["lines"], stats, stdin_data=data)
    else:
        cdir = os.path.join(VERIF, "corpus", "C13")
        data = ""
        if os.path.isdir(cdir):
            for fn in sorted(os.listdir(cdir)):
                data += "".join(l for l in open(os.path.join(cdir, fn)) if l.strip() and not l.startswith("#"))
        for k in known:          # each open finding's own witness is replayed once per run
            if "src_hex" in k:
                data += k["src_hex"] + "\n"
        problems += compare_stream("corpus", ["lines"], stats, stdin_data=data)
        problems += compare_stream("files", ["files"], stats, count_kinds=True)
        nfiles = stats["evaluations"]
        maxlen = 4 if ctx.tier == "quick" else 5
        shards = 16 if ctx.tier == "quick" else 128
        jobs = [(f"enum{k}", ["enum", str(maxlen), str(k), str(shards)], k == 0) for k in range(shards)]
        klen = 6 if ctx.tier == "quick" else 7
        jobs.append(("kinds", ["kinds", str(klen)], False))
        # C04's enumeration alphabet: the real parse_cst vs the ported grammar on every token sequence
        jpath = os.path.join(LEAN, "Mimium", "Gen", "extracted.json")
        info = json.load(open(jpath))
        if "C04_alphabet" in info:
            full_len, core_len = (3, 5) if ctx.tier == "quick" else (4, 6)
            fsh, csh = (12, 8) if ctx.tier == "quick" else (384, 96)
            for k in range(fsh):
                jobs.append((f"tokseq-full{k}", ["tokseq", jpath, "full", str(full_len), "sep", str(k), str(fsh)], False, True))
            for k in range(csh):
                jobs.append((f"tokseq-core{k}", ["tokseq", jpath, "core", str(core_len), "sep", str(k), str(csh)], False, True))
            jobs.append(("tokseq-full-nosep", ["tokseq", jpath, "full", "2", "nosep", "0", "1"], True, False))
            ctx.coverage["exhaustive_scope_token_sequences"] = (
                f"all sequences of <= {full_len} tokens over the {len(info['C04_alphabet'])} canonical spellings of C04's alphabet and of "
                f"<= {core_len} tokens over its 14-kind core, joined by one space; <= 2 without separator: green tree, error list and "
                "relabelled kinds of the real parse_cst compared exactly with Model/CstGrammar.lean")
        nrand = 16 if ctx.tier == "quick" else 64
        per = 20000 if ctx.tier == "quick" else 100000
        for i in range(nrand):
            jobs.append((f"rand{i}", ["rand", str(ctx.seed * 1000 + i), str(per), str(4 + 6 * (i % 8))], True))

        def work(job):
            st = new_stats()
            pr = compare_stream(job[0], job[1], st, count_kinds=job[2], light=(len(job) > 3 and job[3]))
            return st, pr
        for st, pr in parallel(jobs, work):
            merge(stats, st)
            problems += pr
        ctx.coverage["exhaustive_scope"] = (f"all strings of length <= {maxlen} over the 24-symbol alphabet "
                                            "a 0 1 . \" / * \\n \\r space _ | & = ! < > - : ; ( ) é U+3000")
        ctx.coverage["exhaustive_scope_kinds"] = (f"all token-kind sequences of length <= {klen} over Whitespace LineBreak SingleLineComment "
                                                  "Ident ParenEnd Error Eof fed directly to the public preparse/parse_cst")
        ctx.coverage["exhaustive"] = False
        ctx.coverage["shipped_sources"] = nfiles
    # ---- decide
    classes = {k["class"]: k for k in known if "class" in k}
    new_fail, disagree, known_hits = [], [], collections.Counter()
    for pr in problems:
        if pr["kind"] != "case":
            ctx.violation(f"{pr['kind']} in stream {pr.get('stream')}", pr, found_input=False)
            continue
        j = pr["judge"]
        if j.startswith("bad"):
            new_fail.append(pr)
        elif j in ("F7a", "F7b") and pr["agree"] == "ok":
            k = classes.get("DroppedLeading")
            if k:
                known_hits[k["id"]] += 1
            else:
                new_fail.append(pr)
        elif pr["agree"] != "ok":
            disagree.append(pr)
    sz = lambda pr: len(pr["tokens"]) if pr["src_hex"] == "K" else len(pr["src_hex"])
    if new_fail:
        best = min(new_fail, key=sz)
        ctx.violation(f"front end violates C13 ({best['judge']}) on src={best['src']!r}; {len(new_fail)} failing cases",
                      dict(best, replay_cmd="./check C13 --replay <this file>", failing_cases=len(new_fail)))
    elif disagree:
        best = min(disagree, key=sz)
        ctx.violation(f"model/implementation disagree on {len(disagree)} cases ({best['agree']}; smallest src={best['src']!r}) "
                      "but the implementation's output satisfies the property on every case",
                      dict(best, correspondence="Model/Lexer.lean + Model/Preparse.lean vs mimium-lang parser", cases=len(disagree)),
                      found_input=False)
    if not proved and not new_fail:
        ctx.violation("proof obligation broken: " + "; ".join(ctx._broken), {"stage": "prove", "theorems": ctx._broken,
                      "lake": getattr(ctx, "_lake_errors", "")}, found_input=False)
    for k in known:
        n = known_hits.get(k["id"], 0)
        if n or args.replay is None:
            ctx.known_finding(f"{k['id']} {k['what']} (cases hit this run: {n})")
    ctx.coverage.update({
        "evaluations": stats["evaluations"],
        "distinct_nontrivial": len(stats["nontrivial"]),
        "cst_comparison": "green tree (S-expression with node kinds and raw token indices), error list (token index + Display string) and "
                          "relabelled token kinds of the real parse_cst == ported grammar (Model/CstGrammar.lean) on every case of every stream",
        "rule": "source texts: exhaustive small scope + random fragment/Unicode soup and mutated windows of shipped sources + every "
                ".mmm file under /repo; distinct = distinct text; non-trivial = the implementation produced at least two tokens besides Eof",
        "samples": stats["samples"][:6] or [{"note": "no sample recorded (replay mode or tiny run)"}],
        "traces_validated_against_impl": stats["evaluations"],
        "model_impl_disagreements": stats["disagreements"],
        "impl_property_failures": stats["impl_property_failures"],
        "input_distribution": {
            "distinct_texts": len(stats["distinct"]),
            "judge": dict(stats["judge"]),
            "tokens_per_case_hist(bucket = next power of two)": {str(k): v for k, v in sorted(stats["ntok_hist"].items())},
            "trivia_tokens": stats["trivia"], "trivia_in_dropped_class": stats["dropped"],
            "max_source_bytes": stats["max_bytes"],
            "token_kinds_seen(sampled streams)": len(stats["kinds"]),
            "token_sequence_cases_agreeing(counted only)": stats["tokseq_ok"],
            "cst_node_kinds_seen(sampled streams)": dict(stats["node_kinds"].most_common()),
            "cst_node_kinds_never_seen": sorted(set(json.load(open(os.path.join(VERIF, "tools", "cst_grammar.json")))["syntax_kinds"]) - set(stats["node_kinds"])),
            "cases_with_parser_errors(sampled streams)": stats["with_errors"],
            "parser_error_classes(sampled streams)": dict(stats["error_classes"].most_common(30)),
            "cases_with_relabelled_tokens(sampled streams)": stats["relabelled"],
            "token_kinds_never_seen": sorted(set(json.load(open(os.path.join(LEAN, "Mimium", "Gen", "extracted.json"))).get("C13_kind_names", [])) - set(stats["kinds"])),
        },
    })
    ctx.finish("proof")
