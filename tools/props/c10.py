"""C10 — a binder of quoted code never captures / is never captured: renaming a binder inside a macro body does not
change the meaning of a program that uses the macro."""
import collections
from vlib import *
import progcheck as pc
import stagecheck as sc
sys.path.insert(0, os.path.join(VERIF, "tools", "gen"))
import coregen, stagegen

MODULES = ["Mimium.Props.C10"]
TIMES = 5


def select(ctx):
    """the whole small scope in both tiers (thorough runs more samples per program)"""
    alln = list(stagegen.c10_all())
    return alln, len(alln)


def main(ctx, args):
    ctx.assumptions += [
        "same model and harness as C09 (Model/Stage.lean, drv_c09, runprog)",
        "NoClash(pair) = the argument code mentions neither the old nor the new binder name, the template does not already use the new name, and the use site (locals, globals) binds neither",
        "a pair = the same program with one binder of the macro body (let / tuple pattern / lambda parameter) consistently renamed inside the macro definition only",
        "pairs outside NoClash are expected to differ (finding F6; S1 is repaired in /repo e02acb0): they are counted and the difference is reported as the known class, not as a violation",
        "macro pipe `x ||> f`: programs are rendered from nameless skeletons (stagegen.pipe_variants); a pair = (rendering with distinct fresh binder names and explicit macro lambdas, rendering with names from {a, b, __lambda_arg_0, __lambda_arg_1} and/or the `_` sugar) whose names resolve lexically to the same binders; both must also equal the skeleton's manual expansion; classes S5 (generated binder __lambda_arg_<i> captures a user splice) and S6 (substitute_macro_arg enters a non-piped macro lambda that binds the same name) are known findings",
    ]
    known = load_known("C10")
    if not extract(ctx):
        ctx.finish()
    proved = prove(ctx, MODULES, drivers=["drv_c09"])
    if not proved:
        lake_build(["drv_c09"])
    if proved and ctx.tier == "thorough":
        proved = leancheck(ctx, MODULES)
    if not build_harness(ctx, bins=["c09", "runprog"]):
        ctx.finish()
    stats = collections.Counter()
    global TIMES
    TIMES = 5 if ctx.tier == "quick" else 24
    if args.replay:
        r = json.load(open(args.replay))
        pairs = [dict(orig_src=r["orig_src"], ren_src=r["src"], orig_sx=r.get("orig_sx"), ren_sx=r.get("sx"), noclash=r.get("noclash", True),
                      why=r.get("why", []), template=r.get("template", "?"), dup_o=True, dup_r=True, binder=r.get("binder"), new=r.get("new"))]
        if r.get("manual_src"):
            pairs[0].update(pipe=True, man_src=r["manual_src"], dup_o=False, dup_r=False)
        scope = 1
    else:
        sel, scope = select(ctx)
        pairs = []
        for c in sel:
            mo, mr = stagegen.manual(c["orig"]), stagegen.manual(c["ren"])
            pairs.append(dict(c, orig_src=c["orig"].src(), ren_src=c["ren"].src(), orig_sx=c["orig"].sx(), ren_sx=c["ren"].sx(),
                              dup_o=False, dup_r=False))
        # the macro pipe: (canonical rendering, variant) pairs of every skeleton
        for v in stagegen.pipe_variants():
            names = ", ".join(f"{k}:{n}" for k, n in sorted(v["naming"].items())) + ("; `_` for " + ",".join(map(str, v["sugar"])) if v["sugar"] else "")
            pairs.append(dict(orig_src=v["canon"].src(), ren_src=v["sp"].src(), orig_sx=v["canon"].sx(), ren_sx=v["sp"].sx(), noclash=v["cls"] == "ok",
                              why=[] if v["cls"] == "ok" else ["macro pipe: " + v["cls"]], template="macro-pipe:" + v["shape"], binder="p<i>", new=names,
                              dup_o=False, dup_r=False, pipe=True, man_src=v["man"].src()))
        scope += sum(1 for p in pairs if p.get("pipe"))
    # distinct programs only (many pairs share the original)
    srcs, sxs = {}, {}
    for p in pairs:
        for k in ("orig", "ren"):
            srcs.setdefault(p[k + "_src"], "p%d" % len(srcs))
            if p.get(k + "_sx"):
                sxs[srcs[p[k + "_src"]]] = p[k + "_sx"]
    mans = {}
    for p in pairs:
        if p.get("man_src"):
            mans.setdefault(p["man_src"], "m%d" % len(mans))
    outs = sc.run_outputs([(i, s, TIMES, []) for s, i in srcs.items()] + [(i, s, TIMES, []) for s, i in mans.items()], backends="vm,wasm")
    model = sc.run_model([(i, sx, TIMES, []) for i, sx in sxs.items()])
    # macro pipe: the tree after the front end (convert_placeholder, convert_macro_pipe) of the real compiler vs the model's
    pipe_srcs = sorted({p["ren_src"] for p in pairs if p.get("pipe")} | {p["orig_src"] for p in pairs if p.get("pipe")})
    ftrees = sc.run_trees([(srcs[s], s, "front" if "`" in s else "plain") for s in pipe_srcs]) if pipe_srcs else {}
    viol, modelbad, samples, nontriv = [], [], [], set()
    viol_clash = []
    clash_diff, clash_same, by_why = 0, 0, collections.Counter()
    for p in pairs:
        io, ir = srcs[p["orig_src"]], srcs[p["ren_src"]]
        stats["evaluations"] += 1
        diff = []
        for bi, be in enumerate(("vm", "wasm")):
            a, b = outs[io][bi], outs[ir][bi]
            stats[f"{be}_" + a.split(" ")[0]] += 1
            if sc.norm_out(a) != sc.norm_out(b):
                diff.append(be)
        # the model must predict the implementation on every program that is not sensitive to the block-scope leak S1
        for i, dup in ((io, p["dup_o"]), (ir, p["dup_r"])):
            if i in model and not dup and outs[i][0].startswith("ok") and model[i][2] != sc.norm_out(outs[i][0]):
                modelbad.append((p, i, outs[i][0], model[i][2]))
        if p.get("pipe"):
            stats["macro_pipe_pairs"] += 1
            for i, s_ in ((io, p["orig_src"]), (ir, p["ren_src"])):
                tf = ftrees.get(i)
                if tf and tf[0] == "ok" and i in model:
                    want = ("(bracket " + model[i][0] + ")") if "`" in s_ else model[i][0]
                    stats["macro_pipe_front_trees_compared"] += 1
                    if sc.norm_none(tf[1]) != want:
                        modelbad.append((p, i, "front-end tree " + sc.norm_none(tf[1])[-200:], want[-200:]))
            if p["noclash"]:
                # … and both renderings must be the manual expansion
                im = mans[p["man_src"]]
                for bi, be in enumerate(("vm", "wasm")):
                    if sc.norm_out(outs[ir][bi]) != sc.norm_out(outs[im][bi]) and be not in diff:
                        diff.append(be + ":differs-from-manual-expansion")
        if p["noclash"]:
            stats["noclash_pairs"] += 1
            if diff:
                viol.append((p, diff, outs[io], outs[ir]))
            else:
                if io in model and ir in model and model[io][2] != model[ir][2]:
                    modelbad.append((p, io, "model(orig) != model(renamed)", model[io][2] + " / " + model[ir][2]))
                if outs[io][0].startswith("ok"):
                    nontriv.add(hash((p["orig_src"], p["ren_src"])))
                    if len(samples) < 3 and stats["evaluations"] % 301 == 11:
                        samples.append({"orig_src": p["orig_src"], "renamed_src": p["ren_src"], "vm": outs[io][0][:80]})
        else:
            stats["clash_pairs"] += 1
            if diff:
                clash_diff += 1
                for w in p["why"]:
                    by_why[w] += 1
                # the listed capture defect F6 is a property of the pinned expansion algorithm, which the model reproduces:
                # a clash pair that differs on the implementation although the MODEL gives both renderings the same output
                # is a capture the pinned algorithm does not have — a new violation, with this pair as the failing input
                if io in model and ir in model and model[io][2] == model[ir][2] and model[io][2].startswith("ok"):
                    viol_clash.append((p, diff, outs[io], outs[ir]))
            else:
                clash_same += 1
    # known findings: replay the listed pairs (S2 needs a compiler thread whose temporary counter is still 0: own process)
    for k in known:
        if "orig_src" not in k:
            continue
        be = k.get("backend", "vm")
        bi = 0 if be == "vm" else 1
        a = sc.run_outputs([("a", k["orig_src"], k.get("times", 4), [])], backends=be, nshards=1)["a"][bi]
        b = sc.run_outputs([("b", k["src"], k.get("times", 4), [])], backends=be, nshards=1)["b"][bi]
        if sc.norm_out(a) != sc.norm_out(b):
            extra = f"; class ¬NoClash: {clash_diff} of {clash_diff + clash_same} generated clash pairs differ ({dict(by_why)})" if k.get("class") == "¬NoClash" else ""
            ctx.known_finding(f"{k['id']} {k['what']} [still fails on {be}: {a[:40]} vs {b[:40]}{extra}]")
        else:
            ctx.notes.append(f"known finding {k['id']} no longer reproduces")
    if viol_clash and not viol:
        viol_clash.sort(key=lambda v: len(v[0]["orig_src"]) + len(v[0]["ren_src"]))
        p, diff, a, b = viol_clash[0]
        ctx.violation(f"renaming the binder `{p.get('binder')}` of the macro body to `{p.get('new')}` changes the program in a way the pinned expansion algorithm (Model/Stage.lean, which reproduces the listed capture F6) does not: the model gives both renderings the same output ({len(viol_clash)} clash pairs, on {', '.join(diff)}); outputs {b[0][:60]} vs {a[0][:60]}; smallest renamed program:\n{p['ren_src']}\n--- original\n{p['orig_src']}",
                      {"orig_src": p["orig_src"], "src": p["ren_src"], "orig_sx": p.get("orig_sx"), "sx": p.get("ren_sx"), "noclash": False, "differs_on": diff, "why_clash": p.get("why"),
                       "binder": p.get("binder"), "new": p.get("new"), "orig_outcome": [x[:300] for x in a], "renamed_outcome": [x[:300] for x in b], "failing_pairs": len(viol_clash), "times": TIMES})
    if viol:
        viol.sort(key=lambda v: len(v[0]["orig_src"]) + len(v[0]["ren_src"]))
        p, diff, a, b = viol[0]
        rep = {"orig_src": p["orig_src"], "src": p["ren_src"], "orig_sx": p.get("orig_sx"), "sx": p.get("ren_sx"), "noclash": True, "differs_on": diff,
               "template": p.get("template"), "arg": p.get("arg"), "after": p.get("after"), "bound": p.get("bound"), "globals": p.get("globals"),
               "binder": p.get("binder"), "new": p.get("new"), "orig_outcome": [x[:300] for x in a], "renamed_outcome": [x[:300] for x in b],
               "manual_src": p.get("man_src"), "failing_pairs": len(viol), "times": TIMES}
        if p.get("pipe"):
            ctx.violation(f"macro pipe ({p.get('template')}): writing the binders as [{p.get('new')}] instead of distinct fresh names changes the program although "
                          f"every splice still resolves to the same binder ({len(viol)} NoClash pairs differ, on {', '.join(diff)}); outputs {b[0][:60]} vs {a[0][:60]}; "
                          f"smallest such program:\n{p['ren_src']}\n--- the same with distinct binder names\n{p['orig_src']}\n--- manual expansion\n{p.get('man_src')}", rep)
        else:
            ctx.violation(f"renaming the binder `{p.get('binder')}` of the macro body to `{p.get('new')}` changes the program although nothing clashes "
                          f"({len(viol)} NoClash pairs differ); smallest renamed program:\n{p['ren_src']}\n--- original\n{p['orig_src']}", rep)
    elif modelbad and not viol_clash:
        p, i, impl, mdl = modelbad[0]
        rep = {"orig_src": p["orig_src"], "src": p["ren_src"], "orig_sx": p.get("orig_sx"), "sx": p.get("ren_sx"), "noclash": p["noclash"],
               "impl": impl[:400], "model": mdl[:400], "cases": len(modelbad), "correspondence": "Model/Stage.lean vs the real staging pipeline"}
        ctx.violation(f"the model does not predict the implementation on {len(modelbad)} programs of the hygiene scope (first: {impl[:60]} vs {mdl[:60]})",
                      rep, found_input=False)
    if not proved and not viol:
        ctx.violation("proof obligation broken: " + "; ".join(ctx._broken), {"stage": "prove", "theorems": ctx._broken,
                      "lake": getattr(ctx, "_lake_errors", "")}, found_input=False)
    ctx.coverage.update({
        "evaluations": stats["evaluations"],
        "distinct_nontrivial": len(nontriv),
        "rule": "small-scope enumeration: 11 macro templates binding a local around / next to / from a splice (let, let-then-let, tuple pattern, lambda parameter, mem, assignment, if arm, inner block, rebinding) "
                "x 7 argument codes over the pool {y,z,w} x use sites binding every subset of the pool as locals or a global x 4 continuations mentioning pool names "
                "x every renaming of the binder within the pool or to a fresh name; each pair (original, renamed) runs %d samples on VM and WASM and on the model. "
                "NoClash pairs must agree; non-trivial = NoClash pair accepted by the compiler; distinct = distinct pair of sources. "
                "Macro pipe: 21 nameless skeletons (single, nested on the body side at equal / different argument positions, inner body using the outer binder, "
                "nested on the argument side, chained, triple, siblings, stateful argument, let in the body, non-piped macro lambdas inside / around pipes) "
                "x every lexically valid naming of the binders over {a, b, __lambda_arg_0, __lambda_arg_1} x every subset of pipes written with the `_` sugar; "
                "each rendering is paired with the canonical one (distinct names, explicit lambdas), compared with the manual expansion, and its front-end tree "
                "with the model's convert_placeholder/convert_macro_pipe" % TIMES,
        "exhaustive": not args.replay,
        "exhaustive_scope": f"{scope} pairs in scope, {len(pairs)} run",
        "samples": samples or [{"note": "replay mode"}],
        "traces_validated_against_impl": len(sxs),
        "noclash_pairs": stats["noclash_pairs"],
        "noclash_pairs_that_differ": len(viol),
        "clash_pairs": stats["clash_pairs"],
        "clash_pairs_that_differ(known class)": clash_diff,
        "clash_pairs_by_reason": dict(by_why),
        "model_mispredictions": len(modelbad),
        "macro_pipe_pairs": stats["macro_pipe_pairs"],
        "macro_pipe_front_trees_compared": stats["macro_pipe_front_trees_compared"],
        "outcome_classes": {k: v for k, v in stats.items() if k.startswith(("vm_", "wasm_"))},
    })
    ctx.finish("proof")
