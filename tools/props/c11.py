"""C11 — scheduled tasks run exactly once at exactly their sample time (VM and WASM agree)."""
import os, json, collections
from vlib import *

MODULES = ["Mimium.Props.C11"]


def new_stats():
    return {"evaluations": 0, "nontrivial": set(), "disagreements": 0, "impl_property_failures": 0, "samples": [],
            "handle_cases": 0, "handle_panic_cases": 0, "handle_order_exact": 0, "old_discipline_deviates": 0, "old_discipline_not_evaluated": 0,
            "old_discipline_samples": [], "prog_cases": 0, "prog_upv_cases": 0, "prog_upv_old_deviates": 0,
            "prog_closure_style": 0, "prog_deep_capture": 0, "prog_closure_style_multi": 0, "prog_boundary_cases": 0,
            "prog_boundary_same_kind": 0, "prog_boundary_vm_late_by_one": 0, "prog_compile_errors": 0,
            "execs_hist": collections.Counter(), "maxpertick_hist": collections.Counter(), "ops_hist": collections.Counter(),
            "boundary_samples": []}


def bucket(n):
    for b in (0, 1, 2, 4, 8, 16, 32, 64, 128, 256, 512, 1024, 2048, 4096):
        if n <= b:
            return f"<={b}"
    return ">4096"


def compare_stream(ctx, name, mmh_args, stats, stdin_data=None):
    """run the real code and the model on one stream of cases; returns problem records"""
    p = mmh("C11", mmh_args, input=stdin_data, timeout=3000)
    if p.returncode != 0:
        return [{"kind": "harness-crash", "stream": name, "stderr": p.stderr[-2000:]}]
    impl = p.stdout
    q = driver("C11", input=impl)
    if q.returncode != 0:
        return [{"kind": "driver-crash", "stream": name, "stderr": q.stderr[-2000:]}]
    problems = []
    for a, b in zip(impl.split("\n"), q.stdout.split("\n")):
        if not a:
            continue
        f, g = a.split("\t"), b.split("\t")
        stats["evaluations"] += 1
        if f[0] == "H":
            ops, iobs = f[1], f[2]
            if len(g) < 3:
                problems.append({"kind": "driver-bad-line", "line": a, "driver": b})
                continue
            mobs, verdict = g[1], g[2]
            exact = g[3] if len(g) > 3 else "nojudge"
            stats["handle_cases"] += 1
            stats["handle_order_exact"] += (exact == "exact")
            nops = ops.count(" ") + 1
            stats["ops_hist"][bucket(nops)] += 1
            panics = "P" in iobs.split(" ")
            stats["handle_panic_cases"] += panics
            # non-trivial: at least one drain returned a task (or the history ends in the rejection of a request)
            nontrivial = any(t not in (".", "[]", "P") for t in iobs.split(" ")) or panics
            if nontrivial:
                stats["nontrivial"].add(hash(("H", ops)))
            if verdict == "ok" and exact == "exact":
                if len(stats["samples"]) < 2 and nontrivial and nops >= 6:
                    stats["samples"].append({"level": "handle", "ops": ops, "impl": iobs, "model": mobs})
                continue
            stats["disagreements"] += 1
            problems.append({"kind": "case", "level": "handle" if verdict != "ok" else "handle-order", "stream": name, "ops": ops,
                             "impl": iobs, "model": mobs, "judge": verdict if verdict != "ok" else "pop order differs from the BinaryHeap port",
                             "size": nops})
        elif f[0] == "P":
            table = "\t".join(f[:6])
            vm, wasm = f[6], f[7]
            if len(g) < 4:
                problems.append({"kind": "driver-bad-line", "line": a, "driver": b})
                continue
            mvm, mwasm, info = g[1], g[2], g[3]
            # g[4]: what the OLD memory discipline of the WASM back end (closure records freed with the body that made
            # them, finding F17, repaired) would have produced — Model/SchedMem.lean. No longer a prediction of the
            # implementation: it only tells how many generated programs are sensitive to the lifetime of the records.
            mmem = g[4] if len(g) > 4 else mwasm
            # the two queue models with the literal BinaryHeap port inside (Vm.runH / W.runH stdHeap: what the
            # `..._on_binary_heap` theorems are about) must predict what the oracle-heap models predict
            if len(g) > 6 and (g[5] != mvm or g[6] != mwasm):
                problems.append({"kind": "case", "level": "model-sanity", "stream": name, "table": table, "vm": f[6], "wasm": f[7],
                                 "model_vm": mvm, "model_wasm_queue": mwasm, "model_vm_binary_heap": g[5],
                                 "model_wasm_binary_heap": g[6], "size": len(table)})
                continue
            stats["prog_cases"] += 1
            # tables with `selK(t, v)` requests: closures with one upvalue, records of two cells on WASM
            has_upv = ":u" in table
            stats["prog_upv_cases"] += has_upv
            stats["prog_deep_capture"] += f[2].endswith("d")
            if f[2].endswith("c"):
                stats["prog_closure_style"] += 1
                stats["prog_closure_style_multi"] += int(f[2][:-1]) > 1
            inf = dict(kv.split("=") for kv in info.split(";"))
            stats["execs_hist"][bucket(int(inf["execs"]))] += 1
            stats["maxpertick_hist"][bucket(int(inf["maxpertick"]))] += 1
            boundary = mvm.endswith("PANIC") or mwasm.endswith("PANIC")
            if vm.startswith("ERR") or wasm.startswith("ERR"):
                stats["prog_compile_errors"] += 1
            size = len(table)
            if int(inf["execs"]) > 0 or boundary:
                stats["nontrivial"].add(hash(table))
            # model == implementation: VM against the VM model; WASM against the WASM queue model (= W.runH stdHeap, checked above)
            vm_ok = (vm == mvm)
            wasm_ok = (wasm == mwasm)
            rec = {"kind": "case", "stream": name, "table": table, "vm": vm, "wasm": wasm, "model_vm": mvm,
                   "model_wasm_queue": mwasm, "old_freed_record_discipline_would_give": mmem, "size": size}
            if boundary:
                # premise of C11 not met on this program (`trunc when <= now` is reached): reported separately, never a C11
                # violation by itself; the models still have to predict each runtime exactly
                stats["prog_boundary_cases"] += 1
                both = vm.endswith("PANIC") and wasm.endswith("PANIC")
                stats["prog_boundary_same_kind"] += both
                nv, nw = vm.count(","), wasm.count(",")
                if both and nv == nw + 1:
                    stats["prog_boundary_vm_late_by_one"] += 1
                if len(stats["boundary_samples"]) < 2:
                    stats["boundary_samples"].append({"table": table, "vm_samples_before_panic": nv,
                                                      "wasm_samples_before_panic": nw})
                if not (vm_ok and wasm_ok):
                    stats["disagreements"] += 1
                    problems.append(dict(rec, level="prog-boundary"))
                continue
            # premise met: the property = both runtimes equal the proved ideal behaviour (order-blind, same for both models)
            ideal = mvm
            if mvm != mwasm:
                problems.append(dict(rec, level="model-sanity"))
                continue
            if mmem == "-":
                stats["old_discipline_not_evaluated"] += 1
            elif mmem != ideal:
                stats["old_discipline_deviates"] += 1
                stats["prog_upv_old_deviates"] += has_upv
                if len(stats["old_discipline_samples"]) < 1:
                    stats["old_discipline_samples"].append({"table": table})
            if vm == ideal and wasm == ideal:
                if len(stats["samples"]) < 5 and int(inf["execs"]) > 20 and stats["evaluations"] % 7 == 3:
                    stats["samples"].append({"level": "program", "table": table, "info": info,
                                             "last_output_bits": vm.split(",")[-1]})
                continue
            stats["impl_property_failures"] += 1
            stats["disagreements"] += (not (vm_ok and wasm_ok))
            problems.append(dict(rec, level="prog", vm_eq_wasm=(vm == wasm)))
    return problems


def burst_programs(seed, quick):
    """MANY schedule calls between two drains of the scheduler (seeded C11d bounded the VM's hand-over queue at 256 and dropped the
    rest): a recursive function schedules N counter tasks at once — from dsp at one sample, from global scope, or from a running task —
    all for one sample or spread over three.  Expected output (ideal semantics, computed here): the number of tasks due so far."""
    import struct
    out = []
    ns = [1, 7, 255, 256, 257, 300, 513, 1000] if quick else [1, 2, 7, 64, 255, 256, 257, 258, 300, 511, 512, 513, 1000, 2000, 4000]
    k = 0
    for n in ns:
        for origin in ("dsp", "global", "task"):
            for spread in (1, 3):
                t0 = 2 + (k % 3)
                due = lambda i, base: base + 1 + (i % spread)          # i = 1..n (the value of the recursion counter)
                head = ("let c = 0.0\nfn tick(){\n  c = c + 1.0\n}\n"
                        f"fn burst(n){{\n  if (n > 0.5) {{\n    tick@(now + 1.0 + (n % {spread}.0))\n    burst(n - 1.0)\n  }} else {{\n    0.0\n  }}\n}}\n")
                if origin == "dsp":
                    src = head + f"fn dsp(){{\n  let z = if (now == {t0}.0) {{ burst({n}.0) }} else {{ 0.0 }}\n  c + z\n}}\n"
                    base = t0
                elif origin == "global":
                    src = head + f"let z0 = burst({n}.0)\nfn dsp(){{\n  c\n}}\n"
                    base = 0
                else:
                    src = head + f"fn starter(){{\n  let z = burst({n}.0)\n}}\nlet z1 = starter@{t0}.0\nfn dsp(){{\n  c\n}}\n"
                    base = t0
                ticks = base + 8
                dues = [due(i, base) for i in range(1, n + 1)]
                exp = [float(sum(1 for d in dues if d <= t)) for t in range(ticks)]
                out.append({"id": f"burst:{n}:{origin}:{spread}", "src": src, "ticks": ticks,
                            "expected": ",".join("%016x" % struct.unpack("<Q", struct.pack("<d", x))[0] for x in exp)})
                k += 1
    return out


def run_burst(ctx, stats):
    progs = burst_programs(ctx.seed, ctx.tier == "quick")

    def work(pr):
        p = mmh("C11", ["src", str(pr["ticks"])], input=pr["src"], timeout=600)
        got = dict(l.split("\t", 1) for l in p.stdout.splitlines() if "\t" in l)
        return pr, got.get("vm", "harness-died rc=%s %s" % (p.returncode, p.stderr[-200:])), got.get("wasm", "harness-died")
    bad = []
    for pr, vm, wasm in parallel(progs, work):
        stats["burst_programs"] = stats.get("burst_programs", 0) + 1
        if vm != pr["expected"] or wasm != pr["expected"]:
            bad.append(dict(pr, vm=vm[:400], wasm=wasm[:400]))
    return bad


def main(ctx, args):
    ctx.assumptions += [
        "model Model/Sched.lean is a hand port of mimium-scheduler/src/{scheduler,wasm_handle}.rs and of the on_sample-then-dsp order of VmDspRuntime/WasmDspRuntime::run_dsp; the tie is the correspondence run below",
        "std::collections::BinaryHeap: its push/pop (sift_up, sift_down_to_bottom) are ported literally (Model/SchedMem.lean stdPush/stdPop) and the port is PROVED to be a priority queue ordered by Task::cmp (`when` only): C11_heap_* theorems, and the scheduler theorems are restated with the port inside (..._on_binary_heap); that the port is what std does is tied by the exact pop order of every handle-level history; std::sync::mpsc is taken to be FIFO",
        "`f64 as u64` is modelled by Lean's Float.toUInt64 (compared against the real code on fractional, negative, NaN, infinite and huge times)",
        "reading of the premise: a task is later than the current sample iff trunc(when) > now at the call; requests with trunc(when) <= now are rejected by a panic on both runtimes (VM one sample later than WASM) and are reported separately",
        "program-level effects are counter increments (commute), so outputs do not depend on the order among equal times",
    ]
    known = load_known("C11")
    if not extract(ctx):
        ctx.finish()
    proved = prove(ctx, MODULES)
    if proved and ctx.tier == "thorough":
        proved = leancheck(ctx, MODULES)
    if not build_harness(ctx):
        ctx.finish()
    stats = new_stats()
    problems = []
    if args.replay:
        r = json.load(open(args.replay))
        if "ops" in r:
            problems += compare_stream(ctx, "replay", ["handle-lines"], stats, stdin_data=f"H\t{r['ops']}\n")
        elif "table" in r:
            problems += compare_stream(ctx, "replay", ["prog-lines"], stats, stdin_data=r["table"] + "\n")
    else:
        cdir = os.path.join(VERIF, "corpus", "C11")
        hdata, pdata = "", ""
        if os.path.isdir(cdir):
            for fn in sorted(os.listdir(cdir)):
                for l in open(os.path.join(cdir, fn)):
                    if l.startswith("H\t"):
                        hdata += l
                    elif l.startswith("P\t"):
                        pdata += l
        if hdata:
            problems += compare_stream(ctx, "corpus-handle", ["handle-lines"], stats, stdin_data=hdata)
        if pdata:
            problems += compare_stream(ctx, "corpus-prog", ["prog-lines"], stats, stdin_data=pdata)
        quick = ctx.tier == "quick"
        jobs = []
        nh = 16 if quick else 64
        for i in range(nh):
            jobs.append((f"handle{i}", ["handle", str(ctx.seed * 1000 + i), str(10000 if quick else 40000), str(8 + 12 * (i % 8))]))
        npj = 64 if quick else 256
        for i in range(npj):
            ticks = (64, 64, 128, 256)[i % 4] if quick else (64, 128, 256, 512)[i % 4]
            jobs.append((f"prog{i}", ["prog", str(ctx.seed * 1000 + 500 + i), str(40 if quick else 200), str(ticks)]))

        def work(job):
            st = new_stats()
            pr = compare_stream(ctx, job[0], job[1], st)
            return st, pr
        for st, pr in parallel(jobs, work):
            for k, v in st.items():
                if isinstance(v, int):
                    stats[k] += v
                elif isinstance(v, collections.Counter):
                    stats[k].update(v)
            stats["nontrivial"] |= st["nontrivial"]
            stats["samples"] += st["samples"][:1]
            stats["boundary_samples"] += st["boundary_samples"][:1]
            stats["old_discipline_samples"] += st["old_discipline_samples"][:1]
            problems += pr
    burst_bad = []
    if not args.replay or "burst" in json.load(open(args.replay)).get("id", ""):
        if args.replay:
            r = json.load(open(args.replay))
            p = mmh("C11", ["src", str(r["ticks"])], input=r["src"], timeout=600)
            got = dict(l.split("\t", 1) for l in p.stdout.splitlines() if "\t" in l)
            if got.get("vm") != r["expected"] or got.get("wasm") != r["expected"]:
                burst_bad = [dict(r, vm=got.get("vm", "")[:400], wasm=got.get("wasm", "")[:400])]
        else:
            burst_bad = run_burst(ctx, stats)
    if burst_bad:
        b = min(burst_bad, key=lambda x: len(x["src"]) + int(x["id"].split(":")[1]))
        side = "the VM" if b["vm"] != b["expected"] and b["wasm"] == b["expected"] else ("WASM" if b["vm"] == b["expected"] else "both runtimes")
        ctx.violation(f"scheduled tasks do not run exactly once at their sample time: after a burst of schedule calls ({b['id']}) {side} "
                      f"executed another number of tasks than were scheduled ({len(burst_bad)} failing burst programs); program:\n{b['src']}",
                      dict(b, replay_cmd="./check C11 --replay <this file>", failing_cases=len(burst_bad)))
    # ---- decide
    known_keys = {("ops", k["ops"]): k for k in known if "ops" in k}
    known_keys.update({("table", k["table"]): k for k in known if "table" in k and "class" not in k})
    known_hits = collections.Counter()
    fails, disagree = [], []
    for pr in problems:
        if pr["kind"] != "case":
            ctx.violation(f"{pr['kind']} in stream {pr.get('stream')}", pr, found_input=False)
            continue
        key = ("ops", pr["ops"]) if "ops" in pr else ("table", pr.get("table"))
        if key in known_keys:
            known_hits[known_keys[key]["id"]] += 1
            if pr.get("level") == "prog":
                stats["disagreements"] -= 1   # excused input: no model of this defect exists, counted under known findings
            continue
        if pr["level"] == "prog":
            fails.append(pr)
        else:
            disagree.append(pr)
    if fails:
        best = min(fails, key=lambda p: p["size"])
        what = ("VM and WASM outputs differ" if not best["vm_eq_wasm"] else "both runtimes differ from the proved model")
        ctx.violation(f"scheduled tasks do not run exactly once at their sample time: {what} on a generated program "
                      f"({len(fails)} failing programs); smallest table: {best['table']}",
                      dict(best, replay_cmd="./check C11 --replay <this file>", failing_cases=len(fails)))
    if disagree:
        best = min(disagree, key=lambda p: p["size"])
        if "ops" in best:
            ctx.violation(f"WasmSchedulerHandle disagrees with the model ({best['judge']}) on {len(disagree)} histories; smallest: {best['ops']}",
                          dict(best, replay_cmd="./check C11 --replay <this file>", cases=len(disagree)),
                          found_input=(best["level"] == "handle"))
        else:
            ctx.violation(f"runtime behaviour differs from the model without a C11 failure ({best['level']}) on {len(disagree)} programs",
                          dict(best, replay_cmd="./check C11 --replay <this file>", cases=len(disagree)), found_input=False)
    if not proved and not fails:
        ctx.violation("proof obligation broken: " + "; ".join(ctx._broken), {"stage": "prove", "theorems": ctx._broken,
                      "lake": getattr(ctx, "_lake_errors", "")}, found_input=False)
    for k in known:
        n = known_hits.get(k["id"], 0)
        if n or args.replay is None:
            ctx.known_finding(f"{k['id']} {k['what']} (cases hit this run: {n})")
    ctx.coverage.update({
        "evaluations": stats["evaluations"],
        "distinct_nontrivial": len(stats["nontrivial"]),
        "rule": "handle level: random op histories (schedule f64 time/closure id, tick) against the real WasmSchedulerHandle, judged by the Lean model (same panics, same multiset per drain, pop order non-decreasing in time); program level: random task tables (1-4 counter tasks; requests from global scope, task bodies, dsp; absolute/relative, fractional, equal, far-future times; guarded chains; 1 table in 3 also schedules closures capturing a float, `selK(t, v)`: records of two cells on WASM; half of those through a `let`-bound closure or a tuple argument; 1 in 12 tables is 1-3 `letrec` counters made by one `mk`) compiled from mimium source and run on VM and WASM for N samples, per-sample outputs vs both models; non-trivial = at least one task was executed (or a request was rejected); distinct = distinct history / table text",
        "samples": stats["samples"][:6] or [{"note": "no sample in replay mode"}],
        "traces_validated_against_impl": stats["evaluations"],
        "model_impl_disagreements": stats["disagreements"],
        "impl_property_failures": stats["impl_property_failures"],
        "input_distribution": {
            "handle_histories": stats["handle_cases"], "handle_histories_ending_in_rejection": stats["handle_panic_cases"],
            "handle_ops_hist": dict(stats["ops_hist"]),
            "programs": stats["prog_cases"], "programs_not_compiling": stats["prog_compile_errors"],
            "program_executions_hist": dict(stats["execs_hist"]), "program_max_tasks_in_one_sample_hist": dict(stats["maxpertick_hist"]),
        },
        "std_binaryheap_port_pop_order_exact": stats["handle_order_exact"],
        "closures_with_upvalue_records_of_two_cells": {"programs": stats["prog_upv_cases"],
                                                        "of_which_sensitive_to_record_lifetime": stats["prog_upv_old_deviates"],
                                                        "of_which_rendered_with_deeper_captures_let_bound_closure_or_tuple_argument": stats["prog_deep_capture"]},
        "closure_style_programs": {"programs": stats["prog_closure_style"], "with_2_or_3_instances_of_one_maker": stats["prog_closure_style_multi"]},
        "repaired_finding_F17": {"programs_sensitive_to_record_lifetime": stats["old_discipline_deviates"],
                                 "programs_where_the_old_model_was_too_costly_to_evaluate": stats["old_discipline_not_evaluated"],
                                 "meaning": "the memory model of the old discipline (records freed with the body that made them, Model/SchedMem.lean) deviates from ideal on these programs; WASM must be ideal on them now",
                                 "sample": stats["old_discipline_samples"][:1]},
        "boundary_cases_reported_separately": {
            "programs_with_a_request_trunc_when_le_now": stats["prog_boundary_cases"],
            "both_runtimes_reject_by_panic": stats["prog_boundary_same_kind"],
            "vm_panics_one_sample_later_than_wasm": stats["prog_boundary_vm_late_by_one"],
            "samples": stats["boundary_samples"][:2],
        },
    })
    ctx.finish("proof")
