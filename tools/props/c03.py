"""C03 — programs accepted by the type checker run without crashes or memory errors.

Correspondence, two oracles per case (generated well-typed programs and near-miss mutants of them):
  * the REAL compiler + both back ends with hooks on (`runprog`): verdict accept / reject (diagnostic), and for accepted
    programs whether they run safely with one output width;
  * the LEAN type checker `checkProg` (proved sound: `C03_check_sound`, `C03_check_run_output_width`) on annotations guessed
    by the unverified unification pre-pass (`drv_c03`, "infer" verdict) and on the generator's own annotations ("annotated"
    verdict): accept with the output width / reject.
The two verdicts are compared in both directions; every disagreement must fall into a named class (below) or is a violation.

Shipped-sources stream (`shipped_stream`): EVERY `.mmm` shipped with the repository (lib/, examples/, mimium-test/tests/mmm) and the
minimised past failures in corpus/C03/ are compiled whole, under their OWN path, and run for a few samples on both back ends (hooks
on): each must be answered by `ok`, by diagnostics, or be a library file without `dsp` — a panic, abort, hang, run-time error or
acceptance by one back end only is a violation unless the (file, signature) pair is a listed finding."""
import collections, re
from vlib import *
import progcheck as pc
sys.path.insert(0, os.path.join(VERIF, "tools", "gen"))
import coregen
import c03u

MODULES = ["Mimium.Props.C03"]

# mutation kinds all of whose instances the pinned real checker rejects: an accepted instance is a regression of the checker
ALWAYS_REJECTED = {"apply_lit", "mem_tuple", "pat_arity", "proj_far", "proj_scalar", "unbound"}
# the other kinds: the real checker accepts some instances the core type system rejects, for a documented reason:
OUTSIDE_MODEL = {
    "operand_tuple": "element-wise tuple arithmetic with broadcasting is a feature of the surface language (typing.rs: infer_tuple_arithmetic_binop_type); the core model's operators take numbers",
    "lit_tuple": "tuple arithmetic / auto-spread of numeric functions over tuples / a sole tuple argument read as an argument pack",
    "operand_lambda": "LENIENT: the real checker does not check the operand types of a binary operator against `float` (`1.0 + |q| {q}` is accepted and adds a closure handle)",
    "apply_var": "LENIENT: same (a parameter used both as a number and as a function, `a1 + a1(1.0)`, is accepted), or the parameter's function type is simply inferred",
    "delay_tuple": "LENIENT: the operand of `delay` is not checked against `float`",
    "arg_tuple": "a sole tuple argument is an argument pack (`f((a, b))` = `f(a, b)`); LENIENT: a tuple unifies with a scalar parameter (root of K4/K9)",
    "arg_drop": "default parameter values (`f()` for `fn f(a = 1.0)`); LENIENT: missing argument read as unit / partial application (K8)",
    "arg_add": "LENIENT: arity is not checked (K10)",
    "arm_tuple": "LENIENT: `if` arms of different shapes unify (K9)",
    "tup_drop": "LENIENT: a tuple unifies with a scalar component (K4/K9 root): `(a, b)` is accepted for `((float, float), float)`",
    "tup_add": "LENIENT: same",
}


def judge(vm, wasm, nout_decl, times):
    """None when both backends either reject with diagnostics or run safely with the declared output width"""
    cv, cw = vm.split(" ")[0], wasm.split(" ")[0]
    for name, o, c in (("vm", vm, cv), ("wasm", wasm, cw)):
        if c in ("panic", "runtime-error", "harness-died"):
            return f"{name}-{c}: " + o[:160]
    if cv != cw:
        return f"accepted-by-one-backend-only(vm={cv},wasm={cw}): " + (vm if cv != "ok" else wasm)[:160]
    if cv == "ok":
        for name, o in (("vm", vm), ("wasm", wasm)):
            f = o.split(" ")
            nout = int(f[2])
            words = f[3].split(",") if len(f) > 3 and f[3] else []
            if len(words) != nout * times:
                return f"{name}-output-length: {len(words)} words for {times} samples of {nout} channels"
            if nout_decl is not None and nout != nout_decl:
                return f"{name}-channel-count {nout} but dsp declares {nout_decl}"
    return None


def lean_verdicts(cases, run_times=3):
    """id -> (infer verdict, annotated verdict, run class) from drv_c03"""
    inp = "".join(f"{c['id']}\t{min(run_times, c['times'])}\t{coregen.inputs_field(c['inputs'][:run_times])}\t{c['asx']}\n" for c in cases if c.get("asx"))
    out = {}
    if inp:
        p = driver("C03", input=inp, timeout=3600)
        for l in p.stdout.splitlines():
            f = l.split("\t")
            if len(f) >= 4:
                out[f[0]] = (f[1], f[2], f[3])
    return out


def illtyped_class(kind, why, vm):
    """listed finding a crashing ill-typed-but-accepted mutant belongs to (by mutation kind and symptom)"""
    if kind == "apply_var":
        return "K1"
    if kind == "arg_drop":
        return "K8"
    if kind == "arg_add":
        return "K10"
    if kind == "arm_tuple":
        return "K9"
    if kind in ("tup_drop", "tup_add"):
        return "K2" if "index out of bounds" in why else "K4"
    if kind in ("lit_tuple", "operand_tuple"):
        # the tuple reaches a scalar position (a tuple that reaches the dsp RESULT is fine since the repair of K3: nested
        # tuples count one channel per numeric leaf)
        return "K4"
    if kind == "arg_tuple":
        return "K4"
    return None


def classify(c, real, lean):
    """-> (cell, verdict, detail): verdict in agree | outside-model | known:<id> | violation"""
    vm, wasm = real
    kind = c["kind"].split(":")[-1]
    why = judge(vm, wasm, c["nout"], c["times"])
    R = not vm.startswith("compile-error")
    li, la, lrun = lean
    L = li.startswith("accept")
    sole_tuple_arg = coregen.has_sole_tuple_argument(c["prog"]) if c.get("prog") is not None else False
    if lrun not in ("-", "fuel") and not lrun.startswith("ok"):
        return "L+", "violation", f"the Lean checker accepted a program whose reference run fails ({lrun}) — contradicts C03_check_run_output_width"
    if L and R and why is None and vm.startswith("ok"):
        w, nout = int(li.split(" ")[1]), int(vm.split(" ")[2])
        if w != nout:
            why = f"output-width: the Lean checker gives {w} words ({li.split(' ')[2:3]}), the real runtime reports {nout} channels"
    cell = ("L+" if L else "L-") + ("R+" if R else "R-") + ("" if why is None else "!")
    if c["kind"] == "welltyped":
        if not L or li != la:
            return cell, "violation", f"generated well-typed program: Lean checker says infer=`{li}` annotated=`{la}`"
        if li.split(" ")[-1] != "su":
            return cell, "violation", "generated well-typed program: site identifiers are not pairwise distinct within a body (generator guarantee `SitesUnique`)"
        if int(li.split(" ")[1]) != c["nout"]:
            return cell, "violation", f"generated well-typed program: Lean output width {li.split(' ')[1]} but the generator declares {c['nout']}"
        if not R:
            return cell, "violation", "well-typed program rejected: " + vm[:200]
        return (cell, "agree", "") if why is None else (cell, "violation", why)
    # mutants
    if L and R:
        if why is None:
            return cell, "agree", ""
        if sole_tuple_arg:
            return cell, "known:K4", why
        return cell, "violation", "a program the Lean checker accepts (well typed in the core type system) is accepted by the real checker and does not run safely: " + why
    if L and not R:
        if sole_tuple_arg:
            return cell, "outside-model", "argument-pack"
        return cell, "violation", "the Lean checker accepts, the real checker rejects: " + vm[:160]
    if not L and not R:
        return cell, "agree", ""
    # Lean rejects, real accepts
    if why is not None:
        k = illtyped_class(kind, why, vm)
        return (cell, "known:" + k, why) if k else (cell, "violation", f"an ill-typed `{kind}` mutant is accepted by the real checker and does not run safely: " + why)
    if kind in ALWAYS_REJECTED:
        return cell, "violation", f"the real checker accepts an ill-typed `{kind}` mutant (every such mutant is rejected on the pinned tree): Lean says `{li}`"
    return cell, "outside-model", kind


# names that only exist when a plugin the harness cannot load (GUI, MIDI, audio files) is present; the scheduler CAN be loaded:
# files that need it are run again with it
PLUGIN_NAMES = {"_mimium_schedule_at": "scheduler", "Probe": "guitools", "Control": "guitools", "Slider": "guitools",
                "set_midi_port": "midi", "midi_note_mono": "midi", "bind_midi_note_mono": "midi",
                "Sampler_mono": "symphonia", "gen_sampler_mono": "symphonia"}
NOT_FOUND = re.compile(r'Variable "([^"]+)" not found')
DEFINES_DSP = re.compile(r'\b(fn|let|letrec)\s+dsp\b')
SHIPPED_BAD = ("panic", "runtime-error", "harness-died", "timeout")


def strip_comments(src):
    return re.sub(r'//[^\n]*|/\*.*?\*/', ' ', src, flags=re.S)


def signature(backend, out):
    """stable name of a failure: back end, class, message with numbers abstracted"""
    cls, _, msg = out.partition(" ")
    return f"{backend}-{cls}: " + re.sub(r'\d+', 'N', msg)[:110].strip()


def missing_plugins(out):
    """plugins named by a compile error all of whose unbound variables are plugin-provided names (else None)"""
    names = NOT_FOUND.findall(out)
    if names and all(n in PLUGIN_NAMES for n in names):
        return sorted({PLUGIN_NAMES[n] for n in names})
    return None


def shipped_class(src, vm, wasm, times):
    """-> (class, None) for the acceptable outcomes ok | compile-error | needs-plugin:<p> | no-dsp,
          ("violation", signature) otherwise"""
    cv, cw = vm.split(" ")[0], wasm.split(" ")[0]
    has_dsp = bool(DEFINES_DSP.search(strip_comments(src)))
    # a file without `dsp` (library, fixture of the parser): global initialisation runs, the VM reports no channels and no
    # dsp function (`ok 0 0`), the WASM runtime has no dsp export to call (`run_dsp returned -1`)
    if not has_dsp and vm.startswith("ok 0 0") and (wasm.startswith("runtime-error run_dsp returned -1") or wasm.startswith("ok 0 0")):
        return "no-dsp", None
    for name, o, c in (("vm", vm, cv), ("wasm", wasm, cw)):
        if c in SHIPPED_BAD:
            return "violation", signature(name, o)
    if cv != cw:
        return "violation", f"accepted-by-one-backend-only(vm={cv},wasm={cw}): " + re.sub(r'\d+', 'N', (vm if cv != "ok" else wasm))[:90]
    if cv == "compile-error":
        if vm[len(cv):].strip() == "" or wasm[len(cw):].strip() == "":
            return "violation", "rejected-without-a-diagnostic"
        mp = missing_plugins(vm)
        return ("needs-plugin:" + "+".join(mp), None) if mp else ("compile-error", None)
    if cv == "ok":
        why = judge(vm, wasm, None, times)
        if why is not None:
            return "violation", re.sub(r'\d+', 'N', why)[:110]
        if vm.split(" ")[2] != wasm.split(" ")[2]:
            return "violation", "channel-count-differs(vm=%s,wasm=%s)" % (vm.split(" ")[2], wasm.split(" ")[2])
        if vm.split(" ")[2] == "0":
            return "violation", "dsp-defined-but-no-output-channel"
        return "ok", None
    return "violation", f"unclassified outcome vm={cv} wasm={cw}"


def shipped_cases(times):
    import corpusmut
    repo = REPO if os.path.isdir(os.path.join(REPO, "lib")) else "/repo"
    cases = []
    cdir = os.path.join(VERIF, "corpus", "C03")
    for fn in sorted(os.listdir(cdir)) if os.path.isdir(cdir) else []:
        if fn.endswith(".json"):
            r = json.load(open(os.path.join(cdir, fn)))
            cases.append(dict(id="corpus:" + fn[:-5], file="corpus/C03/" + fn, src=r["src"], sx=None, times=r.get("times", times),
                              inputs=r.get("inputs", []), scheduler=r.get("scheduler", False), expect=r.get("expect"), kind="shipped"))
    for f in corpusmut.shipped_files(repo):
        cases.append(dict(id="file:" + f, file=os.path.relpath(f, repo), path=f, src=open(f, encoding="utf-8", errors="replace").read(), sx=None,
                          times=times, inputs=[[0.5]] * times, scheduler=False, kind="shipped"))
    return cases


def run_shipped(cases, timeout=120):
    """outcome per case: (class, signature|None, vm, wasm); files that only miss the scheduler plugin run again with it"""
    res = pc.run_batch(cases, want_model=False, timeout=timeout, nshards=max(1, min(NCPU, len(cases))))
    out = {}
    again = []
    for c in cases:
        vm, wasm, _ = res[c["id"]]
        cls, sig = shipped_class(c["src"], vm, wasm, c["times"])
        out[c["id"]] = (cls, sig, vm, wasm)
        if cls == "needs-plugin:scheduler" and not c.get("scheduler"):
            again.append(dict(c, scheduler=True))
    if again:
        res = pc.run_batch(again, want_model=False, timeout=timeout, nshards=min(NCPU, len(again)))
        for c in again:
            vm, wasm, _ = res[c["id"]]
            cls, sig = shipped_class(c["src"], vm, wasm, c["times"])
            out[c["id"]] = (cls if sig else cls + "(with scheduler)", sig, vm, wasm)
            c0 = next(x for x in cases if x["id"] == c["id"])
            c0["scheduler"] = True
    return out


def shipped_stream(ctx, known, times=4):
    """every shipped source + corpus/C03, whole, under its own path. Returns the coverage record."""
    t0 = time.time()
    cases = shipped_cases(times)
    out = run_shipped(cases)
    listed = {(k["file"], k["signature"]): k for k in known if "file" in k and "signature" in k}
    seen_listed = set()
    classes, bad, unexpected_diag, samples = collections.Counter(), collections.defaultdict(list), [], []
    for c in cases:
        cls, sig, vm, wasm = out[c["id"]]
        if sig is None and c.get("expect") and cls.split("(")[0] != c["expect"]:
            sig = f"corpus case answered `{cls}`, recorded as `{c['expect']}`"
        if sig is None:
            classes[cls] += 1
            if cls == "compile-error" and c.get("path") and not re.search(r"fail|error|invalid", os.path.basename(c["file"])):
                unexpected_diag.append({"file": c["file"], "diagnostic": vm[len("compile-error "):][:160]})
            if cls.startswith("ok") and len(samples) < 3 and pc.nontrivial(vm) and len(c["src"]) < 600:
                samples.append({"file": c["file"], "src": c["src"], "vm": vm[:120], "wasm": wasm[:120]})
        elif (c["file"], sig) in listed:
            classes["known-finding"] += 1
            seen_listed.add((c["file"], sig))
        else:
            classes["VIOLATION"] += 1
            bad[sig].append(c)
    for (f, sig), k in listed.items():
        if (f, sig) in seen_listed:
            ctx.known_finding(f"{k['id']} {k['what']} [still fails: {f}: {sig}]")
        else:
            ctx.notes.append(f"known finding {k['id']} ({f}) no longer reproduces")
    for sig, cs in sorted(bad.items(), key=lambda kv: -len(kv[1])):
        cs.sort(key=lambda c: len(c["src"]))
        c = cs[0]
        _, _, vm, wasm = out[c["id"]]
        ctx.violation(f"shipped source does not compile-and-run safely under its own path: {sig} — {len(cs)} file(s): "
                      + ", ".join(x["file"] for x in cs[:12]),
                      {"kind": "shipped", "src": c["src"], "path": c.get("path"), "file": c["file"], "times": c["times"], "inputs": c["inputs"],
                       "scheduler": c.get("scheduler", False), "signature": sig, "vm": vm[:1500], "wasm": wasm[:1500],
                       "files": [x["file"] for x in cs]})
    return {"files": sum(1 for c in cases if c.get("path")), "corpus_cases": sum(1 for c in cases if not c.get("path")),
            "classes": dict(sorted(classes.items())), "violating_signatures": {s: [x["file"] for x in cs] for s, cs in bad.items()},
            "diagnostics_on_files_not_named_fail/error/invalid": unexpected_diag, "samples": samples, "times": times,
            "wall_s": round(time.time() - t0, 1),
            "rule": "whole file, own path, VM (hooks on) + WASM; acceptable = ok (same channel count, full output) | diagnostics on both | "
                    "needs a plugin the harness cannot load (only plugin-provided names unbound; the scheduler is loaded on a second run) | "
                    "no `dsp` defined (VM `ok 0 0`, WASM `run_dsp returned -1`); anything else (panic, abort, hang > 120 s per shard, "
                    "run-time error, one back end only, dsp without channels) is a violation"}


def main(ctx, args):
    ctx.assumptions += [
        "memory errors are observed through the cfg(mimium_verif) hooks (bounds assertion at every VM state access) and through debug assertions/overflow checks of the harness build; the Rust `unsafe` blocks themselves are not verified",
        "streams: well-typed generated programs (profiles core, deep, closure_assign) and near-miss mutants obtained by type-changing mutations (tuple arity, projection index, argument count/type, unbound name, applying a non-function, mismatched if arms, tuple/lambda operands) — whatever the real type checker accepts must run safely on both backends; the verdict of the Lean checker (proved sound) is compared with the real verdict on every case",
        "the annotation inference in front of the Lean checker (Model/CoreInfer.lean) is not verified and need not be: C03_check_sound holds for every annotation table",
        "unification stream: the real unify_types / unify_types_args are reached through the add-only cfg(mimium_verif) hook compiler::typing::verif_unify on types built with the public Type API (one cell per variable number, level 0, no locations); spans, levels and bounds of the cells are not compared; what typing.rs ASKS to be unified is not modelled",
        "shipped-sources stream: every .mmm under lib/, examples/, mimium-test/tests/mmm is compiled whole under its own path and run for 4 samples on both back ends; files that need the GUI / MIDI / audio-file plugins are only seen up to their `Variable … not found` diagnostic (the harness cannot load those plugins); whether the outputs of the two back ends are EQUAL is C01's statement, not checked here",
    ]
    known = load_known("C03")
    known_ids = {k["id"] for k in known}
    if not extract(ctx):
        ctx.finish()
    proved = prove(ctx, MODULES, drivers=["drv_prog", "drv_c03", "drv_c03u", "drv_mir"])
    if proved and ctx.tier == "thorough":
        proved = leancheck(ctx, MODULES)
    if not build_harness(ctx, bins=["runprog"]):
        ctx.finish()
    times = 10 if ctx.tier == "quick" else 40
    plan = [("core", 500), ("deep", 150), ("closure_assign", 150), ("aggr", 400), ("nested_assign", 150)] if ctx.tier == "quick" else [("core", 6000), ("deep", 2000), ("closure_assign", 2000), ("aggr", 4000), ("nested_assign", 2000)]
    rng = coregen.Rng(ctx.seed * 104729 + 3)
    cases = []
    if args.replay and json.load(open(args.replay)).get("kind") == "shipped":
        r = json.load(open(args.replay))
        c = dict(id="replay", file=r.get("file", "replay"), path=r.get("path"), src=r["src"], sx=None, times=r.get("times", 4),
                 inputs=r.get("inputs", []), scheduler=r.get("scheduler", False), kind="shipped")
        cls, sig, vm, wasm = run_shipped([c])["replay"]
        log(f"  shipped replay: class={cls} signature={sig}\n  vm:   {vm[:300]}\n  wasm: {wasm[:300]}")
        if sig is not None:
            ctx.violation(f"shipped source does not compile-and-run safely under its own path: {sig}", dict(r, vm=vm[:1500], wasm=wasm[:1500]))
        ctx.coverage.update({"evaluations": 1, "replay_class": cls})
        ctx.finish("proof")
    if args.replay and json.load(open(args.replay)).get("kind") == "unify":
        r = json.load(open(args.replay))
        cov = c03u.stream(ctx, replay_ops=r["ops"])
        ctx.coverage.update({"evaluations": 1, "unification": cov})
        ctx.finish("proof")
    if args.replay:
        r = json.load(open(args.replay))
        cases = [dict(id="replay", src=r["src"], sx=None, asx=r.get("asx"), inputs=r.get("inputs", []), times=r.get("times", 10), nout=None,
                      kind=r.get("kind", "replay"))]
    else:
        off = 0
        for prof, n in plan:
            progs, _ = pc.gen_cases(ctx.seed, n, prof, times, start=off)
            off += n
            for pr in progs:
                nout = 1 if pr["prog"].dsp.ret == coregen.F else len(pr["prog"].dsp.ret) - 1
                cases.append(dict(pr, nout=nout, kind="welltyped", asx=pr["prog"].asx()))
                for j in range(2):
                    # every mutation kind is generated; accepted instances that crash on the pinned tree are classified against
                    # the listed findings (K1 apply_var, K4 tuple for scalar, K8/K10 arity, K9 arms)
                    name, q = coregen.mutant(pr["prog"], rng)
                    if q is not None:
                        q = coregen.strip_record_annotations(q)
                        cases.append(dict(id=pr["id"] + f"|mut{j}:{name}", src=q.src(), sx=None, asx=q.asx(), inputs=pr["inputs"], times=times,
                                          nout=None, kind="mutant:" + name, prog=q))
    res = pc.run_batch(cases, want_model=False)
    lean = lean_verdicts(cases)
    failures, stats, nontriv, samples = [], collections.Counter(), set(), []
    matrix, outside, classed = collections.Counter(), collections.Counter(), collections.defaultdict(list)
    infer_vs_ann = collections.Counter()
    for c in cases:
        vm, wasm, _ = res[c["id"]]
        stats["evaluations"] += 1
        stats[c["kind"].split(":")[0] + "_" + vm.split(" ")[0]] += 1
        if c["id"] not in lean:
            if c.get("asx"):
                failures.append((c, "the Lean checker driver gave no answer", vm, wasm))
                continue
            # replay of a bare source text: real side only
            why = judge(vm, wasm, c["nout"], c["times"])
            if why is not None:
                failures.append((c, why, vm, wasm))
            continue
        cell, verdict, detail = classify(c, (vm, wasm), lean[c["id"]])
        matrix[c["kind"].split(":")[0] + " " + cell] += 1
        stats["lean_" + lean[c["id"]][0].split(" ")[0]] += 1
        if c["kind"] != "welltyped":
            infer_vs_ann["infer:" + lean[c["id"]][0].split(" ")[0] + " annotated:" + lean[c["id"]][1].split(" ")[0]] += 1
        if verdict == "agree":
            if vm.startswith("ok") and pc.nontrivial(vm):
                nontriv.add(hash(c["src"]))
            if c["kind"].startswith("mutant") and len(samples) < 4 and stats["evaluations"] % 157 == 11:
                samples.append({"kind": c["kind"], "src": c["src"][:700], "vm_class": vm.split(" ")[0], "wasm_class": wasm.split(" ")[0],
                                "lean": lean[c["id"]][0]})
        elif verdict == "outside-model":
            outside[cell + " " + detail] += 1
        elif verdict.startswith("known:") and verdict[6:] in known_ids:
            classed[verdict[6:]].append((c, detail))
        else:
            failures.append((c, detail if verdict == "violation" else f"class {verdict[6:]} is no longer a listed finding: " + detail, vm, wasm))
    # heap objects and closures (`type rec` variants with multi-word payloads, closures bound / passed / returned, boxed values
    # embedded and dropped in nested blocks): programs of the C12 generator, run on the VM with the hooks on — no reference
    # semantics is needed, a panic (`BoxLoad: invalid heap index`, closure handle dereferenced after release, …) is the failure
    heap_stats = collections.Counter()
    if not args.replay:
        import closgen
        hcases = []
        for prof, n in (("balanced", 60), ("boxes", 60)) if ctx.tier == "quick" else (("balanced", 600), ("boxes", 600), ("mixed", 300)):
            for i in range(n):
                q = closgen.make_case(ctx.seed, i, prof)
                if q.scheduler():
                    continue
                hcases.append(dict(id=f"heap:{prof}:{ctx.seed}:{i}", src=q.src(), sx=None, inputs=[], times=times, nout=None, kind="heap:" + prof))
        hres = pc.run_batch(hcases, backends="vm", want_model=False)
        for c in hcases:
            vm = hres[c["id"]][0]
            cls = vm.split(" ")[0]
            heap_stats["heap_" + cls] += 1
            stats["evaluations"] += 1
            if cls in ("panic", "runtime-error", "harness-died"):
                failures.append((c, f"vm-{cls}: " + vm[:200], vm, "-"))
    shipped_cov = shipped_stream(ctx, known) if not args.replay else {}
    # the real unify_types / unify_types_args against the port Model/Unify.lean (theorems C03_unify_sound, C04_unify_preserves_acyclic)
    unify_cov = c03u.stream(ctx) if not args.replay else {}
    stats["evaluations"] += unify_cov.get("cases", 0)
    stats["evaluations"] += shipped_cov.get("files", 0) + shipped_cov.get("corpus_cases", 0)
    # SSA well-formedness of the MIR of everything the compiler accepted (`wfFn`, Model/MirWf.lean; theorem C03_mir_wf_no_stuck)
    wf_stats, wf_bad = collections.Counter(), []
    static = pc.mir_static(cases + (hcases if not args.replay else []))
    for c in cases + (hcases if not args.replay else []):
        st = static.get(c["id"], {"status": "missing"})
        if st["status"] != "ok":
            wf_stats["no_mir:" + st["status"].split(" ")[0]] += 1
            continue
        wf_stats["programs"] += 1
        wf_stats["functions"] += st["fns"]
        wf_stats["functions_wf"] += st["wf"]
        if st["wffail"]:
            wf_bad.append((c, st))
    kc = [dict(id=k["id"], src=k["src"], sx=None, inputs=k.get("inputs", []), times=k.get("times", 6)) for k in known if "src" in k]
    kres = pc.run_batch(kc, want_model=False, nshards=1) if kc else {}
    for k in known:
        if "src" not in k:
            continue
        why = judge(kres[k["id"]][0], kres[k["id"]][1], None, k.get("times", 6))
        inst = classed.get(k["id"], [])
        extra = ""
        if inst:
            kinds = collections.Counter(c["kind"].split(":")[-1] for c, _ in inst)
            extra = f" [+{len(inst)} generated instances of the class: " + ", ".join(f"{a}×{b}" for a, b in kinds.most_common()) + "]"
        if why is not None:
            ctx.known_finding(f"{k['id']} {k['what']} [still fails: {why[:100]}]" + extra)
        elif inst:
            ctx.known_finding(f"{k['id']} {k['what']} [the listed input no longer fails]" + extra)
        else:
            ctx.notes.append(f"known finding {k['id']} no longer reproduces")
    if failures:
        failures.sort(key=lambda f: len(f[0]["src"]))
        groups = collections.Counter(f[1].split(":")[0] + ":" + f[1][f[1].find(":") + 1:][:60] for f in failures)
        c, why, vm, wasm = failures[0]
        rep = {"src": c["src"], "asx": c.get("asx"), "inputs": c["inputs"], "times": c["times"], "kind": c["kind"], "why": why, "vm": vm[:1500],
               "wasm": wasm[:1500], "lean": list(lean.get(c["id"], ())), "failing_cases": len(failures), "groups": dict(groups.most_common(12))}
        if "prog" in c and c["id"] in lean:
            key = classify(c, (vm, wasm), lean[c["id"]])[:2]

            def still(q):
                cc = dict(c, id="s", src=q.src(), asx=q.asx(), prog=q)
                r = pc.run_batch([cc], want_model=False, nshards=1)["s"]
                lv = lean_verdicts([cc])
                return "s" in lv and classify(cc, (r[0], r[1]), lv["s"])[:2] == key
            try:
                q = coregen.shrink(c["prog"], still, 250)
                rep["shrunk"] = {"src": q.src(), "asx": q.asx(), "inputs": c["inputs"], "times": c["times"]}
                rep["src"], rep["asx"] = q.src(), q.asx()
            except Exception as e:
                rep["shrink_error"] = str(e)
        ctx.violation(f"type-checker correspondence / safety of accepted programs ({why[:220]}) — {len(failures)} cases; smallest:\n{rep['src']}", rep)
    if wf_bad and not failures:
        wf_bad.sort(key=lambda f: len(f[0]["src"]))
        c, st = wf_bad[0]
        ctx.violation(f"the MIR of an accepted program is not well formed (wfFn fails for {st['wffail']}: a register may be read before it is "
                      f"defined, or a branch leaves the function; {len(wf_bad)} programs) — the per-program obligation of C03_mir_wf_no_stuck; smallest:\n{c['src']}",
                      {"src": c["src"], "inputs": c.get("inputs", []), "times": c["times"], "why": "mir-not-wf", "static": st, "kind": c["kind"]}, found_input=False)
    if not proved and not failures:
        ctx.violation("proof obligation broken: " + "; ".join(ctx._broken), {"stage": "prove", "theorems": ctx._broken,
                      "lake": getattr(ctx, "_lake_errors", "")}, found_input=False)
    ctx.coverage.update({
        "evaluations": stats["evaluations"],
        "distinct_nontrivial": len(nontriv),
        "rule": "generated well-typed programs + 2 near-miss mutants each (all mutation kinds), %d samples on VM (hooks on) and WASM; outcome class per backend in {ok, compile-error, panic, runtime-error, harness-died}; verdict of the Lean checker (infer + annotated) per case; non-trivial = real and Lean verdict agree, accepted, output not constant" % times,
        "samples": samples or [{"note": "replay mode"}],
        "traces_validated_against_impl": stats["evaluations"],
        "failures": len(failures),
        "outcomes": {k: v for k, v in stats.items() if "_" in k and k != "evaluations"},
        "heap_and_closure_programs(VM, hooks on)": dict(heap_stats),
        "shipped_sources": shipped_cov,
        "unification(port vs real unify_types)": unify_cov,
        "verdict_matrix": dict(sorted(matrix.items())),
        "verdict_matrix_legend": "L+/L- Lean checker accepts/rejects, R+/R- real checker accepts/rejects (no diagnostic), ! = accepted by the real checker but not run safely (crash, one back end only, wrong width)",
        "real_accepts_outside_core_model": dict(sorted(outside.items())),
        "mutants_lean_infer_vs_generator_annotations": dict(sorted(infer_vs_ann.items())),
        "outside_model_reasons": OUTSIDE_MODEL,
        "always_rejected_kinds": sorted(ALWAYS_REJECTED),
        "known_class_instances": {k: len(v) for k, v in sorted(classed.items())},
        "mir_ssa_wellformedness": {"rule": "wfFn (Model/MirWf.lean; theorem C03_mir_wf_no_stuck) evaluated by drv_mir on every function of the MIR of every "
                                           "program the real compiler accepted (well-typed, accepted mutants, heap/closure programs)",
                                   **dict(wf_stats), "programs_with_a_function_not_wf": len(wf_bad)},
    })
    ctx.finish("proof")
