"""C03 — programs accepted by the type checker run without crashes or memory errors."""
import collections
from vlib import *
import progcheck as pc
sys.path.insert(0, os.path.join(VERIF, "tools", "gen"))
import coregen

MODULES = ["Mimium.Props.C03"]
UNSAFE_KINDS = {"apply_var", "tup_drop", "lit_tuple", "operand_tuple", "arg_tuple", "arg_drop", "arm_tuple", "arg_add"}


def judge(vm, wasm, nout_decl, times):
    """None when both backends either reject with diagnostics or run safely with the declared output width"""
    cv, cw = vm.split(" ")[0], wasm.split(" ")[0]
    for name, o, c in (("vm", vm, cv), ("wasm", wasm, cw)):
        if c in ("panic", "runtime-error", "harness-died"):
            return f"{name}-{c}: " + o[:160]
    if cv != cw:
        return f"accepted-by-one-backend-only(vm={cv},wasm={cw}): " + (vm if cv != "ok" else wasm)[:160]
    if cv == "ok":
        for name, o in (("vm", vm), ("wasm", wasm)):
            f = o.split(" ")
            nout = int(f[2])
            words = f[3].split(",") if len(f) > 3 and f[3] else []
            if len(words) != nout * times:
                return f"{name}-output-length: {len(words)} words for {times} samples of {nout} channels"
            if nout_decl is not None and nout != nout_decl:
                return f"{name}-channel-count {nout} but dsp declares {nout_decl}"
    return None


def main(ctx, args):
    ctx.assumptions += [
        "memory errors are observed through the cfg(mimium_verif) hooks (bounds assertion at every VM state access) and through debug assertions/overflow checks of the harness build; the Rust `unsafe` blocks themselves are not verified",
        "streams: well-typed generated programs (profiles core, deep, closure_assign) and near-miss mutants obtained by type-changing mutations (tuple arity, projection index, argument count/type, unbound name, applying a non-function, mismatched if arms, tuple operands) — whatever the real type checker accepts must run safely on both backends",
    ]
    known = load_known("C03")
    if not extract(ctx):
        ctx.finish()
    proved = prove(ctx, MODULES, drivers=["drv_prog"])
    if proved and ctx.tier == "thorough":
        proved = leancheck(ctx, MODULES)
    if not build_harness(ctx, bins=["runprog"]):
        ctx.finish()
    times = 10 if ctx.tier == "quick" else 40
    plan = [("core", 500), ("deep", 150), ("closure_assign", 150), ("aggr", 400)] if ctx.tier == "quick" else [("core", 6000), ("deep", 2000), ("closure_assign", 2000), ("aggr", 4000)]
    rng = coregen.Rng(ctx.seed * 104729 + 3)
    cases = []
    if args.replay:
        r = json.load(open(args.replay))
        cases = [dict(id="replay", src=r["src"], sx=None, inputs=r.get("inputs", []), times=r.get("times", 10), nout=None, kind="replay")]
    else:
        off = 0
        for prof, n in plan:
            progs, _ = pc.gen_cases(ctx.seed, n, prof, times, start=off)
            off += n
            for pr in progs:
                nout = 1 if pr["prog"].dsp.ret == coregen.F else len(pr["prog"].dsp.ret) - 1
                cases.append(dict(pr, nout=nout, kind="welltyped"))
                for j in range(2):
                    name, q = coregen.mutant(pr["prog"], rng)
                    # mutation kinds whose accepted instances crash on the pinned tree are listed findings (K1 apply_var,
                    # K2 tup_drop, K3 lit_tuple/operand_tuple, K4 arg_tuple, K8 arg_drop): replayed from known_findings.jsonl, not generated
                    if q is not None and name not in UNSAFE_KINDS:
                        cases.append(dict(id=pr["id"] + f"|mut{j}:{name}", src=q.src(), sx=None, inputs=pr["inputs"], times=times, nout=None,
                                          kind="mutant:" + name, prog=q))
    res = pc.run_batch(cases, want_model=False)
    failures, stats, nontriv, samples = [], collections.Counter(), set(), []
    for c in cases:
        vm, wasm, _ = res[c["id"]]
        stats["evaluations"] += 1
        stats[c["kind"].split(":")[0] + "_" + vm.split(" ")[0]] += 1
        why = judge(vm, wasm, c["nout"], c["times"])
        if c["kind"] == "welltyped" and why is None and not vm.startswith("ok"):
            why = "well-typed program rejected: " + vm[:200]
        if why is None:
            if vm.startswith("ok") and pc.nontrivial(vm):
                nontriv.add(hash(c["src"]))
            if c["kind"].startswith("mutant") and len(samples) < 4 and stats["evaluations"] % 157 == 11:
                samples.append({"kind": c["kind"], "src": c["src"][:700], "vm_class": vm.split(" ")[0], "wasm_class": wasm.split(" ")[0]})
        else:
            failures.append((c, why, vm, wasm))
    kc = [dict(id=k["id"], src=k["src"], sx=None, inputs=k.get("inputs", []), times=k.get("times", 6)) for k in known if "src" in k]
    kres = pc.run_batch(kc, want_model=False, nshards=1) if kc else {}
    for k in known:
        if "src" not in k:
            continue
        why = judge(kres[k["id"]][0], kres[k["id"]][1], None, k.get("times", 6))
        if why is not None:
            ctx.known_finding(f"{k['id']} {k['what']} [still fails: {why[:100]}]")
        else:
            ctx.notes.append(f"known finding {k['id']} no longer reproduces")
    if failures:
        failures.sort(key=lambda f: len(f[0]["src"]))
        groups = collections.Counter(f[1].split(":")[0] + ":" + f[1][f[1].find(":") + 1:][:60] for f in failures)
        c, why, vm, wasm = failures[0]
        rep = {"src": c["src"], "inputs": c["inputs"], "times": c["times"], "kind": c["kind"], "why": why, "vm": vm[:1500], "wasm": wasm[:1500],
               "failing_cases": len(failures), "groups": dict(groups.most_common(12))}
        if "prog" in c:
            key = why.split(":")[0]

            def still(src, sx, inputs):
                r = pc.run_batch([dict(id="s", src=src, sx=None, inputs=inputs, times=c["times"])], want_model=False, nshards=1)["s"]
                w = judge(r[0], r[1], None, c["times"])
                return w is not None and w.split(":")[0] == key
            rep["shrunk"] = pc.shrink_case(c, still)
            rep["src"] = rep["shrunk"]["src"]
        ctx.violation(f"a program accepted by the type checker does not run safely ({why[:200]}) — {len(failures)} cases; smallest:\n{rep['src']}", rep)
    if not proved and not failures:
        ctx.violation("proof obligation broken: " + "; ".join(ctx._broken), {"stage": "prove", "theorems": ctx._broken,
                      "lake": getattr(ctx, "_lake_errors", "")}, found_input=False)
    ctx.coverage.update({
        "evaluations": stats["evaluations"],
        "distinct_nontrivial": len(nontriv),
        "rule": "generated well-typed programs + 2 near-miss mutants each, %d samples on VM (hooks on) and WASM; outcome class per backend in {ok, compile-error, panic, runtime-error, harness-died}; non-trivial = accepted and output not constant" % times,
        "samples": samples or [{"note": "replay mode"}],
        "traces_validated_against_impl": stats["evaluations"],
        "failures": len(failures),
        "outcomes": {k: v for k, v in stats.items() if "_" in k and k != "evaluations"},
    })
    ctx.finish("proof")
