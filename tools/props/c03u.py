"""C03, stream `unification`: the ported `unify_types` / `unify_types_args` (Model/Unify.lean, `drv_c03u`) against the real ones
(`c03u`, through the cfg(mimium_verif) hook `compiler::typing::verif_unify`) on explicit types.

A case = a SEQUENCE of requests over one set of type-variable cells.  Compared exactly: the verdict of every request (relation, or
the list of error kinds in order), the `parent` of every variable as a type, and `substitute_type(?v)` for every variable."""
import collections
from vlib import *
sys.path.insert(0, os.path.join(VERIF, "tools", "gen"))
import coregen, unigen

CORPUS = os.path.join(VERIF, "corpus", "C03", "unify.txt")


def corpus_cases():
    out = []
    if os.path.exists(CORPUS):
        for l in open(CORPUS):
            l = l.rstrip("\n")
            if l and not l.startswith("#"):
                name, ops, expect = (l.split("\t") + [""])[:3]
                out.append(("corpus:" + name, ops, expect))
    return out


def gen_cases(seed, tier):
    rng = coregen.Rng(seed * 7919 + 17)
    by = unigen.small(3)
    s1, s2, s3 = by[0], by[0] + by[1], by[0] + by[1] + by[2]
    cases = []
    # (a) exhaustive: all pairs of types with <= 2 constructors, both entry points
    for i, a in enumerate(s2):
        for j, b in enumerate(s2):
            cases.append((f"x2:{i}:{j}", f"U {a} {b}"))
            cases.append((f"a2:{i}:{j}", f"A {a} {b}"))
    # (b) pairs of types with <= 3 constructors: all of them (thorough) / a sample (quick)
    if tier == "thorough":
        for i, a in enumerate(s3):
            for j, b in enumerate(s3):
                if i >= len(s2) or j >= len(s2):
                    cases.append((f"x3:{i}:{j}", ("U " if (i + j) % 2 == 0 else "A ") + f"{a} {b}"))
    else:
        for k in range(40000):
            a, b = rng.pick(s3), rng.pick(s3)
            cases.append((f"r3:{k}", ("U " if rng.chance(2, 3) else "A ") + f"{a} {b}"))
    # (c) sequences: every sequence of 2 requests over the one-constructor types; random sequences of 2-3 over <= 2 / <= 3 constructors
    p1 = [f"U {a} {b}" for a in s1 for b in s1]
    for i, x in enumerate(p1):
        for j, y in enumerate(p1):
            cases.append((f"q2:{i}:{j}", x + ";" + y))
    for k in range(30000 if tier == "quick" else 600000):
        n = 2 + rng.below(2)
        pool = s2 if rng.chance(1, 2) else s3
        cases.append((f"q:{k}", ";".join(("U " if rng.chance(3, 4) else "A ") + rng.pick(pool) + " " + rng.pick(pool) for _ in range(n))))
    # (d) random deep types over all constructors; the second type is a near miss of the first half of the time
    for k in range(30000 if tier == "quick" else 600000):
        ops = []
        for _ in range(1 + rng.below(3)):
            a = unigen.deep(rng, 1 + rng.below(5))
            b = unigen.near(rng, a) if rng.chance(3, 5) else unigen.deep(rng, 1 + rng.below(4))
            if rng.chance(1, 2):
                a, b = b, a
            ops.append(("U " if rng.chance(3, 4) else "A ") + a + " " + b)
        cases.append((f"d:{k}", ";".join(ops)))
    return cases


def run_both(cases, nshards=None):
    """id -> (real line fields, model line fields)"""
    binp = os.environ.get("C03U_BIN", os.path.join(BIN, "c03u"))
    drv = os.path.join(LEANBIN, "drv_c03u")
    nshards = nshards or max(1, min(NCPU // 2, 8, len(cases) // 2000 + 1))
    shards = [cases[i::nshards] for i in range(nshards)]

    def job(arg):
        which, sh = arg
        inp = "".join(f"{c[0]}\t{c[1]}\n" for c in sh)
        if which == "real":
            res = run_isolated(binp, [(c[0], f"{c[0]}\t{c[1]}") for c in sh], timeout=1800)
            return which, {k: "\t".join(v) for k, v in res.items()}
        p = run([drv], input=inp, timeout=1800)
        out = {}
        for l in p.stdout.splitlines():
            f = l.split("\t", 1)
            if len(f) == 2:
                out[f[0]] = f[1]
        return which, out
    real, model = {}, {}
    for which, out in parallel([("real", s) for s in shards] + [("model", s) for s in shards], job):
        (real if which == "real" else model).update(out)
    return real, model


def stream(ctx, replay_ops=None):
    """runs the stream; reports violations through ctx; returns the coverage record"""
    t0 = time.time()
    binp = os.environ.get("C03U_BIN", os.path.join(BIN, "c03u"))
    probe = run([binp], input="")
    if probe.returncode == 3:
        ctx.violation("the unification correspondence cannot run: /repo has no cfg(mimium_verif) hook `compiler::typing::verif_unify` "
                      "(patch `verif hook: expose unify_types / unify_types_args`): " + probe.stderr.strip()[:300],
                      {"stage": "correspond", "stream": "unification", "missing": "verif_unify hook"}, found_input=False)
        return {"skipped": "hook missing"}
    corpus = corpus_cases()
    if replay_ops is not None:
        cases = [("replay", replay_ops)]
    else:
        cases = [(c[0], c[1]) for c in corpus] + gen_cases(ctx.seed, ctx.tier)
    real, model = run_both(cases)
    verdicts, bad, bound, samples = collections.Counter(), [], 0, []
    distinct = set()
    for cid, ops in cases:
        r, m = real.get(cid, "<no answer>").rstrip(), model.get(cid, "<no answer>").rstrip()
        if r != m:
            bad.append((cid, ops, r, m))
            continue
        f = r.split("\t")
        for v in f[0].split("|"):
            verdicts[v.split(":")[0] + ":" + (v.split(":")[1].split(",")[0] if ":" in v else "")] += 1
        nb = sum(1 for b in (f[1].split("|") if len(f) > 1 and f[1] else []) if "=-:" not in b)
        if nb or "err:" in f[0]:
            distinct.add(ops)
        bound += 1 if nb else 0
        if nb >= 2 and len(samples) < 4 and cid.startswith("d:") and len(ops) < 260:
            samples.append({"ops": ops, "answer_of_both": r})
    for cid, ops, expect in corpus:
        r = real.get(cid, "").rstrip()
        if r.split("\t")[0] != expect:
            bad.append((cid, ops, r, f"<recorded verdict of the real code: {expect}>"))
    if bad:
        bad.sort(key=lambda b: len(b[1]))
        cid, ops, r, m = bad[0]
        ctx.violation(f"unification: the port (Model/Unify.lean) and the real unify_types disagree on {len(bad)} of {len(cases)} cases; smallest: "
                      f"`{ops}`\n  real : {r}\n  model: {m}",
                      {"kind": "unify", "ops": ops, "real": r, "model": m, "id": cid, "disagreements": len(bad),
                       "more": [{"ops": b[1], "real": b[2], "model": b[3]} for b in bad[1:6]]})
    return {"cases": len(cases), "corpus_cases": len(corpus), "disagreements": len(bad), "cases_that_bind_a_variable": bound,
            "distinct_nontrivial": len(distinct), "verdicts(kind:first)": dict(sorted(verdicts.items())), "samples": samples,
            "rule": "exact equality of: verdict of every request (relation | error kinds in order | panic), parent of every variable "
                    "(as a type), substitute_type of every variable; non-trivial = some variable is bound or some request fails",
            "inputs": "all pairs of types with <= 2 constructors (both entry points); pairs with <= 3 constructors (all: thorough, 40k sample: quick); "
                      "all 2-request sequences over one-constructor types; random 2-3-request sequences; random deep types over every "
                      "constructor with near-miss partners; corpus/C03/unify.txt first",
            "wall_s": round(time.time() - t0, 1)}
