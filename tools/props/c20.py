"""C20 — values and types survive the plugin FFI encoding."""
import os, json, collections
from vlib import *

MODULES = ["Mimium.Props.C20"]
# harness line kind -> kind of the byte-level line that decodes the model's own bytes on the real code
DECODE_KIND = {"V": "B", "M": "A", "T": "Y", "W": "Z"}


def new_stats():
    return {"evaluations": 0, "distinct": set(), "mismatch": 0, "propfail": collections.Counter(), "samples": [],
            "kinds": collections.Counter(), "outcome": collections.Counter(), "lean_bytes_to_rust": 0,
            "lean_bytes_to_rust_mismatch": 0, "bytes_hist": collections.Counter()}


def nontrivial(kind, f):
    """V/M/T/W: the real code serialised the case and the case is an aggregate (contains a space);
    byte streams: the real decoder accepted the (mutated) stream or the stream is longer than one tag"""
    if kind in "VMTW":
        return not f[2].startswith("ERR") and f[2] != "PANIC" and " " in f[1]
    return len(f[1]) > 8


def compare_stream(name, mmh_args, stats, stdin_data=None):
    """implementation and model on one stream of cases; returns problem records"""
    p = mmh("C20", mmh_args, input=stdin_data)
    if p.returncode != 0:
        return [{"kind": "harness-crash", "stream": name, "stderr": p.stderr[-2000:]}]
    q = driver("C20", input=p.stdout)
    if q.returncode != 0:
        return [{"kind": "driver-crash", "stream": name, "stderr": q.stderr[-2000:]}]
    il, ml = p.stdout.split("\n"), q.stdout.split("\n")
    problems, second = [], []
    for a, b in zip(il, ml):
        if not a:
            continue
        f, g = a.split("\t"), b.split("\t")
        kind = f[0]
        stats["evaluations"] += 1
        stats["kinds"][kind] += 1
        if g[0] == "skip":
            stats["kinds"]["skipped-by-model"] += 1
            continue
        if len(g) < 3 or ";" not in g[0]:
            problems.append({"kind": "driver-bad-line", "stream": name, "line": a, "driver": b})
            continue
        agree, verdict = g[0].split(";", 1)
        impl_res = f[2]
        stats["outcome"][kind + ":" + ("refused" if impl_res.startswith("ERR:") else "rejected" if impl_res == "ERR"
                                       else "panic" if impl_res == "PANIC" else "accepted")] += 1
        if nontrivial(kind, f):
            stats["distinct"].add(hash((kind, f[1])))
        if kind in "VMTW" and not impl_res.startswith("ERR") and impl_res != "PANIC":
            stats["bytes_hist"][min(len(impl_res) // 2 // 16, 16)] += 1
        rec = {"kind": "case", "stream": name, "case_kind": kind, "input": f[1], "impl": f[2:], "model": g[1:],
               "agree": agree == "agree", "verdict": verdict, "line": kind + "\t" + f[1]}
        if agree != "agree":
            stats["mismatch"] += 1
        if verdict not in ("ok", "ok-refused"):
            stats["propfail"][verdict] += 1
        if agree != "agree" or verdict not in ("ok", "ok-refused"):
            problems.append(rec)
        elif len(stats["samples"]) < 3 and nontrivial(kind, f) and stats["evaluations"] % 1009 == 7 and len(a) < 600:
            stats["samples"].append({"kind": kind, "input": f[1], "impl": f[2:], "model": g[1:], "verdict": g[0]})
        # second direction: the bytes the Lean encoder produced, decoded by the real code
        if kind in DECODE_KIND and g[1] not in ("-", "") and not g[1].startswith("ERR"):
            second.append((DECODE_KIND[kind], g[1], g[2], kind + "\t" + f[1]))
    if second:
        data = "".join(f"{k}\t{hx}\n" for k, hx, _, _ in second)
        p2 = mmh("C20", ["cases"], input=data)
        if p2.returncode != 0:
            return problems + [{"kind": "harness-crash", "stream": name + ":lean-bytes", "stderr": p2.stderr[-2000:]}]
        for (k, hx, want, line), out in zip(second, p2.stdout.split("\n")):
            o = out.split("\t")
            stats["lean_bytes_to_rust"] += 1
            if len(o) < 3 or o[2] != want:
                stats["lean_bytes_to_rust_mismatch"] += 1
                problems.append({"kind": "case", "stream": name + ":lean-bytes", "case_kind": k, "input": hx, "impl": o[2:],
                                 "model": ["-", want], "agree": False, "verdict": "ok", "line": line})
    return problems


def main(ctx, args):
    ctx.assumptions += [
        "Model/Ffi.lean is a hand port of runtime/ffi_serde.rs, the hand-written serde impls of Type/Value, and the slice of "
        "bincode 1.3.3 (legacy options), serde derive and slotmap 1.0.7 key serde they run through; tie = byte-exact correspondence below",
        "variant order / indices / field orders are re-extracted from the Rust source on every run (Gen/FfiVariants.lean)",
        "theorems assume what holds of every value in a Rust process: Vec/String lengths < 2^64, slotmap keys are valid "
        "(odd version; without it the proved result is the key-normalised value), intern(resolve s) = s",
        "Closure environments and ExternalFn function pointers are not modelled (the conversion never inspects them)",
        "numbers are compared as 64-bit patterns, strings as UTF-8 bytes",
    ]
    if not extract(ctx):
        ctx.finish()
    proved = prove(ctx, MODULES)
    if proved and ctx.tier == "thorough":
        proved = leancheck(ctx, MODULES)
    if not build_harness(ctx):
        ctx.finish()
    stats = new_stats()
    problems = []
    if args.replay:
        r = json.load(open(args.replay))
        problems += compare_stream("replay", ["cases"], stats, stdin_data=r["line"] + "\n")
    else:
        cdir = os.path.join(VERIF, "corpus", "C20")
        data = ""
        if os.path.isdir(cdir):
            for fn in sorted(os.listdir(cdir)):
                data += "".join(l for l in open(os.path.join(cdir, fn)) if "\t" in l and not l.startswith("#"))
        jobs = [("corpus", ["cases"], data)]
        quick = ctx.tier == "quick"
        maxn = 5
        shards = 16 if quick else 32
        jobs += [(f"enum{k}", ["enum", str(maxn), str(k), str(shards)], None) for k in range(shards)]
        nrand = 16 if quick else 96
        for i in range(nrand):
            depth, width = [(3, 3), (4, 4), (6, 3), (5, 8), (6, 8), (8, 2), (2, 40), (12, 1)][i % 8]
            cnt = (3000 if quick else 20000) if depth * width < 40 else (500 if quick else 3000)
            jobs.append((f"rand{i}", ["rand", str(ctx.seed * 1000 + i), str(cnt), str(depth), str(width)], None))
        jobs.append(("args", ["args", str(ctx.seed), "10000" if quick else "200000"], None))
        jobs.append(("types", ["types", str(ctx.seed), "20000" if quick else "400000"], None))
        jobs.append(("enumw", ["enumw", "4"], None))
        for i in range(4 if quick else 32):
            jobs.append((f"randw{i}", ["randw", str(ctx.seed * 1000 + 500 + i), "3000", str(3 + i % 3), str(3 + i % 4)], None))
        for i in range(8 if quick else 32):
            jobs.append((f"malformed{i}", ["malformed", str(ctx.seed * 1000 + 900 + i), "500" if quick else "1500", "24"], None))

        def work(job):
            st = new_stats()
            pr = compare_stream(job[0], job[1], st, stdin_data=job[2])
            return st, pr
        for st, pr in parallel(jobs, work):
            for k in ("evaluations", "mismatch", "lean_bytes_to_rust", "lean_bytes_to_rust_mismatch"):
                stats[k] += st[k]
            for k in ("propfail", "kinds", "outcome", "bytes_hist"):
                stats[k].update(st[k])
            stats["distinct"] |= st["distinct"]
            stats["samples"] += st["samples"][:1]
            problems += pr
        ctx.coverage["exhaustive_scope"] = (f"all values with <= {maxn} nodes over 13 atoms (Unit, 1.5, -0.0, NaN+payload, +inf, \"\", "
                                            "non-ASCII string, Code, ErrorV, Closure, Fixpoint, ExternalFn, ConstructorFn) and "
                                            "Array/Tuple/Record (incl. empty), TaggedUnion(0|MAX), Store")
        ctx.coverage["exhaustive"] = False
    # ---- decide
    new_fail, disagree = [], []
    for pr in problems:
        if pr["kind"] != "case":
            ctx.violation(f"{pr['kind']} in stream {pr.get('stream')}", pr, found_input=False)
            continue
        if pr["verdict"] not in ("ok", "ok-refused"):
            # every property failure is a violation (no class of failures is listed as known any more: an error value
            # that crosses and comes back as Unit — verdict `errorv-to-unit`, former finding F9 — must be refused)
            new_fail.append(pr)
        elif not pr["agree"]:
            disagree.append(pr)
    sz = lambda pr: len(pr["input"])
    if new_fail:
        best = min(new_fail, key=sz)
        ctx.violation(f"implementation violates C20 ({best['verdict']}) on {best['case_kind']} {best['input'][:200]}; "
                      f"{len(new_fail)} failing cases",
                      dict(best, replay_cmd="./check C20 --replay <this file>", failing_cases=len(new_fail)))
    elif disagree:
        best = min(disagree, key=sz)
        ctx.violation(f"model/implementation disagree on {len(disagree)} cases (smallest: {best['case_kind']} {best['input'][:200]}: "
                      f"impl {best['impl']} model {best['model']}) but no property failure found",
                      dict(best, correspondence="Model/Ffi.lean vs ffi_serde.rs/bincode", cases=len(disagree)), found_input=False)
    if not proved and not new_fail:
        ctx.violation("proof obligation broken: " + "; ".join(ctx._broken), {"stage": "prove", "theorems": ctx._broken,
                      "lake": getattr(ctx, "_lake_errors", "")}, found_input=False)
    ctx.coverage.update({
        "evaluations": stats["evaluations"],
        "distinct_nontrivial": len(stats["distinct"]),
        "rule": "cases = values/arg lists/types printed by the harness (exhaustive small scope + seeded random deep values: depth<=12, "
                "width<=40, random Unicode strings, random 64-bit number patterns incl. NaN payloads) and malformed byte streams "
                "(all truncations, bad variant indices, over-long lengths, random substitutions/insertions/deletions of valid encodings, "
                "random streams); distinct = distinct (kind, input text); non-trivial = for value/type cases: the real code "
                "serialised it and it is an aggregate; for byte streams: longer than a bare variant tag",
        "samples": stats["samples"][:6] or [{"note": "replay mode", "cases": stats["evaluations"]}],
        "traces_validated_against_impl": stats["evaluations"],
        "model_impl_disagreements": stats["mismatch"],
        "impl_property_failures": dict(stats["propfail"]),
        "lean_bytes_decoded_by_rust": stats["lean_bytes_to_rust"],
        "lean_bytes_decoded_by_rust_mismatches": stats["lean_bytes_to_rust_mismatch"],
        "input_distribution": {"by_kind": dict(stats["kinds"]), "by_outcome": dict(sorted(stats["outcome"].items())),
                               "encoded_size_hist_16B_buckets": {str(k): v for k, v in sorted(stats["bytes_hist"].items())}},
    })
    ctx.finish("proof")
