"""C07 — hot swap after an edit preserves the state of untouched signal paths."""
import collections
from vlib import *
import progcheck as pc
sys.path.insert(0, os.path.join(VERIF, "tools", "gen"))
import coregen, voicegen
import c06 as c06mod

MODULES = ["Mimium.Props.C07"]
HALF = "%016x" % coregen.f64bits(0.0)


def model_stream(kind, consts):
    """reference semantics of one voice fed with the constants `consts` (one per sample): list of canonical words"""
    line = "m\t%d\t%s\t%s\n" % (len(consts), coregen.inputs_field([[float(c)] for c in consts]), voicegen.alone(kind))
    q = run([os.path.join(LEANBIN, "drv_prog")], input=line)
    f = q.stdout.strip().split("\t")
    if len(f) < 2 or not f[1].startswith("ok"):
        raise RuntimeError("model failed on voice " + kind + ": " + q.stdout[:200])
    p = f[1].split(" ")
    return p[2].split(",") if len(p) > 2 and p[2] else []


def predicted_streams(hists, total):
    """the PREDICTED output stream of every history: `Model/LiveCoding.lean: session` on the reference semantics, the published
    layouts and the model of the pinned migration (drv_c07, mode `session`); one string `w,w;w,w;…` per history (None: the model
    gives no stream)"""
    lines = []
    for i, h in enumerate(hists):
        sxs = [voicegen.render_sx(v["voices"], v["observed"], v["broken"]) for v in h]
        events = ",".join(f"{v['t']}:{k}" for k, v in enumerate(h) if k > 0) or "-"
        lines.append("\t".join([f"h{i}", "session", str(total), "-", events] + sxs))
    nsh = min(NCPU, max(1, len(lines) // 8))
    shards = [lines[k::nsh] for k in range(nsh)]

    def work(sh):
        if not sh:
            return {}
        q = driver("C07", input="\n".join(sh) + "\n")
        out = {}
        for ln in q.stdout.split("\n"):
            f = ln.split("\t")
            if len(f) >= 2:
                out[f[0]] = f[1][3:] if f[1].startswith("ok ") else None
        return out
    res = {}
    for r in parallel(shards, work, nproc=nsh):
        res.update(r)
    return [res.get(f"h{i}") for i in range(len(hists))]


def expected(versions, total):
    """per sample, per observed channel: (expected word or None when the observed instance is not judged, vid, why)"""
    # life of every voice instance: birth time, kind, const per sample; life of every post cell (slot): birth, delay, owners
    inst, slots = {}, {}
    for k, ver in enumerate(versions):
        if ver["broken"]:
            continue
        t_end = next((v["t"] for v in versions[k + 1:] if not v["broken"]), total)
        for v in ver["voices"]:
            d = inst.setdefault(v["vid"], dict(kind=v["kind"], born=ver["t"], consts={}, nested_at=None, depth=v["depth"]))
            if v["depth"] != d["depth"]:
                d["depth"] = v["depth"]
                if d["nested_at"] is None:
                    d["nested_at"] = ver["t"]      # nested deeper: a different site; not judged from here on
            for t in range(ver["t"], t_end):
                d["consts"][t] = v["const"]
            if v.get("post"):
                sl = slots.setdefault(v["post"]["pid"], dict(born=ver["t"], d=v["post"]["d"], owner={}))
                for t in range(ver["t"], t_end):
                    sl["owner"][t] = v["vid"]
    streams = {}

    def voice_out(vid, u):
        """word the voice instance `vid` returns at sample u (None: not judged)"""
        d = inst[vid]
        if d["nested_at"] is not None and u >= d["nested_at"]:
            return None
        if vid not in streams:
            ts = sorted(d["consts"])
            streams[vid] = model_stream(d["kind"], [d["consts"][x] for x in ts])
        return streams[vid][u - d["born"]]
    out = []
    live = [v for v in versions if not v["broken"]]
    for t in range(total):
        ver = [v for v in live if v["t"] <= t][-1]
        row = []
        for vid in ver["observed"]:
            v = next(x for x in ver["voices"] if x["vid"] == vid)
            post = v.get("post")
            if not post:
                w = voice_out(vid, t)
                row.append((w, vid, inst[vid]["kind"] if w is not None else "nested"))
                continue
            # the post cell hands out what went into it d samples ago (zero before the cell existed), whoever fed it then
            sl = slots[post["pid"]]
            u = t - sl["d"]
            if u < sl["born"]:
                row.append((HALF, vid, "post-cell-still-empty"))
            else:
                w = voice_out(sl["owner"][u], u)
                row.append((w, vid, f"{post['kind']}{sl['d']}({inst[sl['owner'][u]]['kind']})" if w is not None else "nested"))
        out.append(row)
    return out, inst


def main(ctx, args):
    ctx.assumptions += [
        "programs: dsp = let c_i = voice_i(const_i) …; (c_a, c_b) with voices from a library of 8 stateful shapes that do not read `now`; "
        "a third of the voices feed a post-processing cell owned by dsp (`delay(8, voice(c), d)` or `mem(voice(c))`: a sibling site after the voice's own state); "
        "edits: insert / delete / replace (different shape; for a voice inside a post cell mostly only the voice, the cell stays and must keep its content) / nest deeper / change constant / inject a syntax error, at random swap times",
        "oracle per observed channel: the reference semantics (drv_prog) of that voice alone, fed the constants it saw since it was created (through a post cell: what went into the cell d samples earlier, whichever voice fed it then, zero before the cell existed); "
        "voices that were nested deeper are not judged (a different site)",
        "judge: (1) the runtime's samples must equal, sample by sample, the stream PREDICTED for the whole history by `Model/LiveCoding.lean: session` (reference semantics + published layouts + model of the pinned migration; drv_c07 mode `session`): any difference is a violation; "
        "(2) where the predicted stream itself departs from the per-voice oracle the history is finding F5 (the pinned diff, exactly as modelled and as the runtime just confirmed, does not carry an untouched voice or hands old words to a fresh one)",
        "WASM payloads are built as in C06 (CLI code replicated in the harness, with the new and the previous skeleton)",
    ]
    known = load_known("C07")
    if not extract(ctx):
        ctx.finish()
    proved = prove(ctx, MODULES, drivers=["drv_prog", "drv_c07"])
    if proved and ctx.tier == "thorough":
        proved = leancheck(ctx, MODULES)
    if not build_harness(ctx, bins=["c06"]):
        ctx.finish()
    total = 40 if ctx.tier == "quick" else 96
    nhist = 120 if ctx.tier == "quick" else 3000
    rng = coregen.Rng(ctx.seed * 2654435761 % (1 << 31) + 17)
    hists, cases = [], []
    if args.replay:
        r = json.load(open(args.replay))
        hists = [r["history"]]
        for h in hists:
            for v in h:
                v["touched"], v["fresh"] = set(v["touched"]), set(v["fresh"])
    else:
        for i in range(nhist):
            hists.append(voicegen.history(rng, 1 + rng.below(6), total))
    for i, h in enumerate(hists):
        srcs = [voicegen.render(v["voices"], v["observed"], v["broken"]) for v in h]
        events = [[v["t"], k] for k, v in enumerate(h) if k > 0]
        for be in ("vm", "wasm"):
            cases.append(dict(id=f"h{i}|{be}", backend=be, srcs=srcs, events=events, times=total, inputs=[], hist=i))
    res = c06mod.run_hist(cases)
    pred = predicted_streams(hists, total)
    failures, stats, nontriv, samples = [], collections.Counter(), set(), []
    f5_hits, f5_hists = 0, set()
    for c in cases:
        h = hists[c["hist"]]
        st, out = res[c["id"]]
        stats["evaluations"] += 1
        for v in h:
            stats["edit_" + v["edit"]] += 1
        if not st.startswith("ok"):
            failures.append((c, "run failed: " + st[:200], None))
            continue
        # a broken version must have been refused, every other swap accepted
        for k, v in enumerate(h):
            if k == 0:
                continue
            want = f"swap-compile-error@{v['t']}->{k}" if v["broken"] else f"swap@{v['t']}->{k}"
            if want not in st:
                failures.append((c, f"swap {k} at t={v['t']} ({v['edit']}): expected `{want}`, status `{st[:200]}`", None))
        # (1) the real runtime against the PREDICTED stream of the whole session, sample by sample: no excuse
        p = pred[c["hist"]]
        if p is None:
            failures.append((c, "the session model gives no stream for this history (evaluation error or no migration)", None))
            continue
        if out != p:
            prow, rrow = p.split(";"), out.split(";")
            t = next((i for i, (a, b) in enumerate(zip(rrow, prow)) if a != b), min(len(rrow), len(prow)))
            failures.append((c, f"the runtime's output differs from the predicted session stream at sample {t}: "
                                f"predicted {prow[t] if t < len(prow) else '-'} got {rrow[t] if t < len(rrow) else '-'}", ("pred", t)))
            stats["real_differs_from_predicted"] += 1
            continue
        stats["real_equals_predicted"] += 1
        # (2) the predicted stream against the property's expectation (every observed voice continues / starts from zero)
        exp, inst = expected(h, total)
        rows = p.split(";")
        bad = None
        for t, row in enumerate(exp):
            got = rows[t].split(",") if t < len(rows) else []
            for ch, (w, vid, kind) in enumerate(row):
                if w is None:
                    continue
                g = got[ch] if ch < len(got) else "?"
                if g != w:
                    bad = (t, ch, vid, kind, w, g)
                    break
            if bad:
                break
        if bad is None:
            if len(h) > 1:
                nontriv.add(hash(tuple(c["srcs"])) ^ hash(c["backend"]))
            if len(samples) < 3 and stats["evaluations"] % 37 == 5:
                samples.append({"backend": c["backend"], "edits": [(v["t"], v["edit"]) for v in h], "last_src": c["srcs"][-1][-400:], "samples": out[:200]})
            continue
        # the runtime does exactly what the model of the pinned migration predicts, and that is not what the property demands:
        # finding F5 (the pinned diff does not carry an untouched voice / hands old words to a fresh one)
        t, ch, vid, kind, w, g = bad
        if any(kf["id"] == "F5" for kf in known):
            f5_hits += 1
            f5_hists.add(c["hist"])
        else:
            failures.append((c, f"channel {ch} observing voice c{vid} ({kind}) at sample {t}: the property expects {w}, the runtime and the session model give {g}", bad))
    for kf in known:
        ctx.known_finding(f"{kf['id']} {kf['what']} (histories hit this run: {f5_hits} runs = {len(f5_hists)} of {len(hists)} histories x runtimes on which the predicted stream itself departs from the expectation)")
    if failures:
        failures.sort(key=lambda f: len(f[0]["srcs"]))
        c, why, bad = failures[0]
        h = hists[c["hist"]]
        rep = {"history": [dict(v, touched=sorted(v["touched"]), fresh=sorted(v["fresh"])) for v in h], "backend": c["backend"], "why": why,
               "srcs": c["srcs"], "events": c["events"], "times": c["times"], "failing_cases": len(failures)}
        ctx.violation(f"edit history on {c['backend']}: {why[:300]} — {len(failures)} failing histories; edits={[(v['t'], v['edit']) for v in h]}", rep)
    if not proved and not failures:
        ctx.violation("proof obligation broken: " + "; ".join(ctx._broken), {"stage": "prove", "theorems": ctx._broken,
                      "lake": getattr(ctx, "_lake_errors", "")}, found_input=False)
    ctx.coverage.update({
        "evaluations": stats["evaluations"],
        "distinct_nontrivial": len(nontriv),
        "rule": "random edit histories (1-6 edits at random times over %d samples) x both runtimes; every sample of the runtime compared with the predicted session stream (Lean `session`), and the predicted stream with the reference semantics of every observed voice instance; non-trivial = at least one edit" % total,
        "samples": samples or [{"note": "replay mode"}],
        "traces_validated_against_impl": stats["evaluations"],
        "failures": len(failures),
        "edit_kinds": {k: v for k, v in stats.items() if k.startswith("edit_")},
        "known_F5_histories": f5_hits,
        "known_F5_distinct_histories": len(f5_hists),
        "real_equals_predicted_session": stats["real_equals_predicted"],
        "real_differs_from_predicted_session": stats["real_differs_from_predicted"],
    })
    ctx.finish("proof")
