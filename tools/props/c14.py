"""C14 — the formatter never changes a program, loses no comment, and is idempotent (level: partial).

prove:      Props/C14.lean — theorems about the layout engine model (Model/Pretty.lean), the token-level newline rule, and the
            ported printer (Model/CstPrint.lean: content of the document = tokens + comments of the tree on the class keepsAll).
correspond: (0) the ported formatter (Lean: tokenizer + preparse + grammar + printer + layout engine) vs the real pretty_print_cst:
                rendered text equal at every (width, indent) on every text the harness formats (FNV-1a of the whole output);
            (1) model vs the real `pretty` crate on random documents x widths, compared byte for byte;
            (2) the three clauses of the statement on the REAL formatter with the REAL parser as oracle:
                corpus files, layout/comment mutations of them, generated programs; 8 widths x 2 indent sizes.
decide:     failures inside the open class-shaped findings of known_findings.jsonl -> KNOWN-FINDING; anything else -> VIOLATION.
"""
import os, sys, json, collections
from vlib import *

MODULES = ["Mimium.Props.C14"]
NCFG = 16
STATIC_KINDS = {"parse-error", "ast-changed", "not-idempotent"}


def run_docs(ctx, seed, n):
    """layout-engine model vs the real crate; returns (cases, nontrivial, problems)"""
    p = mmh("C14", ["docs", str(seed), str(n)])
    if p.returncode != 0:
        return 0, set(), [{"kind": "harness-crash", "stream": f"docs{seed}", "stderr": p.stderr[-2000:]}]
    q = driver("C14", input=p.stdout)
    if q.returncode != 0:
        return 0, set(), [{"kind": "driver-crash", "stream": f"docs{seed}", "stderr": q.stderr[-2000:]}]
    problems, nontriv, n = [], set(), 0
    for a, b in zip(p.stdout.split("\n"), q.stdout.split("\n")):
        if not a:
            continue
        n += 1
        f, g = a.split("\t"), b.split("\t")
        if g[0] != f[2]:
            problems.append({"kind": "doc", "width": int(f[0]), "tree": f[1], "impl_hex": f[2], "model_hex": g[0]})
        elif len(g) > 1 and int(g[1]) > 0:
            nontriv.add(hash((f[0], f[1])))
    return n, nontriv, problems


def run_nl(ctx, seed, n):
    """token-level newline-rule model vs the real parser (green-tree shapes / error flag)"""
    p = mmh("C14", ["nlrule", str(seed), str(n)])
    if p.returncode != 0:
        return 0, set(), 0, [{"kind": "harness-crash", "stream": f"nlrule{seed}", "stderr": p.stderr[-2000:]}]
    q = driver("C14", input=p.stdout)
    if q.returncode != 0:
        return 0, set(), 0, [{"kind": "driver-crash", "stream": f"nlrule{seed}", "stderr": q.stderr[-2000:]}]
    problems, nontriv, n, both_err = [], set(), 0, 0
    for a, b in zip(p.stdout.split("\n"), q.stdout.split("\n")):
        if not a:
            continue
        n += 1
        f, g = a.split("\t"), b.split("\t")
        real_err, mod_err = int(f[4]) > 0, (len(g) > 1 and g[1] == "1")
        if real_err != mod_err or (not real_err and f[3] != g[0]):
            problems.append({"kind": "nlrule", "classes": f[1], "nlbits": f[2], "real_shape": f[3], "real_errors": int(f[4]), "model": b})
        elif real_err:
            both_err += 1
        elif "1" in f[2]:
            nontriv.add((f[1], f[2]))
    return n, nontriv, both_err, problems


def run_port(rows, stream):
    """the tie of Model/CstPrint.lean: the harness logs, for every text it formats, the FNV-1a hash of the real output per
    (width, indent) (`origin: port` rows); the Lean driver formats the same text with the ported tokenizer + preparse + grammar +
    printer + layout engine; the hashes must be EQUAL at every configuration (`ERR` = both report a syntax error).
    returns (rows without the port rows, stats dict, problems)"""
    port = [r for r in rows if r.get("origin") == "port"]
    rest = [r for r in rows if r.get("origin") != "port"]
    st = {"texts": 0, "evals": 0, "multi_layout": 0, "err_both": 0, "leaves": 0, "keeps": 0, "not_keeps": [],
          "strict": 0, "strict_and_covered": 0, "keeps_on_covered": 0, "not_strict": [], "thm_broken": []}
    if not port:
        return rest, st, []
    lines = "".join("F\t%s\t%s\t%s\t%s\n" % (r["hex"], r["classes"], r["widths"], ",".join(f"{o[0]}:{o[1]}" for o in r["outs"])) for r in port)
    q = driver("C14", input=lines)
    ans = q.stdout.split("\n")
    problems = []
    if q.returncode != 0 or len(ans) < len(port):
        problems.append({"kind": "driver-crash", "stream": f"port/{stream}", "stderr": q.stderr[-2000:], "answered": len(ans), "asked": len(port),
                         "first_unanswered": port[min(len(ans), len(port)) - 1].get("id")})
    for r, l in zip(port, ans):
        if not l:
            continue
        f = l.split("\t")
        real = [o[2] for o in r["outs"]]
        mine = f[1].split(",") if f[0] == "ok" and len(f) > 1 else [f[0]] * len(real)
        st["texts"] += 1
        st["evals"] += len(real)
        if mine != real:
            k = next(i for i in range(len(real)) if i >= len(mine) or mine[i] != real[i])
            src = bytes.fromhex(r["hex"]).decode("utf-8", "replace") if r["hex"] != "-" else ""
            problems.append({"kind": "port", "id": r["id"], "src": src, "w": r["outs"][k][0], "ind": r["outs"][k][1],
                             "real": real[k], "model": mine[k] if k < len(mine) else None, "configs_differing": sum(1 for a, b in zip(real, mine) if a != b)})
            continue
        if f[0] != "ok":
            st["err_both"] += 1
            continue
        if len(set(real)) >= 2:
            st["multi_layout"] += 1
        if len(f) > 2:
            st["leaves"] += int(f[2])
        if len(f) > 3:
            if f[3] == "1":
                st["keeps"] += 1
            elif len(st["not_keeps"]) < 20:
                src = bytes.fromhex(r["hex"]).decode("utf-8", "replace") if r["hex"] != "-" else ""
                st["not_keeps"].append({"id": r["id"], "src": src[:300], "first_node_outside_class": f[4] if len(f) > 4 else "",
                                        "content_equals_expected": (f[5] == "1") if len(f) > 5 else None})
        if len(f) > 8:
            # C14_parsed_trees_keep_all, instance by instance: error-free + strictTree => keepsAllOn covered
            # (and => keepsAll when the tree has only covered node kinds); a text that is not strict has a lenient shape
            strict, cov, keeps_on = f[6] == "1", f[7] == "1", f[8] == "1"
            st["strict"] += strict
            st["strict_and_covered"] += strict and cov
            st["keeps_on_covered"] += keeps_on
            src = bytes.fromhex(r["hex"]).decode("utf-8", "replace") if r["hex"] != "-" else ""
            if not strict and len(st["not_strict"]) < 20:
                st["not_strict"].append({"id": r["id"], "src": src[:300]})
            if strict and (not keeps_on or (cov and f[3] != "1")):
                st["thm_broken"].append({"id": r["id"], "src": src[:2000], "keepsAll": f[3], "strict": f[6], "covered": f[7], "keepsAllOn": f[8]})
    return rest, st, problems


def attribute(row, known_by_class):
    """split the failures of one text into (known: {finding id: count}, new: [fail records])"""
    fails = row.get("fails", [])
    by_kind = collections.defaultdict(list)
    for f in fails:
        by_kind[f["kind"]].append(f)
    known, new = collections.Counter(), []
    classes = set(row.get("classes", []))
    ncfg = row.get("configs", NCFG)
    for kind, fl in by_kind.items():
        if kind == "comment-lost":
            # per lost comment: its position key `<preceding token kind>@<owning CST node>` must be one of the positions
            # that lose comments on the pinned tree; a comment lost anywhere else is a new failure
            k = known_by_class.get("comment-at-dropping-delimiter")
            # a class with `lost_positions`: the text is in the class (predicate on the input CST) and every lost comment sits at
            # one of the positions the class drops
            pos_classes = [known_by_class[c] for c in classes if c in known_by_class and "lost_positions" in known_by_class[c]]
            for f in fl:
                keys = [c.split(">")[0] for c in f.get("lost_pos", ["?"])]
                allowed = set(p for pc in pos_classes for p in pc["lost_positions"])
                if k and keys and all(c in k["positions"] for c in keys):
                    known[k["id"]] += 1
                elif pos_classes and keys and all(c in allowed for c in keys):
                    for pc in pos_classes:
                        known[pc["id"]] += 1
                else:
                    f = dict(f, new_positions=sorted(set(c for c in keys if not k or c not in k["positions"])))
                    new.append(f)
            continue
        anyk = [known_by_class[c] for c in classes if c in known_by_class and kind in known_by_class[c].get("kinds_any", [])]
        if anyk:
            for k in anyk:
                known[k["id"]] += len(fl)
            continue
        expl = [known_by_class[c] for c in classes if c in known_by_class and kind in known_by_class[c].get("kinds", [])]
        # the static defects print wrong token text whatever the layout: they explain a failure kind only if it shows
        # at every configuration of the text (a failure at some widths only is a layout problem and is NOT explained)
        if kind in STATIC_KINDS and expl and len(fl) == ncfg:
            for k in expl:
                known[k["id"]] += len(fl)
        else:
            new += fl
    return known, new


def main(ctx, args):
    ctx.assumptions += [
        "Model/CstPrint.lean is a literal port of every function of mimium-fmt/src/cst_print.rs (bodies pinned by hash, tools/cst_print.json; dispatch table re-extracted); tie = the text rendered by the Lean pipeline (ported tokenizer, preparse, grammar, printer, layout engine) equals the real pretty_print_cst output at every (width, indent) the harness uses, on every text of this run; display widths of non-ASCII tokens are taken from the crate",
        "the three clauses (same AST, comments, fixed point) are still DECIDED by running the real formatter with the real parser as oracle; the theorems cover the content clause on the class keepsAll; that the trees of the ported parser are in the class is PROVED for all token lists and all node kinds (C14_parsed_trees_keep_all: no parser error + strictTree => keepsAll; shape invariant of Model/CstGrammar.lean) and, in addition, evaluated by the driver on every parsed text of the run (an instance that contradicts the theorem is a VIOLATION)",
        "strictTree (Model/CstStrict.lean) excludes the shapes parse_cst accepts without an error although the printer has no slot for them (a comma that follows no parameter, an assignment as if-condition / then-branch / macro argument): open findings C14-stray-comma, C14-assign-in-if, C14-assign-in-macro-arg, whose witnesses are replayed first in every run",
        "Model/NewlineRule.lean is a hand port of the expression core of cst_parser.rs on token classes (atoms, infix/prefix operators, calls, field access, indexing, parens, tuples, arrays); tie = green-tree shapes compared on random token sequences with random line breaks in this run (error cases: only the error flag is compared)",
        "Model/Pretty.lean is a hand port of pretty-0.12.4 render.rs (best/fitting) restricted to Nil/Append/Group/FlatAlt/Nest/Hardline/text; tie = byte-exact comparison on random documents in this run",
        "usize arithmetic of the crate modelled on Nat (no overflow/saturation at 2^64)",
        "AST equality = simple_print of the lowered expression and Debug dump of the Program, both with spans deleted",
        "comments compared as token texts with trailing white space trimmed; 'in the same order' = the input's comment list is a subsequence of the output's",
    ]
    known = load_known("C14")
    known_by_class = {k["class"]: k for k in known if "class" in k}
    if not extract(ctx):
        ctx.finish()
    proved = prove(ctx, MODULES)
    if proved and ctx.tier == "thorough":
        proved = leancheck(ctx, MODULES)
    if not build_harness(ctx):
        ctx.finish()
    thorough = ctx.tier == "thorough"
    rows, doc_problems, other_problems = [], [], []
    doc_cases, doc_nontriv = 0, set()
    nl_cases, nl_nontriv, nl_both_err, nl_problems = 0, set(), 0, []
    port_stats, port_problems, port_not_keeps = collections.Counter(), [], []

    port_not_strict, port_thm_broken = [], []

    def take_port(rs, stream):
        rest, st, pr = run_port(rs, stream)
        port_not_keeps.extend(st.pop("not_keeps"))
        port_not_strict.extend(st.pop("not_strict"))
        port_thm_broken.extend(st.pop("thm_broken"))
        port_stats.update(st)
        port_problems.extend(pr)
        return rest
    if args.replay:
        r = json.load(open(args.replay))
        if "tree" in r:
            line = f"{r['width']}\t{r['tree']}\t{r.get('impl_hex','')}\n"
            q = driver("C14", input=line)
            # re-render with the crate is not possible from a dump; compare against the recorded bytes
            g = q.stdout.strip().split("\t")
            doc_cases = 1
            if g[0] != r.get("impl_hex"):
                doc_problems.append(dict(r, kind="doc", model_hex=g[0]))
        elif "src" in r:
            d = {"id": r.get("id", "replay"), "origin": "replay", "src": r["src"]}
            if r.get("path"):
                d["path"] = r["path"]
            if "w" in r and "ind" in r:
                d["configs"] = [[r["w"], r["ind"]]]
            p = mmh("C14", ["texts"], input=json.dumps(d) + "\n")
            rows += take_port([json.loads(l) for l in p.stdout.split("\n") if l.strip()], "replay")
        else:
            ctx.violation("replay file names a proof obligation, nothing to re-run but the build", r, found_input=False)
    else:
        # 1. corpus of past failures + the witnesses of the open findings, always first
        texts = []
        cdir = os.path.join(VERIF, "corpus", "C14")
        if os.path.isdir(cdir):
            for fn in sorted(os.listdir(cdir)):
                if fn.endswith(".mmm"):
                    texts.append({"id": "corpus/" + fn, "origin": "corpus", "src": open(os.path.join(cdir, fn)).read()})
        for k in known:
            for i, w in enumerate(k.get("witnesses", [])):
                texts.append({"id": f"witness/{k['id']}/{i}", "origin": "witness", "src": w})
        p = mmh("C14", ["texts"], input="".join(json.dumps(t) + "\n" for t in texts))
        if p.returncode != 0:
            other_problems.append({"kind": "harness-crash", "stream": "corpus", "stderr": p.stderr[-2000:]})
        rows += take_port([json.loads(l) for l in p.stdout.split("\n") if l.strip()], "corpus")
        # 2. shipped sources + mutations, generated programs, random documents — sharded
        shards = 16 if not thorough else 32
        nmut = 6 if not thorough else 40
        ngen = 150 if not thorough else 1500
        ndocs = 12000 if not thorough else 100000
        jobs = [("files", ["files", REPO, str(k), str(shards), str(ctx.seed), str(nmut)]) for k in range(shards)]
        jobs += [("gen", ["gen", str(ctx.seed * 1000 + k), str(ngen)]) for k in range(shards)]
        jobs += [("docs", ctx.seed * 1000 + k, ndocs) for k in range(8)]
        # systematic comment insertion: one comment per token gap x {block, line} x {same line, own line}, 4 configurations
        ggen = 12 if not thorough else 150
        gmax = 4 if not thorough else 0          # gaps sampled per shipped file (0 = every gap)
        jobs += [("gaps-gen", ["gaps-gen", str(ctx.seed * 1000 + k), str(ggen)]) for k in range(shards)]
        jobs += [("gaps-files", ["gaps-files", REPO, str(k), str(shards), str(ctx.seed), str(gmax)]) for k in range(shards)]
        sys.path.insert(0, os.path.join(VERIF, "tools", "gen"))
        import coregen, re
        ncg = 4 if not thorough else 40
        for k in range(shards):
            lines = []
            for i in range(ncg):
                prog, _, _ = coregen.make_case(ctx.seed, k * ncg + i, "core")
                # (parameter annotations were an open finding class, C14-typed-param, repaired in /repo df2ca56: kept now)
                lines.append(json.dumps({"id": f"coregen/{ctx.seed}/{k * ncg + i}", "src": prog.src(coregen.Knobs(annotate=(i % 2 == 0)))}))
            jobs.append(("gaps-texts", ["gaps-texts", str(ctx.seed * 1000 + k), "24" if not thorough else "0"], "\n".join(lines) + "\n"))
        jobs += [("nlrule", ctx.seed * 1000 + k, 20000 if not thorough else 200000) for k in range(4)]

        def work(job):
            if job[0] == "docs":
                return ("docs",) + run_docs(ctx, job[1], job[2])
            if job[0] == "nlrule":
                return ("nlrule",) + run_nl(ctx, job[1], job[2])
            p = mmh("C14", job[1], input=job[2] if len(job) > 2 else None)
            if p.returncode != 0:
                return ("crash", {"kind": "harness-crash", "stream": " ".join(job[1]), "stderr": p.stderr[-2000:]})
            return ("rows",) + run_port([json.loads(l) for l in p.stdout.split("\n") if l.strip()], " ".join(job[1][:3]))
        for res in parallel(jobs, work):
            if res[0] == "docs":
                doc_cases += res[1]
                doc_nontriv |= res[2]
                doc_problems += res[3]
            elif res[0] == "nlrule":
                nl_cases += res[1]
                nl_nontriv |= res[2]
                nl_both_err += res[3]
                nl_problems += res[4]
            elif res[0] == "crash":
                other_problems.append(res[1])
            else:
                rows += res[1]
                port_not_keeps.extend(res[2].pop("not_keeps"))
                port_not_strict.extend(res[2].pop("not_strict"))
                port_thm_broken.extend(res[2].pop("thm_broken"))
                port_stats.update(res[2])
                port_problems.extend(res[3])
    # ---- decide
    stats = collections.Counter()
    known_hits = collections.Counter()
    origin_hist, class_hist, kind_hist = collections.Counter(), collections.Counter(), collections.Counter()
    new_fail = []
    samples = []
    nontrivial = set()
    pos_all, pos_lost = collections.Counter(), collections.Counter()
    for r in rows:
        o = r.get("origin", "?").split(":")[0]
        if "skip" in r:
            stats["skipped_" + r["skip"]] += 1
            continue
        if o == "gaps-summary":
            origin_hist["gap-variant"] += r["variants"]
            stats["texts"] += r["variants"]
            stats["evaluations"] += r["evaluations"]
            stats["gap_bases"] += 1
            stats["gap_sites_probed"] += r["sites_probed"]
            stats["skipped_gap-variant-invalid"] += r["variants_invalid"]
            if r["variants_two_layouts"]:
                nontrivial.add((r["id"], r["bytes"], r["variants_two_layouts"]))
                stats["gap_variants_two_layouts"] += r["variants_two_layouts"]
            pos_all.update(r["pos_all"])
            pos_lost.update(r["pos_lost"])
            continue
        if o == "gap":
            # failing variants of the systematic insertion are reported as rows of their own; they are already counted
            # (texts, evaluations, positions) in the summary row of their base text
            if r.get("fails"):
                stats["texts_failing"] += 1
                for f in r["fails"]:
                    kind_hist[f["kind"]] += 1
                kn, new = attribute(r, known_by_class)
                known_hits.update(kn)
                if new:
                    new_fail.append((r, new))
            continue
        pos_all.update(r.get("pos_all", {}))
        pos_lost.update(r.get("pos_lost", {}))
        origin_hist[o] += 1
        stats["texts"] += 1
        stats["evaluations"] += r.get("configs", 0)
        for c in r.get("classes", []):
            class_hist[c] += 1
        if r.get("distinct_outputs", 0) >= 2:
            nontrivial.add((r["id"], r["bytes"], r["ntok"]))
        stats["dup_comment_outputs"] += r.get("dup_comments", 0)
        if r.get("fails"):
            stats["texts_failing"] += 1
            for f in r["fails"]:
                kind_hist[f["kind"]] += 1
            kn, new = attribute(r, known_by_class)
            known_hits.update(kn)
            if new:
                new_fail.append((r, new))
            if o == "witness" and not new:
                stats["witness_reproduced"] += 1
        else:
            if o == "witness":
                ctx.notes.append(f"witness {r['id']} no longer fails — finding may be fixed; update known_findings.jsonl")
            if len(samples) < 6 and r.get("distinct_outputs", 0) >= 3 and stats["texts"] % 37 == 5:
                samples.append({k: r[k] for k in ("id", "origin", "bytes", "ntok", "ncom", "distinct_outputs", "configs")})
    for pr in other_problems:
        ctx.violation(f"{pr['kind']} in stream {pr.get('stream')}", pr, found_input=False)
    if new_fail:
        # smallest failing text first; its replay carries the text and the first failing configuration
        new_fail.sort(key=lambda x: len(x[0].get("src", "")))
        r, new = new_fail[0]
        f = new[0]
        what = (f"formatter fails C14 clause '{f['kind']}' at width={f['w']} indent={f['ind']} on {r['id']} ({r['origin']}): {f['detail'][:300]}; "
                f"{len(new_fail)} failing texts outside the known classes")
        ctx.violation(what, {"id": r["id"], "origin": r["origin"], "src": r.get("src", ""), "path": r.get("path"), "w": f["w"], "ind": f["ind"],
                             "kind": f["kind"], "detail": f["detail"], "classes": r.get("classes", []),
                             "all_new_failures_of_this_text": new[:20], "failing_texts": len(new_fail),
                             "other_failing_ids": [x[0]["id"] for x in new_fail[1:30]],
                             "replay_cmd": "./check C14 --replay <this file>"})
    if doc_problems:
        best = min(doc_problems, key=lambda d: len(d["tree"]))
        ctx.violation(f"layout model and the pretty crate disagree on {len(doc_problems)} documents (smallest: width={best['width']} tree={best['tree'][:200]}); "
                      "the content-invariance theorems no longer speak about the crate in use",
                      dict(best, correspondence="Model/Pretty.lean vs pretty crate", cases=len(doc_problems)), found_input=False)
    for pr in [p for p in port_problems if p["kind"] != "port"]:
        ctx.violation(f"{pr['kind']} in stream {pr.get('stream')}", pr, found_input=False)
    port_dis = [p for p in port_problems if p["kind"] == "port"]
    if port_dis:
        best = min(port_dis, key=lambda d: len(d["src"]))
        ctx.violation(f"ported printer (Model/CstPrint.lean) and the real pretty_print_cst disagree on {len(port_dis)} texts (smallest: {best['id']} at width={best['w']} "
                      f"indent={best['ind']}); the C14_format_* theorems no longer speak about the formatter in use",
                      dict(best, correspondence="Model/CstPrint.lean vs mimium-fmt cst_print.rs (rendered text, FNV-1a)", cases=len(port_dis),
                           other_ids=[d["id"] for d in port_dis[:30]], replay_cmd="./check C14 --replay <this file>"), found_input=False)
    crashes = [p for p in nl_problems if p["kind"] != "nlrule"]
    for pr in crashes:
        ctx.violation(f"{pr['kind']} in stream {pr.get('stream')}", pr, found_input=False)
    nl_dis = [p for p in nl_problems if p["kind"] == "nlrule"]
    if nl_dis:
        best = min(nl_dis, key=lambda d: len(d["classes"]))
        ctx.violation(f"newline-rule model and the real parser disagree on {len(nl_dis)} token sequences (smallest: {best['classes']} breaks {best['nlbits']}); "
                      "the newline-rule theorems no longer speak about the parser in use",
                      dict(best, correspondence="Model/NewlineRule.lean vs cst_parser.rs", cases=len(nl_dis)), found_input=False)
    if not proved and not new_fail:
        ctx.violation("proof obligation broken: " + "; ".join(ctx._broken), {"stage": "prove", "theorems": ctx._broken,
                      "lake": getattr(ctx, "_lake_errors", "")}, found_input=False)
    f14 = known_by_class.get("comment-at-dropping-delimiter")
    if f14 and not args.replay:
        kept = sorted(k for k in f14["positions"] if pos_all.get(k, 0) > 0 and pos_lost.get(k, 0) < pos_all[k])
        unseen = sorted(k for k in f14["positions"] if pos_all.get(k, 0) == 0)
        if kept:
            ctx.notes.append("positions listed in F14 where some comment was KEPT this run (class may be narrowed): " + ", ".join(kept))
        if unseen:
            ctx.notes.append("positions listed in F14 not exercised this run: " + ", ".join(unseen))
    if port_thm_broken:
        best = min(port_thm_broken, key=lambda d: len(d["src"]))
        ctx.violation(f"the model contradicts C14_parsed_trees_keep_all on {len(port_thm_broken)} texts (smallest: {best['id']}): error-free, strictTree, "
                      "but a covered node fails its ok test — the theorem is proved for all inputs, so the driver and the proved model have diverged",
                      dict(best, cases=len(port_thm_broken)), found_input=False)
    if port_not_strict and not args.replay:
        ctx.notes.append("error-free texts with a lenient CST shape (strictTree = false; they belong to the findings C14-stray-comma / -assign-in-if / -assign-in-macro-arg): " +
                         ", ".join(sorted(set(d["id"] for d in port_not_strict))[:12]))
    if port_not_keeps and not args.replay:
        ctx.notes.append("texts outside the class keepsAll (the model predicts dropped content; all must belong to a known finding class): " +
                         ", ".join(sorted(set(d["id"] for d in port_not_keeps))[:12]))
    for k in known:
        n = known_hits.get(k["id"], 0)
        if n or args.replay is None:
            ctx.known_finding(f"{k['id']} [{k.get('class','')}] {k['what']} (failing (text,config) pairs attributed this run: {n})")
    ctx.coverage.update({
        "evaluations": stats["evaluations"] + doc_cases + nl_cases + port_stats["evals"],
        "distinct_nontrivial": len(nontrivial) + len(doc_nontriv) + len(nl_nontriv),
        "rule": "printer-port cases: one evaluation = one (source text, width, indent) formatted by the real formatter and by the Lean port, outputs compared exactly; program cases: one evaluation = one (source text, width, indent) with all four checks (parse, AST, comments, fixed point); gap-insertion variants (one comment in one token gap of a class-free text, 4 kinds) count as texts with 4 configurations each; "
                "non-trivial = the text was formatted to at least two different outputs across the 16 configurations (layout really depends on width/indent), distinct by id; "
                "parser cases: one evaluation = one (token-class sequence, line-break placement) parsed by the real parser and the newline-rule model, non-trivial = error-free with at least one line break, distinct by (classes, breaks); "
                "document cases: one evaluation = one (document, width) rendered by the real crate and the model; non-trivial = output contains a line break, distinct by (width, tree)",
        "samples": samples or [{"note": "replay mode"}],
        "traces_validated_against_impl": doc_cases + nl_cases + port_stats["evals"],
        "model_impl_disagreements": len(doc_problems) + len(nl_dis) + len(port_dis),
        "printer_port": {"texts_formatted_by_both": port_stats["texts"], "text_x_config_compared": port_stats["evals"],
                         "texts_with_two_layouts": port_stats["multi_layout"], "both_report_syntax_error": port_stats["err_both"],
                         "disagreements": len(port_dis), "text_leaves_printed(model)": port_stats["leaves"],
                         "texts_in_class_keepsAll": port_stats["keeps"], "texts_outside_keepsAll(sample)": port_not_keeps[:5],
                         "texts_strictTree": port_stats["strict"], "texts_strictTree_and_only_covered_kinds": port_stats["strict_and_covered"],
                         "texts_keepsAllOn_covered": port_stats["keeps_on_covered"], "texts_not_strict(sample)": port_not_strict[:6],
                         "instances_contradicting_C14_parsed_trees_keep_all": len(port_thm_broken),
                         "comparison": "FNV-1a of the whole output text, every (width, indent) the harness formats the text at"},
        "parser_cases": nl_cases, "parser_cases_nontrivial": len(nl_nontriv), "parser_cases_both_report_errors": nl_both_err,
        "impl_property_failures": stats["texts_failing"],
        "impl_property_failures_outside_known_classes": len(new_fail),
        "program_texts": stats["texts"],
        "program_evaluations": stats["evaluations"],
        "program_texts_nontrivial": len(nontrivial),
        "document_cases": doc_cases,
        "document_cases_nontrivial": len(doc_nontriv),
        "widths": [1, 8, 20, 40, 50, 80, 120, 1000000], "indents": [2, 4],
        "gap_insertion": {"base_texts": stats["gap_bases"], "gaps_probed": stats["gap_sites_probed"], "variants_with_two_layouts": stats["gap_variants_two_layouts"],
                          "configs": [[1, 2], [20, 4], [80, 4], [1000000, 2]]},
        "comment_positions(lost/total)": {k: f"{pos_lost.get(k, 0)}/{v}" for k, v in sorted(pos_all.items()) if v > 0},
        "input_distribution": {"origin": dict(origin_hist), "texts_in_known_classes": dict(class_hist),
                               "failure_kinds(text,config)": dict(kind_hist),
                               "skipped": {k[8:]: v for k, v in stats.items() if k.startswith("skipped_")},
                               "outputs_with_duplicated_comments": stats["dup_comment_outputs"],
                               "known_finding_hits": dict(known_hits)},
    })
    ctx.finish("proof")
