"""C19 — concurrent compilations do not interfere (shares corpus, generator and interner correspondence with c15.py)."""
import os, json, glob, collections, random, time
from vlib import *
import c15

MODULES = ["Mimium.Props.C19"]


def parse(stdout):
    recs = collections.defaultdict(list)
    for l in stdout.split("\n"):
        if l.startswith("@@"):
            f = l[2:].split("\t")
            recs[f[0]].append(f)
    return recs


def fields_of(digests):
    return dict(x.split("=", 1) for x in digests if "=" in x)


def solo_refs(paths):
    """reference of a job = the same source compiled and run ALONE in a FRESH process (in-process history is exactly what
    an order-by-interner-id bug exploits, so an in-process reference would hide it)"""
    out = {}
    for f, dt, recs in c15.measure_costs(paths):
        if recs:
            out[f] = {"status": recs[0][4], "nontrivial": recs[0][6] == "1", "fields": fields_of(recs[0][7:]), "cost": dt}
    return out


def run_round(job):
    """one process, K threads; every job result is compared with its fresh-process solo reference"""
    name, k, paths, lists, jitter, timeout, refs = job
    dump = os.path.join(c15.WORK, "C19dump", name)
    a = ["jobs", "--noref", "1", "--timeout", str(timeout), "--jitter", str(jitter), "--dump", dump, "--paths", ",".join(paths)]
    for l in lists:
        a += ["--thread", ",".join(map(str, l))]
    t0 = time.time()
    base = {"round": name, "threads": k, "paths": paths, "lists": lists, "jitter": jitter}
    try:
        p = mmh("C19", a, timeout=timeout + 120)
    except Exception as e:
        return {"name": name, "k": k, "jobs": 0, "problems": [dict(base, kind="watchdog-timeout(deadlock?)", err=str(e)[:200])],
                "wall": time.time() - t0, "nontrivial": set(), "crossed": 0}
    r = parse(p.stdout)
    res = {"name": name, "k": k, "jobs": len(r["J"]), "problems": [], "wall": time.time() - t0, "nontrivial": set(), "crossed": 0}
    if r["DEADLOCK"]:
        res["problems"].append(dict(base, kind="deadlock", unfinished_threads=r["DEADLOCK"][0][1:]))
    elif r["DIED"] or p.returncode != 0 or not r["DONE"]:
        res["problems"].append(dict(base, kind="thread-died-or-crash", rc=p.returncode, stderr=p.stderr[-600:]))
    expect = sum(len(l) for l in lists)
    if not res["problems"] and len(r["J"]) != expect:
        res["problems"].append(dict(base, kind="missing-results", got=len(r["J"]), expected=expect))
    for f in r["J"]:
        # J, thread, job, path, same, status, differing, nontrivial, digests...
        path, status, got = f[3], f[5], fields_of(f[8:])
        ref = refs.get(path)
        if ref is None:
            continue
        if ref["nontrivial"]:
            res["nontrivial"].add(path)
        if os.sep + "C19gen" + os.sep in path:
            res["crossed"] += 1
        diff = [k2 for k2 in ref["fields"] if got.get(k2) != ref["fields"][k2]]
        if status != ref["status"]:
            diff.append("status")
        if diff:
            res["problems"].append(dict(base, kind="interference", thread=int(f[1]), job=int(f[2]), target=path, status=status,
                                        solo_status=ref["status"], differs_in=diff,
                                        dump=os.path.join(dump, f"t{f[1]}.j{f[2]}.{paths.index(path)}")))
    return res


# ---------------------------------------------------------------------------------------------------------------
# jobs that share FRESH identifiers and mention them in crossed orders

def crossed_pair(kind, tag):
    """two programs A, B. A writes its record/constructor names (a < z) in alphabetical order but mentions B's names (y, b)
    first in the opposite order, and vice versa: whichever thread interns first, the other job sees its own names with ids
    in non-alphabetical order. Alone in a fresh process each job interns its own names in the order it writes them."""
    n = lambda x: f"{x}_{tag}"
    a, b, y, z = n("alpha"), n("beta"), n("yota"), n("zeta")
    cap = lambda x: "C" + x

    def prog(p1, p2, r1, r2, k):
        pre = f"fn pre({p1},{p2}){{ {p1} - {p2} }}\n"
        if kind == "closure":      # record holding a closure next to a wider field, returned from a function
            return pre + f"fn mk(n){{ {{{r1} = |x| x + n, {r2} = (10.0, 20.0)}} }}\nfn dsp(){{\n  let r = mk({k}.0)\n  r.{r1}(1.0)*100.0 + r.{r2}.1 + pre(3.0,3.0)\n}}\n"
        if kind == "diag":         # type mismatch whose message prints the record type
            return pre + f"fn dsp(){{\n  let r:float = {{{r1} = 1.0, {r2} = 2.0}}\n  r + pre(3.0,3.0)\n}}\n"
        if kind == "annot":        # annotated record type + literal + destructuring
            return pre + f"type alias R = {{{r1}:float, {r2}:(float,float)}}\nfn dsp(){{\n  let x:R = {{{r1} = {k}.0, {r2} = (2.0, 3.0)}}\n  let {{{r1} = u, {r2} = v}} = x\n  u * 100.0 + v.1 + x.{r2}.0 + pre(3.0,3.0)\n}}\n"
        if kind == "stateful":     # stateful field initialisers: slot order shows in the state layout
            return pre + f"fn cnt(inc){{ self + inc }}\nfn dsp(){{\n  let r = {{{r1} = delay(4.0, cnt(1.0), 2.0), {r2} = cnt({k}.0)}}\n  r.{r1} * 1000.0 + r.{r2} + pre(3.0,3.0)\n}}\n"
        if kind == "ctor":         # constructors of a sum type
            return (f"type P = {cap(p1)}(float) | {cap(p2)}\n" + f"type T = {cap(r1)}(float) | {cap(r2)}((float,float)) | Other\n"
                    f"fn f(e:T){{\n  match e {{\n    {cap(r1)}(v) => v * 2.0,\n    {cap(r2)}((u,w)) => u + w,\n    Other => 0.0\n  }}\n}}\n"
                    f"fn dsp(){{\n  f({cap(r1)}({k}.0)) * 100.0 + f({cap(r2)}((1.0,2.0))) + f(Other)\n}}\n")
        if kind == "tparam":       # explicit type parameters + module members
            return (pre + f"fn pick(u:{r1}, w:{r2}) -> {r2} {{ w }}\nmod m_{tag} {{\n  pub fn {r1}(x){{ x + 1.0 }}\n  pub fn {r2}(x){{ x * 2.0 }}\n}}\n"
                    f"fn dsp(){{\n  pick(1.0, {k}.0) + m_{tag}::{r2}(2.0) + m_{tag}::{r1}(3.0) + pre(3.0,3.0)\n}}\n")
        if kind == "staged":
            # staged code: A destructures a NESTED tuple pattern inside quoted code (translate_staging invents temporaries
            # for the sub-patterns), B a flat one — any state the macro stage shares between compiling threads shows here
            if k == 5:
                return (f"#stage(macro)\nfn mk_{tag}(x){{\n  `{{ let (({r1}, {r2}), ({p1}, {p2})) = (($x, 2.0), (3.0, {k}.0))\n"
                        f"     {r1}*1000.0 + {r2}*100.0 + {p1}*10.0 + {p2} }}\n}}\n#stage(main)\n" + pre +
                        f"fn dsp(){{\n  mk_{tag}!(`1.0) + pre(3.0,3.0)\n}}\n")
            return (f"#stage(macro)\nfn mk_{tag}(x){{\n  `{{ let ({r1}, {r2}) = ($x, {k}.0)\n     {r1}*10.0 + {r2} }}\n}}\n#stage(main)\n" + pre +
                    f"fn dsp(){{\n  mk_{tag}!(`1.0) + pre(3.0,3.0)\n}}\n")
        raise ValueError(kind)
    return [prog(y, b, a, z, 5), prog(z, a, b, y, 7)]


def garbled_symbol_text(p):
    """class predicate of finding F8: the job's concurrent diagnostics name a file / variable whose text is not an
    identifier of the job's own source (NUL / U+FFFD bytes, or a `File <dir>/<stem>.mmm not found` with a foreign stem):
    the name was read through a dangling `Symbol::as_str` slice after another thread's interning moved the buffer"""
    import re
    if p.get("solo_status") != "ok" or p.get("status") == "ok":
        return False
    q = p.get("dump", "") + ".diag"
    if not os.path.exists(q):
        return False
    diag = open(q, errors="replace").read()
    if "\x00" in diag or "\ufffd" in diag:
        return True
    try:
        ids = set(c15.identifiers(open(p["target"], errors="replace").read()))
    except OSError:
        return False
    for m in re.finditer(r"File (\S*?)\.mmm not found", diag):
        if os.path.basename(m.group(1)) not in ids:
            return True
    return False


def asstr_probe():
    """F8 witness without reading freed memory: how often does the text of a symbol MOVE while an `as_str()` slice is held"""
    try:
        p = mmh("C19", ["asstr", "8", "300"], timeout=120)
        r = parse(p.stdout)["ASSTR"]
        if r:
            return {"checks": int(r[0][1]), "slices_left_dangling": int(r[0][2]), "first": r[0][3] if len(r[0]) > 3 else ""}
        return {"crashed_rc": p.returncode}
    except Exception as e:
        return {"error": str(e)[:200]}


def report_probe(k, rounds):
    """rendered diagnostics (`utils::error::report`, process-wide path-keyed source cache): K threads report different
    in-memory programs under ONE path; every diagnostic block must equal one the same job prints alone"""
    try:
        scratch = os.path.join(c15.WORK, "c19_report_%d.txt" % os.getpid())
        os.makedirs(c15.WORK, exist_ok=True)
        p = mmh("C19", ["report", str(k), str(rounds), scratch], timeout=300)
        r = parse(p.stdout)["REPORT"]
        if r:
            f = r[0]
            return {"threads": k, "rounds": rounds, "blocks": int(f[1]), "bad": int(f[2]), "lost_or_extra": int(f[3]),
                    "first_bad": f[4].replace("\\n", "\n") if len(f) > 4 else "", "same_job_alone": f[5].replace("\\n", "\n") if len(f) > 5 else "",
                    "blocks_alone": int(f[6]) if len(f) > 6 and f[6].isdigit() else None}
        return {"crashed_rc": p.returncode}
    except Exception as e:
        return {"error": str(e)[:200]}


KINDS = ["closure", "diag", "annot", "stateful", "ctor", "tparam", "staged"]


def crossed_round(r, name, k, regular, steps, jitter, timeout):
    """K threads; in each of the first `steps` positions the threads 2g, 2g+1 run the two programs of a fresh crossed pair"""
    d = os.path.join(c15.WORK, "C19gen", name)
    os.makedirs(d, exist_ok=True)
    paths, lists = [], [[] for _ in range(k)]
    for st in range(steps):
        for g in range(max(1, k // 2)):
            kind = KINDS[(st * 7 + g + r.randrange(len(KINDS))) % len(KINDS)]
            tag = f"{name.replace('-', '_')}_s{st}g{g}"
            for i, src in enumerate(crossed_pair(kind, tag)):
                p = os.path.join(d, f"{kind}_{tag}_{'AB'[i]}.mmm")
                if not os.path.exists(p) or open(p).read() != src:
                    open(p, "w").write(src)
                paths.append(p)
                t = 2 * g + i
                if t < k:
                    lists[t].append(len(paths) - 1)
    reg = r.sample(regular, min(len(regular), 4))
    for f in reg:
        paths.append(f)
    for t in range(k):
        lists[t] += [len(paths) - len(reg) + ((t + j) % len(reg)) for j in range(2)] if reg else []
    return (name, k, paths, lists, jitter, timeout)


def stress_round(name, k, per_thread, jitter, timeout):
    """k threads, each compiling `per_thread` staged programs in a row: even threads the nested-pattern program of a
    `staged` pair, odd threads the flat one (fresh identifiers per position)"""
    d = os.path.join(c15.WORK, "C19gen", name)
    os.makedirs(d, exist_ok=True)
    paths, lists = [], [[] for _ in range(k)]
    for j in range(per_thread):
        for g in range(max(1, k // 2)):
            tag = f"{name.replace('-', '_')}_j{j}g{g}"
            for i, src in enumerate(crossed_pair("staged", tag)):
                p = os.path.join(d, f"staged_{tag}_{'AB'[i]}.mmm")
                if not os.path.exists(p) or open(p).read() != src:
                    open(p, "w").write(src)
                paths.append(p)
                if 2 * g + i < k:
                    lists[2 * g + i].append(len(paths) - 1)
    return (name, k, paths, lists, jitter, timeout)


def make_round(r, name, k, pool, per_thread, jitter, timeout):
    paths = r.sample(pool, min(len(pool), max(4, k)))
    lists = []
    mode = r.choice(["identical", "distinct", "mixed"])
    for t in range(k):
        if mode == "identical":
            lists.append([j % len(paths) for j in range(per_thread)])
        elif mode == "distinct":
            lists.append([(t + j * k) % len(paths) for j in range(per_thread)])
        else:
            lists.append([r.randrange(len(paths)) for _ in range(per_thread)])
    return (f"{name}-{mode}", k, paths, lists, jitter, timeout)


def pathless_pairs(ctx, quick):
    """in-memory sources (no file path: REPL line, editor buffer, web playground) that share a textual HEAD and use the variables bound in
    it at different types afterwards, compiled by four threads at once, 100 (thorough 400) jobs each, alternating; reference = the same
    source compiled alone on the main thread of that process with the same (absent) path.  Seeded C19d shared the slot of a located
    childless type between two stores of `the same` (type, location) pair and forgot type variables, whose equality only compares the
    per-compilation number: two inferences then bound each other's variable (a diagnostic of the other thread's program)."""
    d = os.path.join(c15.WORK, "C19pathless")
    os.makedirs(d, exist_ok=True)
    pairs = []
    for width in ((6, 24, 60) if quick else (2, 6, 12, 24, 40, 60, 90)):
        tup = "(" + ",".join(["a"] * width) + ")"
        head = f"fn inc(x){{\n    x+1.0\n}}\nfn dbl(x){{\n    x*2.0\n}}\nfn mix(a){{\n    let t0 = {tup}\n    let t1 = {tup}\n"
        pairs.append((f"w{width}n", head + "    a+1.0\n}\nfn dsp(){\n    mix(2.0)\n}\n", f"w{width}f", head + "    a(5.0)\n}\nfn dsp(){\n    mix(dbl)\n}\n"))
        tup2 = "(" + ",".join(["x", "y"] * (width // 2)) + ")"
        head2 = f"fn twice(f, v){{\n    f(f(v))\n}}\nfn pick(x, y){{\n    let u = {tup2}\n"
        pairs.append((f"p{width}n", head2 + "    x + y\n}\nfn dsp(){\n    pick(1.0, 2.0)\n}\n", f"p{width}f", head2 + "    x(y)\n}\nfn inc(z){\n    z+1.0\n}\nfn dsp(){\n    pick(inc, 2.0)\n}\n"))
    st = {"pairs": len(pairs), "jobs": 0, "differ": 0, "rounds_failed": 0}
    bad = []
    njobs = 100 if quick else 400
    for na, sa, nb, sb in pairs:
        pa, pb = os.path.join(d, na + ".mmm"), os.path.join(d, nb + ".mmm")
        open(pa, "w").write(sa)
        open(pb, "w").write(sb)
        a = ["jobs", "--nopath", "1", "--timeout", "300", "--jitter", "0", "--paths", pa + "," + pb]
        for t in range(4):
            a += ["--thread", ",".join(str((t + j) % 2) for j in range(njobs))]
        try:
            p = mmh("C19", a, timeout=420)
        except Exception as e:
            st["rounds_failed"] += 1
            bad.append({"pair": [na, nb], "kind": "watchdog-timeout(deadlock?)", "err": str(e)[:200], "sources": {na: sa, nb: sb}})
            continue
        r = parse(p.stdout)
        if r["DEADLOCK"] or r["DIED"] or p.returncode != 0 or not r["DONE"]:
            st["rounds_failed"] += 1
            bad.append({"pair": [na, nb], "kind": "deadlock-or-crash", "rc": p.returncode, "stderr": p.stderr[-400:], "sources": {na: sa, nb: sb}})
            continue
        for f in r["J"]:
            st["jobs"] += 1
            if f[4] == "0":
                st["differ"] += 1
                if len(bad) < 3 or not any(b.get("pair") == [na, nb] for b in bad):
                    bad.append({"pair": [na, nb], "kind": "interference", "thread": f[1], "job": f[2], "target": f[3], "status": f[5],
                                "differs_in": f[6], "sources": {na: sa, nb: sb}})
    return st, bad


def main(ctx, args):
    ctx.assumptions += [
        "Model/Interner.lean models the PROTOCOL of interner.rs (every API call one atomic step on append-only tables); the compiler proper is not modelled",
        "threads obtain ids only as results of their own earlier calls (handles)",
        "real schedules are SAMPLED (OS scheduler, K in {2,4,8,16}, barrier start + seeded jitter), not enumerated; the theorems quantify over all schedules of the model only",
        "type-variable cells (Arc<RwLock<TypeVar>>) are per compilation and not modelled; Symbol::as_str lifetime extension: modelled as slices into the interner's buckets (C19_as_str_slices_stay_valid), the backend pinned by the translator and probed on the real interner (`c19 asstr`)",
        "each thread's result is compared with the result of the same source compiled alone in a fresh process (all artefacts of C15: diagnostics, bytecode, WASM, MIR, skeleton, 32 VM samples, Rust) as they come: raw MIR / ext-table listings and the order of diagnostics included (C15's F17 / F19 / F20 are repaired)",
    ]
    known = load_known("C19")
    if not extract(ctx):
        ctx.finish()
    proved = prove(ctx, MODULES)
    if proved and ctx.tier == "thorough":
        proved = leancheck(ctx, MODULES)
    if not build_harness(ctx):
        ctx.finish()
    quick = ctx.tier == "quick"
    r = random.Random(ctx.seed * 7 + 19)
    t0 = time.time()
    problems, rounds = [], []
    if args.replay:
        rp = json.load(open(args.replay))
        if "lists" in rp:
            for path, src in rp.get("sources", {}).items():   # generated jobs are part of the replay
                if not os.path.exists(path):
                    os.makedirs(os.path.dirname(path), exist_ok=True)
                    open(path, "w").write(src)
            refs = solo_refs(sorted(set(rp["paths"])))
            for rep in range(6):
                res = run_round((rp.get("round", "replay") + f"-r{rep}", rp["threads"], rp["paths"], rp["lists"], rp.get("jitter", 1) + rep, 300, refs))
                rounds.append(res)
                problems += res["problems"]
        icorr = c15.interner_correspondence("C19", ctx.seed, 1, 4, threaded=True)
    else:
        files = c15.corpus_files() + c15.generated_files(ctx.seed, 40 if quick else 200)
        files += sorted(glob.glob(os.path.join(VERIF, "corpus", "C19", "*.mmm")) + glob.glob(os.path.join(VERIF, "corpus", "C15", "s_*.mmm")))
        refs = solo_refs(files)          # every source alone in a fresh process
        cheap = sorted([f for f in files if f in refs and refs[f]["cost"] < 0.25], key=c15.weight, reverse=True)
        heavy = [f for f in files if f in refs and 0.25 <= refs[f]["cost"] < 3.0]
        jobs = []
        nrounds = 3 if quick else 12
        ncross = 6 if quick else 24
        for k in (2, 4, 8, 16):
            for i in range(nrounds):
                per = (24 if quick else 60) // max(1, k // 4) if k > 4 else (24 if quick else 60)
                jobs.append(make_round(r, f"K{k}-{i}", k, cheap, per, ctx.seed * 131 + k * 17 + i, 240))
            jobs.append(make_round(r, f"K{k}-heavy", k, heavy or cheap, 2 if quick else 4, ctx.seed + k, 600))
            for i in range(ncross):
                jobs.append(crossed_round(r, f"X{ctx.seed}K{k}-{i}", k, cheap[:60], 3, ctx.seed * 977 + k * 31 + i, 240))
        if getattr(ctx, "_pending_obligation", None) or not quick:
            # the translator found shared state outside the reviewed inventory (or: thorough tier): search harder for a failing
            # input with rounds in which EVERY thread keeps compiling staged programs (nested / flat tuple patterns in quoted
            # code: temporaries, counters and caches of the macro stage are exercised back to back on all threads)
            for i in range(6 if quick else 4):
                jobs.append(stress_round(f"S{ctx.seed}-{i}", 16, 24, ctx.seed * 7 + i, 600))
        gen_paths = sorted(set(p for j in jobs for p in j[2] if p not in refs))
        refs.update(solo_refs(gen_paths))
        jobs = [j + (refs,) for j in jobs]
        # rounds are themselves run a few at a time (each is a multi-threaded process)
        rounds = parallel(jobs, run_round, nproc=3)
        for res in rounds:
            problems += res["problems"]
        icorr = c15.interner_correspondence("C19", ctx.seed, 8 if quick else 32, 30 if quick else 150, threaded=True)
        ctx.coverage["fresh_process_solo_references"] = len(refs)
    ctx.coverage["concurrent_wall_s"] = round(time.time() - t0, 1)
    # ---- decide
    inter = [p for p in problems if p["kind"] == "interference"]
    other = [p for p in problems if p["kind"] != "interference"]
    f8 = next((k for k in known if k.get("class") == "garbled-symbol-text"), None)
    f8_hits = [p for p in inter if f8 and garbled_symbol_text(p)]
    real = [p for p in inter if p not in f8_hits]
    probe = asstr_probe()
    ctx.coverage["as_str_slice_probe(F8)"] = probe
    if f8:
        ctx.known_finding(f"{f8['id']} {f8['what']} (jobs hit this run: {len(f8_hits)}; probe: {probe.get('slices_left_dangling')} of {probe.get('checks')} held slices left dangling)")
        for p in f8_hits[:2]:
            ctx.notes.append({"F8_case": {k2: p[k2] for k2 in ("round", "threads", "thread", "job", "target", "differs_in")},
                              "diag": open(p["dump"] + ".diag", errors="replace").read()[:300]})
    elif probe.get("slices_left_dangling"):
        # F8 is repaired in /repo (bucket backend: interned text never moves). A slice whose text moved is the defect back:
        # a compilation that holds `sym.as_str()` across another thread's interning reads freed memory
        ctx.violation("a `Symbol::as_str` slice is left dangling by concurrent interning: " + probe.get("first", "")[:200],
                      dict(probe, kind="as_str-slice-dangles", threads=8, rounds=300, replay_cmd="target/debug/c19 asstr 8 300",
                           what_to_look_at="third column of the @@ASSTR line = held slices whose text moved"))
    pst, pbad = pathless_pairs(ctx, quick)
    ctx.coverage["in_memory_sources_with_a_common_head"] = pst
    if pbad:
        b = pbad[0]
        ctx.violation(f"{pst['differ']} of {pst['jobs']} concurrent compilations of in-memory sources that share a textual head got another result than the same "
                      f"source compiled alone ({b['kind']}; pair {b['pair']}, differs in {b.get('differs_in', '?')})",
                      dict(b, kind2="pathless-common-head", failing=len(pbad), replay_cmd="target/debug/c19 jobs --nopath 1 --paths A,B --thread 0,1,0,1,… ×4"))
    # rendered diagnostics under one path (more rounds in the thorough tier and whenever a proof obligation of C19 is broken)
    heavy = (not quick) or bool(getattr(ctx, "_pending_obligation", None)) or not proved
    reps = [report_probe(4, 60), report_probe(8, 40)] + ([report_probe(16, 300), report_probe(4, 1500)] if heavy else [])
    ctx.coverage["rendered_diagnostics_same_path"] = [{k2: v for k2, v in rp.items() if k2 not in ("first_bad", "same_job_alone")} for rp in reps]
    for rp in reps:
        if rp.get("bad") or rp.get("lost_or_extra") or "crashed_rc" in rp or "error" in rp or not rp.get("blocks"):
            ctx.violation(f"{rp.get('bad')} of {rp.get('blocks')} diagnostics rendered by `report` while {rp.get('threads')} threads report different programs under one "
                          f"path differ from what the same job prints alone ({rp.get('lost_or_extra')} lost/extra): " + (rp.get("first_bad") or str(rp))[:300],
                          dict(rp, kind="rendered-diagnostic-from-another-threads-program", replay_cmd=f"target/debug/c19 report {rp.get('threads')} {rp.get('rounds')} /tmp/x.txt",
                               what_to_look_at="third column of the @@REPORT line = diagnostic blocks that differ from the blocks of the same job alone"))
            break
    if real:
        best = min(real, key=lambda p: os.path.getsize(p["target"]) if os.path.exists(p["target"]) else 1 << 30)
        srcs = {q: open(q, errors="replace").read() for q in best["paths"] if os.sep + "C19gen" + os.sep in q and os.path.exists(q)}
        shown = {}
        for fld in ("diag", "out", "bc"):      # what the job saw, next to what it sees alone
            q = best.get("dump", "") + "." + fld
            if fld in best["differs_in"] + ["diag"] and os.path.exists(q):
                shown[fld + "_concurrent"] = open(q, errors="replace").read()[:600]
        solo_dump = os.path.join(c15.WORK, "C19dump", "solo")
        c15.run_seq(["T:" + best["target"]], "solo", dump=solo_dump)
        for fld in ("diag", "out", "bc"):
            q = os.path.join(solo_dump, f"solo.0.{fld}")
            if fld + "_concurrent" in shown and os.path.exists(q):
                shown[fld + "_alone_in_fresh_process"] = open(q, errors="replace").read()[:600]
        best = dict(best, source=open(best["target"], errors="replace").read()[:3000] if os.path.exists(best["target"]) else None,
                    sources=srcs, observed=shown,
                    replay_cmd="./check C19 --replay <this file>", interfering_cases=len(real),
                    interfering_targets=sorted(set(os.path.basename(p["target"]) for p in real))[:20])
        ctx.violation(f"thread {best['thread']} of {best['threads']} got a different {best['differs_in']} for {best['target']} than the same job alone in a fresh process ({len(real)} cases)", best)
    for p in other[:3]:
        ctx.violation(f"{p['kind']} with {p.get('threads')} threads (round {p.get('round')})", dict(p, replay_cmd="./check C19 --replay <this file>"),
                      found_input=p["kind"] in ("deadlock", "thread-died-or-crash", "watchdog-timeout(deadlock?)"))
    for p in icorr["problems"][:3]:
        ctx.violation("real threads over the real interner do not match the model's solo runs up to renaming: " + p.get("schedule", p["kind"])[:160],
                      dict(p, correspondence="Model/Interner.lean vs interner.rs (threaded)"), found_input=True)
    c15.site_obligations(ctx, found_witness=False, sites=False, reentrancy=True)
    if not proved:
        ctx.violation("proof obligation broken: " + "; ".join(ctx._broken), {"stage": "prove", "theorems": ctx._broken,
                      "lake": getattr(ctx, "_lake_errors", "")}, found_input=bool(real))
    njobs = sum(x["jobs"] for x in rounds)
    distinct = set()
    for x in rounds:
        distinct |= x["nontrivial"]
    byk = collections.Counter()
    for x in rounds:
        byk[str(x["k"])] += x["jobs"]
    ctx.coverage.update({
        "evaluations": njobs + icorr["schedules"],
        "distinct_nontrivial": len(distinct),
        "rule": "a case = one compile+run job executed by one of K concurrent threads (K in {2,4,8,16}; rounds of identical / distinct / mixed sources; barrier start + seeded jitter) "
                "plus rounds of CROSSED jobs: pairs of generated programs that share identifiers never seen by the process and mention them in opposite orders (record literals holding closures, "
                "record types in diagnostics, annotated records + destructuring, stateful field initialisers, constructors, type parameters, module members), started together at the barrier; "
                "every job is compared, artefact by artefact (raw listings and diagnostics order included), with the result of the same source compiled ALONE IN A FRESH PROCESS; watchdog timeout = deadlock, thread death = panic outside catch_unwind; "
                "distinct = distinct source path, non-trivial = the source compiles to bytecode with at least one function. Plus real-thread schedules over the raw interner API vs the model's solo runs (up to renaming + one-string-one-id across threads)",
        "samples": [{"round": x["name"], "threads": x["k"], "jobs": x["jobs"], "wall_s": round(x["wall"], 1)} for x in rounds[:3]] + icorr["samples"],
        "rounds": len(rounds), "jobs_by_threads": dict(byk), "crossed_identifier_jobs": sum(x["crossed"] for x in rounds),
        "interference_cases": len(real), "garbled_symbol_text_cases(F8)": len(f8_hits),
        "deadlocks_or_crashes": len(other),
        "traces_validated_against_impl": icorr["schedules"],
        "interner_threaded_schedules": icorr["schedules"], "interner_up_to_renaming_checked": icorr["renaming_checked"],
        "model_impl_disagreements": len(icorr["problems"]),
    })
    ctx.finish("proof")
