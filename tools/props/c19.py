"""C19 — concurrent compilations do not interfere (shares corpus, generator and interner correspondence with c15.py)."""
import os, json, glob, collections, random, time
from vlib import *
import c15

MODULES = ["Mimium.Props.C19"]


def parse(stdout):
    recs = collections.defaultdict(list)
    for l in stdout.split("\n"):
        if l.startswith("@@"):
            f = l[2:].split("\t")
            recs[f[0]].append(f)
    return recs


def run_round(job):
    """one process, K threads; returns dict with J records and problems"""
    name, k, paths, lists, jitter, timeout = job
    a = ["jobs", "--timeout", str(timeout), "--jitter", str(jitter), "--dump", os.path.join(c15.WORK, "C19dump", name),
         "--paths", ",".join(paths)]
    for l in lists:
        a += ["--thread", ",".join(map(str, l))]
    t0 = time.time()
    try:
        p = mmh("C19", a, timeout=timeout + 120)
    except Exception as e:
        return {"name": name, "k": k, "jobs": 0, "problems": [{"kind": "watchdog-timeout(deadlock?)", "round": name, "threads": k,
                "paths": paths, "lists": lists, "jitter": jitter, "err": str(e)[:200]}], "refs": {}, "wall": time.time() - t0}
    r = parse(p.stdout)
    res = {"name": name, "k": k, "jobs": len(r["J"]), "problems": [], "refs": {f[2]: f[3:] for f in r["REF"]}, "wall": time.time() - t0}
    base = {"round": name, "threads": k, "paths": paths, "lists": lists, "jitter": jitter}
    if r["DEADLOCK"]:
        res["problems"].append(dict(base, kind="deadlock", unfinished_threads=r["DEADLOCK"][0][1:]))
    elif r["DIED"] or p.returncode != 0 or not r["DONE"]:
        res["problems"].append(dict(base, kind="thread-died-or-crash", rc=p.returncode, stderr=p.stderr[-600:]))
    expect = sum(len(l) for l in lists)
    if not res["problems"] and len(r["J"]) != expect:
        res["problems"].append(dict(base, kind="missing-results", got=len(r["J"]), expected=expect))
    for f in r["J"]:
        if f[4] != "1":
            res["problems"].append(dict(base, kind="interference", thread=int(f[1]), job=int(f[2]), target=f[3], status=f[5],
                                        differs_in=[x for x in f[6].split(",") if x]))
    return res


def make_round(r, name, k, pool, per_thread, jitter, timeout):
    paths = r.sample(pool, min(len(pool), max(4, k)))
    lists = []
    mode = r.choice(["identical", "distinct", "mixed"])
    for t in range(k):
        if mode == "identical":
            lists.append([j % len(paths) for j in range(per_thread)])
        elif mode == "distinct":
            lists.append([(t + j * k) % len(paths) for j in range(per_thread)])
        else:
            lists.append([r.randrange(len(paths)) for _ in range(per_thread)])
    return (f"{name}-{mode}", k, paths, lists, jitter, timeout)


def main(ctx, args):
    ctx.assumptions += [
        "Model/Interner.lean models the PROTOCOL of interner.rs (every API call one atomic step on append-only tables); the compiler proper is not modelled",
        "threads obtain ids only as results of their own earlier calls (handles)",
        "real schedules are SAMPLED (OS scheduler, K in {2,4,8,16}, barrier start + seeded jitter), not enumerated; the theorems quantify over all schedules of the model only",
        "type-variable cells (Arc<RwLock<TypeVar>>) are per compilation and not modelled; Symbol::as_str lifetime extension (F8) is outside the model",
        "each thread's result is compared with the single-threaded result of the same source in the same process (all artefacts of C15: diagnostics, bytecode, WASM, MIR, skeleton, 32 VM samples, Rust), raw-id listings (F17) and type-scheme numbering (F20) normalised as in C15",
    ]
    known = load_known("C19")
    if not extract(ctx):
        ctx.finish()
    proved = prove(ctx, MODULES)
    if proved and ctx.tier == "thorough":
        proved = leancheck(ctx, MODULES)
    if not build_harness(ctx):
        ctx.finish()
    quick = ctx.tier == "quick"
    r = random.Random(ctx.seed * 7 + 19)
    t0 = time.time()
    problems, rounds = [], []
    if args.replay:
        rp = json.load(open(args.replay))
        if "lists" in rp:
            for rep in range(5):
                res = run_round((rp.get("round", "replay") + f"-r{rep}", rp["threads"], rp["paths"], rp["lists"], rp.get("jitter", 1) + rep, 300))
                rounds.append(res)
                problems += res["problems"]
        icorr = c15.interner_correspondence("C19", ctx.seed, 1, 4, threaded=True)
    else:
        files = c15.corpus_files() + c15.generated_files(ctx.seed, 40 if quick else 200)
        files += sorted(glob.glob(os.path.join(VERIF, "corpus", "C19", "*.mmm")))
        costs = c15.measure_costs(files)
        cheap = sorted([f for f, dt, recs in costs if dt < 0.25 and recs], key=c15.weight, reverse=True)
        heavy = [f for f, dt, recs in costs if 0.25 <= dt < 3.0 and recs]
        jobs = []
        nrounds = 3 if quick else 12
        for k in (2, 4, 8, 16):
            for i in range(nrounds):
                per = (24 if quick else 60) // max(1, k // 4) if k > 4 else (24 if quick else 60)
                jobs.append(make_round(r, f"K{k}-{i}", k, cheap, per, ctx.seed * 131 + k * 17 + i, 240))
            jobs.append(make_round(r, f"K{k}-heavy", k, heavy or cheap, 2 if quick else 4, ctx.seed + k, 600))
        # rounds are themselves run a few at a time (each is a multi-threaded process)
        rounds = parallel(jobs, run_round, nproc=3)
        for res in rounds:
            problems += res["problems"]
        icorr = c15.interner_correspondence("C19", ctx.seed, 8 if quick else 32, 30 if quick else 150, threaded=True)
    ctx.coverage["concurrent_wall_s"] = round(time.time() - t0, 1)
    # ---- decide
    inter = [p for p in problems if p["kind"] == "interference"]
    other = [p for p in problems if p["kind"] != "interference"]
    f17_like = [p for p in inter if set(p["differs_in"]) <= {"mir", "bcx", "diag"}]
    real = [p for p in inter if p not in f17_like]
    if real:
        best = min(real, key=lambda p: os.path.getsize(p["target"]) if os.path.exists(p["target"]) else 1 << 30)
        best = dict(best, source=open(best["target"], errors="replace").read()[:3000] if os.path.exists(best["target"]) else None,
                    replay_cmd="./check C19 --replay <this file>", interfering_cases=len(real),
                    dump_dir=os.path.join(c15.WORK, "C19dump", best["round"]))
        ctx.violation(f"thread {best['thread']} of {best['threads']} got a different {best['differs_in']} for {best['target']} than the single-threaded compilation ({len(real)} cases)", best)
    for p in other[:3]:
        ctx.violation(f"{p['kind']} with {p.get('threads')} threads (round {p.get('round')})", dict(p, replay_cmd="./check C19 --replay <this file>"),
                      found_input=p["kind"] in ("deadlock", "thread-died-or-crash", "watchdog-timeout(deadlock?)"))
    for p in icorr["problems"][:3]:
        ctx.violation("real threads over the real interner do not match the model's solo runs up to renaming: " + p.get("schedule", p["kind"])[:160],
                      dict(p, correspondence="Model/Interner.lean vs interner.rs (threaded)"), found_input=True)
    c15.site_obligations(ctx, found_witness=False, sites=False, reentrancy=True)
    if not proved:
        ctx.violation("proof obligation broken: " + "; ".join(ctx._broken), {"stage": "prove", "theorems": ctx._broken,
                      "lake": getattr(ctx, "_lake_errors", "")}, found_input=bool(real))
    njobs = sum(x["jobs"] for x in rounds)
    distinct = set()
    for x in rounds:
        for path, ref in x["refs"].items():
            if ref and ref[1] == "1":
                distinct.add(path)
    byk = collections.Counter()
    for x in rounds:
        byk[str(x["k"])] += x["jobs"]
    ctx.coverage.update({
        "evaluations": njobs + icorr["schedules"],
        "distinct_nontrivial": len(distinct),
        "rule": "a case = one compile+run job executed by one of K concurrent threads (K in {2,4,8,16}; rounds of identical / distinct / mixed sources; barrier start + seeded jitter) "
                "and compared, artefact by artefact, with the single-threaded result of the same source; watchdog timeout = deadlock, thread death = panic outside catch_unwind; "
                "distinct = distinct source path, non-trivial = the source compiles to bytecode with at least one function. Plus real-thread schedules over the raw interner API vs the model's solo runs (up to renaming + one-string-one-id across threads)",
        "samples": [{"round": x["name"], "threads": x["k"], "jobs": x["jobs"], "wall_s": round(x["wall"], 1)} for x in rounds[:3]] + icorr["samples"],
        "rounds": len(rounds), "jobs_by_threads": dict(byk),
        "interference_cases": len(real), "id_listing_only_differences(F17/F19/F20 classes)": len(f17_like),
        "deadlocks_or_crashes": len(other),
        "traces_validated_against_impl": icorr["schedules"],
        "interner_threaded_schedules": icorr["schedules"], "interner_up_to_renaming_checked": icorr["renaming_checked"],
        "model_impl_disagreements": len(icorr["problems"]),
    })
    ctx.finish("proof")
