"""C15 — compilation is deterministic (also hosts the pieces shared with C19: corpus, program generator, interner correspondence)."""
import os, json, glob, hashlib, collections, random, time
from vlib import *

MODULES = ["Mimium.Props.C15"]
WORK = os.path.join(VERIF, "work")
FIELDS = ["diag", "bc", "bcx", "wasm", "mir", "sk", "out", "rust"]
INVARIANT_KINDS = {"max_by_strict_key", "find_unique_key", "sum", "any_all", "collect_map_set", "sort_after_collect",
                   "foreach_independent"}


# ---------------------------------------------------------------------------------------------------------------
# inputs

def corpus_files():
    fs = sorted(glob.glob(os.path.join(REPO, "crates/lib/mimium-test/tests/mmm/**/*.mmm"), recursive=True)
                + glob.glob(os.path.join(REPO, "lib/*.mmm")) + glob.glob(os.path.join(REPO, "examples/*.mmm")))
    return [f for f in fs if "," not in f and " " not in f]


def weight(path):
    """bias: files with type declarations / records / many globals come first"""
    try:
        s = open(path, encoding="utf-8").read()
    except OSError:
        return 0
    return 5 * s.count("\ntype ") + 3 * s.count("match ") + 2 * s.count("\nlet ") + s.count("{") + s.count("use ")


def ident(r, used, cap=False):
    while True:
        n = "".join(r.choice("abcdefghijklmnopqrstuvwxyz") for _ in range(r.randint(3, 7)))
        n = ("T" + n) if cap else ("v" + n)
        if n not in used:
            used.add(n)
            return n


def gen_program(seed):
    """small program biased to the hash-map-heavy paths: type aliases, records, enums with constructors, globals, match"""
    r = random.Random(seed)
    used, out, calls = set(), [], []
    aliases, records, enums = [], [], []
    for _ in range(r.randint(1, 5)):
        n = ident(r, used, True)
        aliases.append(n)
        out.append(f"type alias {n} = float")
    for _ in range(r.randint(0, 4)):
        n = ident(r, used, True)
        fs = [ident(r, used) for _ in range(r.randint(1, 4))]
        records.append((n, fs))
        out.append(f"type alias {n} = {{{', '.join(f + ':float' for f in fs)}}}")
    for _ in range(r.randint(1, 4)):
        n = ident(r, used, True)
        vs = []
        for _ in range(r.randint(2, 5)):
            c = ident(r, used, True)
            vs.append((c, r.choice([0, 0, 1, 2])))
        enums.append((n, vs))
        out.append(f"type {n} = " + " | ".join(c if k == 0 else (f"{c}(float)" if k == 1 else f"{c}((float,float))") for c, k in vs))
    globs = []
    for _ in range(r.randint(1, 6)):
        g = ident(r, used)
        globs.append(g)
        out.append(f"let {g} = {r.randint(1, 9)}.0" + (f" * {r.choice(globs[:-1])}" if len(globs) > 1 and r.random() < 0.4 else ""))
    for n, fs in records:
        f = ident(r, used)
        out.append(f"fn {f}(a: {r.choice(aliases)}) -> float {{\n  let rcd:{n} = {{{', '.join(x + ' = a * ' + str(i + 1) + '.0' for i, x in enumerate(fs))}}}\n  rcd.{r.choice(fs)} + {r.choice(globs)}\n}}")
        calls.append(f"{f}({r.randint(1, 5)}.0)")
    for n, vs in enums:
        f = ident(r, used)
        arms = []
        for i, (c, k) in enumerate(vs):
            if k == 0:
                arms.append(f"    {c} => {i + 1}.0")
            elif k == 1:
                arms.append(f"    {c}(x) => x * {i + 2}.0")
            else:
                arms.append(f"    {c}((x,y)) => x * {i + 1}.0 + y")
        out.append(f"fn {f}(e: {n}) {{\n  match e {{\n" + ",\n".join(arms) + "\n  }\n}")
        for c, k in r.sample(vs, min(len(vs), 3)):
            arg = c if k == 0 else (f"{c}({r.randint(1, 9)}.0)" if k == 1 else f"{c}(({r.randint(1, 9)}.0,{r.randint(1, 9)}.0))")
            if r.random() < 0.5:
                g = ident(r, used)
                out.append(f"let {g} = {f}({arg})")
                calls.append(g)
            else:
                calls.append(f"{f}({arg})")
    if r.random() < 0.5:
        f = ident(r, used)
        out.append(f"fn {f}(inc) {{\n  self + inc\n}}")
        calls.append(f"{f}({r.choice(globs)})")
    body = []
    # --- constructs whose layout / listing / diagnostics depend on an ORDER of identifiers (record fields, constructors,
    # module members, type parameters): names are written in random (often non-alphabetical) order
    if r.random() < 0.7:   # record literal with stateful field initialisers: slot order shows in the state skeleton
        cnt = ident(r, used)
        out.append(f"fn {cnt}(inc) {{\n  self + inc\n}}")
        fs = [ident(r, used) for _ in range(r.randint(2, 4))]
        inits = []
        for i, x in enumerate(fs):
            c = r.randrange(4)
            inits.append(f"{x} = " + (f"delay({r.randint(3, 9)}.0, {cnt}(1.0), {r.randint(1, 2)}.0)" if c == 0 else
                                      f"{cnt}({i + 2}.0)" if c == 1 else f"mem({r.choice(globs)})" if c == 2 else f"{cnt}(1.0) * {i + 1}.0"))
        rv = ident(r, used)
        body.append(f"let {rv} = {{{', '.join(inits)}}}")
        calls.append(" + ".join(f"{rv}.{x} * {10 ** i}.0" for i, x in enumerate(fs)))
    if r.random() < 0.5:   # a function returning a record that holds a closure next to a wider field
        mk, fa, fb, rv = ident(r, used), ident(r, used), ident(r, used), ident(r, used)
        if r.random() < 0.5:
            fa, fb = sorted([fa, fb])
        out.append(f"fn {mk}(n) {{\n  {{{fa} = |x| x + n, {fb} = (10.0, 20.0)}}\n}}")
        body.append(f"let {rv} = {mk}({r.randint(1, 9)}.0)")
        calls.append(f"{rv}.{fa}(1.0) * 100.0 + {rv}.{fb}.1")
    if r.random() < 0.4:   # explicit type parameters
        f, ta, tb = ident(r, used), ident(r, used), ident(r, used)
        out.append(f"fn {f}(x:{ta}, y:{tb}) -> {ta} {{\n  x\n}}")
        calls.append(f"{f}({r.randint(1, 9)}.0, {r.randint(1, 9)}.0)")
    if r.random() < 0.4:   # module members
        m, fa, fb = ident(r, used), ident(r, used), ident(r, used)
        out.append(f"mod {m} {{\n  pub fn {fa}(x) {{\n    x + 1.0\n  }}\n  pub fn {fb}(x) {{\n    x * 2.0\n  }}\n}}")
        calls.append(f"{m}::{fb}(2.0) + {m}::{fa}(3.0)")
    if r.random() < 0.45:  # AMBIGUOUS imports: several wildcard-imported modules export one public name (the first `use` in source
        # order must win, compilation after compilation: seeded C15c resolved through a HashSet of import bases), optionally with a
        # third candidate that a single-name `use` or a multi-import brings in, and a private namesake that must be skipped
        nm = r.randint(2, 4)
        mods = [ident(r, used) for _ in range(nm)]
        shared = [ident(r, used) for _ in range(r.randint(1, 2))]
        for i, m in enumerate(mods):
            members = []
            for j, f in enumerate(shared):
                vis = "pub " if not (nm > 2 and i == 0 and j == 0 and r.random() < 0.3) else ""
                members.append(f"  {vis}fn {f}(x) {{\n    x * {10 ** i}.0 + {j + 1}.0\n  }}")
            own = ident(r, used)
            members.append(f"  pub fn {own}(x) {{\n    x + {i + 1}.0\n  }}")
            out.append(f"mod {m} {{\n" + "\n".join(members) + "\n}")
        order = mods[:]
        r.shuffle(order)
        style = r.randrange(3)
        for k, m in enumerate(order):
            if style == 1 and k == len(order) - 1:
                out.append(f"use {m}::{{{', '.join(shared)}}}")
            elif style == 2 and k == 0 and len(shared) > 1:
                out.append(f"use {m}::{shared[1]}")
            else:
                out.append(f"use {m}::*")
        calls.append(" + ".join(f"{f}({r.randint(1, 9)}.0) * {100 ** j}.0" for j, f in enumerate(shared)))
    if r.random() < 0.4:   # the SAME bare type name declared in two modules and used unqualified inside them (the fallback that
        # resolves a bare type name by the suffix of the mangled names must not pick by hash order: seeded C15d took the first match)
        tn = ident(r, used, True)
        ma, mb, fa, fb = ident(r, used), ident(r, used), ident(r, used), ident(r, used)
        f1, f2, f3 = sorted([ident(r, used), ident(r, used), ident(r, used)])
        kind = r.randrange(2)
        if kind == 0:
            out.append(f"mod {ma} {{\n  type alias {tn} = {{{f1}:float, {f2}:float, {f3}:float}}\n  pub fn {fa}(x) {{\n    let q:{tn} = {{{f1} = 7.0, {f2} = x, {f3} = 2.0}}\n    q.{f2} * 10.0 + q.{f3}\n  }}\n}}")
            out.append(f"mod {mb} {{\n  type alias {tn} = {{{f2}:float, {f3}:float}}\n  pub fn {fb}(x) {{\n    let q:{tn} = {{{f2} = x, {f3} = 3.0}}\n    q.{f2} + q.{f3} * 100.0\n  }}\n}}")
        else:
            out.append(f"mod {ma} {{\n  type alias {tn} = (float, float, float)\n  pub fn {fa}(x) {{\n    let q:{tn} = (7.0, x, 2.0)\n    q.1 * 10.0 + q.2\n  }}\n}}")
            out.append(f"mod {mb} {{\n  type alias {tn} = float\n  pub fn {fb}(x) {{\n    let q:{tn} = x\n    q * 100.0\n  }}\n}}")
        calls.append(f"{ma}::{fa}({r.randint(1, 9)}.0) + {mb}::{fb}({r.randint(1, 9)}.0)")
    if r.random() < 0.15:  # a type error whose message prints a record type
        fs = [ident(r, used) for _ in range(r.randint(2, 3))]
        rv = ident(r, used)
        body.append(f"let {rv}:float = {{{', '.join(x + ' = ' + str(i + 1) + '.0' for i, x in enumerate(fs))}}}")
        calls.append(rv)
    r.shuffle(calls)
    out.append("fn dsp() {\n  " + "\n  ".join(body + [" + ".join(calls or ["0.0"])]) + "\n}")
    return "\n".join(out) + "\n"


KEYWORDS = {"fn", "macro", "self", "now", "samplerate", "let", "letrec", "if", "else", "match", "float", "int", "string",
            "struct", "include", "stage", "main", "mod", "use", "pub", "type", "alias", "rec", "_", "dsp"}


def identifiers(src):
    """user identifiers of a source in order of first mention (comments and string literals removed)"""
    import re
    src = re.sub(r"/\*.*?\*/", " ", src, flags=re.S)
    src = re.sub(r"//[^\n]*", " ", src)
    src = re.sub(r'"(?:[^"\\]|\\.)*"', " ", src)
    seen, out = set(), []
    for m in re.finditer(r"[A-Za-z_][A-Za-z0-9_]*", src):
        n = m.group(0)
        if n not in KEYWORDS and n not in seen and not n[0].isdigit():
            seen.add(n)
            out.append(n)
    return out


def warmup_file(target, mode, seed):
    """an unrelated program that merely MENTIONS the target's identifiers (as parameter names and as the fields of a record
    literal) in another order, so that the process-global interner has issued their ids in that order before the target
    is compiled: `rev` = reversed first-mention order (every pair flips w.r.t. a fresh process), `desc` = descending
    alphabetical, `shuf` = seeded shuffle"""
    try:
        names = identifiers(open(target, encoding="utf-8", errors="replace").read())
    except OSError:
        names = []
    if mode == "rev":
        names = names[::-1]
    elif mode == "desc":
        names = sorted(names, reverse=True)
    else:
        random.Random(f"{seed}:{target}").shuffle(names)
    names = names[:400]
    out = []
    for i in range(0, len(names), 6):
        ch = names[i:i + 6]
        out.append(f"fn wu_{mode}_{i // 6}({', '.join(ch)}) {{\n  0.0\n}}")
    out.append("fn dsp() {\n  0.0\n}")
    d = os.path.join(WORK, "C15warm")
    os.makedirs(d, exist_ok=True)
    p = os.path.join(d, hashlib.sha1(target.encode()).hexdigest()[:10] + f"_{mode}.mmm")
    src = "\n".join(out) + "\n"
    if not os.path.exists(p) or open(p).read() != src:
        open(p, "w").write(src)
    return p


def generated_files(seed, n):
    d = os.path.join(WORK, "C15gen")
    os.makedirs(d, exist_ok=True)
    fs = []
    for i in range(n):
        p = os.path.join(d, f"g{seed}_{i}.mmm")
        src = gen_program(seed * 100003 + i)
        if not os.path.exists(p) or open(p).read() != src:
            open(p, "w").write(src)
        fs.append(p)
    return fs


# ---------------------------------------------------------------------------------------------------------------
# differential: one target, several fresh processes, several histories per process

def parse_records(stdout, tag):
    recs = []
    for l in stdout.split("\n"):
        if l.startswith("@@" + tag + "\t"):
            recs.append(l[2:].split("\t"))
    return recs


def items_for(target, hist, k, reps):
    """process k: `reps` compilations of the target, each after a different history; process 0 starts with the target"""
    it, h = [], list(hist)
    if k % 2 == 1 and h:
        it.append("H:" + h.pop(0))
    for rpt in range(reps):
        it.append("T:" + target)
        if rpt == reps - 2:
            continue  # the last two compilations back to back (same program immediately before)
        for _ in range(1 + (rpt + k) % 2):
            if h:
                it.append("H:" + h.pop(0))
    return it


def run_seq(items, tag, dump=None, timeout=900):
    a = ["seq", "--tag", tag] + (["--dump", dump] if dump else []) + items
    p = mmh("C15", a, timeout=timeout)
    return p, parse_records(p.stdout, "R")


def check_target(job):
    """returns dict(target, lines, problems)"""
    target, hist_pool, nproc, reps, seed = job[:5]
    warm_modes = job[5] if len(job) > 5 else []
    r = random.Random(hashlib.sha1(f"{seed}:{target}".encode()).hexdigest())
    res = {"target": target, "compiles": 0, "problems": [], "status": "?", "nontrivial": False, "ref": None}
    ref = None
    for k in list(range(nproc)) + warm_modes:
        if isinstance(k, str):
            # fresh process, ONE warm-up program that mentions the target's identifiers in another order, then the target
            items, nrec = ["H:" + warmup_file(target, k, seed), "T:" + target], 1
        else:
            hist = r.sample(hist_pool, min(len(hist_pool), 8)) if hist_pool else []
            pinned = [h for h in hist_pool if os.sep + "corpus" + os.sep in h]
            hist = pinned + [h for h in hist if h not in pinned]
            items, nrec = items_for(target, hist, k, reps), reps
        try:
            p, recs = run_seq(items, f"p{k}")
            if isinstance(k, str):
                res["warmups"] = res.get("warmups", 0) + 1
        except Exception as e:  # timeout
            res["problems"].append({"kind": "harness-timeout", "target": target, "items": items, "err": str(e)[:200]})
            continue
        if p.returncode != 0 or len(recs) != nrec:
            res["problems"].append({"kind": "harness-crash", "target": target, "items": items, "rc": p.returncode,
                                    "records": len(recs), "stderr": p.stderr[-800:]})
            continue
        for rec in recs:
            res["compiles"] += 1
            key = (rec[4], tuple(rec[7:]))
            if ref is None:
                ref = (key, items, rec)
                res["status"], res["nontrivial"], res["ref"] = rec[4], rec[6] == "1", rec[7:]
            if key != ref[0] or rec[5] != "1":
                diff = [f.split("=")[0] for f, g in zip(rec[7:], ref[2][7:]) if f != g]
                if rec[4] != ref[2][4]:
                    diff.append("status")
                if rec[5] != "1":
                    diff.append("program-not-structurally-equal-to-first-in-process")
                res["problems"].append({"kind": "nondeterministic", "target": target, "differs_in": diff,
                                        "process": k, "rep": int(rec[2]), "history_len": int(rec[3]),
                                        "items": items, "ref_items": ref[1], "record": rec, "ref_record": ref[2]})
    return res


def relname(t):
    for root in (REPO, VERIF):
        if t.startswith(root + os.sep):
            return os.path.relpath(t, root)
    return t


def first_diff(a, b):
    la, lb = a.split("\n"), b.split("\n")
    for i, (x, y) in enumerate(zip(la, lb)):
        if x != y:
            return {"line": i + 1, "a": x[:300], "b": y[:300]}
    return {"line": min(len(la), len(lb)) + 1, "a": "<end>" if len(la) <= len(lb) else la[len(lb)][:300],
            "b": "<end>" if len(lb) <= len(la) else lb[len(la)][:300]}


def explain(pr, tries=12):
    """re-run reference and offending process with --dump until the difference shows again; attach the first differing line"""
    d = os.path.join(WORK, "C15dump", hashlib.sha1(pr["target"].encode()).hexdigest()[:8])
    for t in range(tries):
        _, ra = run_seq(pr["ref_items"], "ref", dump=d)
        _, rb = run_seq(pr["items"], "off", dump=d)
        if not ra:
            continue
        for rec in rb:
            if rec[4] != ra[0][4] or rec[7:] != ra[0][7:]:
                for f in FIELDS:
                    pa, pb = os.path.join(d, f"ref.0.{f}"), os.path.join(d, f"off.{rec[2]}.{f}")
                    if os.path.exists(pa) and os.path.exists(pb):
                        xa, xb = open(pa, errors="replace").read(), open(pb, errors="replace").read()
                        if xa != xb:
                            pr["reproduced_after_reruns"] = t + 1
                            pr["first_difference"] = dict(first_diff(xa, xb), artefact=f, files=[pa, pb])
                            return pr
    pr["reproduced_after_reruns"] = None
    return pr


# ---------------------------------------------------------------------------------------------------------------
# interner model vs the real interner

def gen_schedule(r, nthreads, nops):
    pool = [f"s{i}" for i in range(r.randint(2, 8))]
    cnt_h, cnt_a, ops = [0] * nthreads, [0] * nthreads, []
    for _ in range(nops):
        t = r.randrange(nthreads)
        c = r.random()
        if c < 0.4:
            ops.append(f"{t}:i:{r.choice(pool)}")
            cnt_h[t] += 1
        elif c < 0.6:
            ops.append(f"{t}:r:{r.randrange(cnt_h[t] + 2)}")
        elif c < 0.85:
            ks = [str(r.randrange(cnt_a[t] + 2)) for _ in range(r.randint(0, 3))]
            ops.append(f"{t}:a:{r.randint(0, 3)}:{','.join(ks)}")
            cnt_a[t] += 1
        else:
            ops.append(f"{t}:g:{r.randrange(cnt_a[t] + 2)}")
    return ";".join(ops)


def canon_thread(field, sub=0):
    """first-occurrence numbering of the ids a thread saw; strings stay"""
    hs, as_, strs, nodes = field.split("|")
    m, out_h = {}, []
    for x in filter(None, hs.split(",")):
        out_h.append(m.setdefault(x, len(m)))
    ma, out_a = {}, []
    for x in filter(None, as_.split(",")):
        out_a.append(ma.setdefault(x, len(ma)))
    out_n = []
    for nd in filter(None, nodes.split(",")):
        if nd == "~":
            out_n.append("~")
        else:
            p, ks = nd.split("/")
            out_n.append(p + "/" + ".".join(str(ma.get(k, "?" + k)) for k in filter(None, ks.split("."))))
    return (tuple(out_h), tuple(out_a), strs, tuple(out_n))


def shift_thread(field, base):
    hs, as_, strs, nodes = field.split("|")
    sh = lambda x: str(int(x) - base)
    as2 = ",".join(sh(x) for x in filter(None, as_.split(",")))
    nd2 = []
    for nd in filter(None, nodes.split(",")):
        if nd == "~":
            nd2.append(nd)
        else:
            p, ks = nd.split("/")
            nd2.append(p + "/" + ".".join(sh(k) for k in filter(None, ks.split("."))))
    return "|".join([hs, as2, strs, ",".join(nd2)])


def interner_correspondence(pid, seed, nproc, ncases, threaded=False):
    """model (drv) vs real interner: sequential mode = exact on the first schedule of a fresh process and up to renaming
    afterwards; threaded mode (real OS threads) = each thread vs the model's SOLO run of its projection, up to renaming"""
    st = {"schedules": 0, "exact_checked": 0, "renaming_checked": 0, "distinct": set(), "problems": [], "samples": []}

    def work(k):
        r = random.Random(seed * 7919 + k * 31 + (1000003 if threaded else 0))
        lines = [gen_schedule(r, r.choice([2, 4, 8, 16]) if threaded else r.randint(1, 5), r.randint(5, 60)) for _ in range(ncases)]
        if threaded:
            # model: every thread alone
            solo = []
            for l in lines:
                ops = l.split(";")
                nt = max(int(o.split(":")[0]) for o in ops) + 1
                solo.append([";".join("0:" + o.split(":", 1)[1] for o in ops if int(o.split(":")[0]) == t) for t in range(nt)])
            flat = [s for ss in solo for s in ss]
            q = driver(pid, input="\n".join(flat) + "\n")
            p = mmh(pid, ["interner", str(seed + k)], input="\n".join(lines) + "\n", timeout=300)
        else:
            q = driver(pid, input="\n".join(lines) + "\n")
            p = mmh(pid, ["interner"], input="\n".join(lines) + "\n", timeout=300)
        return k, lines, p, q, (solo if threaded else None)
    for k, lines, p, q, solo in parallel(range(nproc), work):
        if p.returncode != 0 or q.returncode != 0:
            st["problems"].append({"kind": "crash", "proc": k, "impl_rc": p.returncode, "model_rc": q.returncode,
                                   "stderr": (p.stderr + q.stderr)[-600:]})
            continue
        il = [l for l in p.stdout.split("\n") if l]
        ml = q.stdout.split("\n")
        base = int(il[0].split("\t")[1])
        il = il[1:]
        mi = 0
        for ci, line in enumerate(lines):
            st["schedules"] += 1
            st["distinct"].add(hash(line))
            impl = il[ci].split("\t") if ci < len(il) else []
            if threaded:
                nt = len(solo[ci])
                model = []
                for t in range(nt):
                    model.append(ml[mi].split("\t")[0] if ml[mi] else "|||")
                    mi += 1
            else:
                model = ml[ci].split("\t")
            ok = len(impl) == len(model)
            if ok and not threaded and ci == 0:
                st["exact_checked"] += 1
                ok = [shift_thread(f, base) for f in impl] == model
            if ok:
                st["renaming_checked"] += 1
                ok = [canon_thread(f) for f in impl] == [canon_thread(f) for f in model]
                if ok and threaded:
                    # global consistency: one string <-> one id across all threads
                    seen = {}
                    for f, l in zip(impl, [solo[ci][t] for t in range(len(impl))]):
                        strs = [o.split(":")[2] for o in l.split(";") if o.split(":")[1:2] == ["i"]]
                        for s, i in zip(strs, filter(None, f.split("|")[0].split(","))):
                            if seen.setdefault(s, i) != i:
                                ok = False
                    if len(set(seen.values())) != len(seen):
                        ok = False
            if not ok:
                st["problems"].append({"kind": "model-impl-disagree", "schedule": line, "impl": impl, "model": model,
                                       "threaded": threaded, "proc": k, "case": ci})
            elif len(st["samples"]) < 2 and ci == 1:
                st["samples"].append({"schedule": line[:200], "impl": impl[:3], "model": model[:3]})
    return st


# ---------------------------------------------------------------------------------------------------------------

def site_obligations(ctx, found_witness, sites=True, reentrancy=False):
    """translator pass: every hash-ordered iteration site must carry a reviewed, proved-invariant kind"""
    info = json.load(open(os.path.join(LEAN, "Mimium", "Gen", "extracted.json")))
    hs = info.get("hash_sites", {})
    known = {k.get("site"): k for k in load_known(ctx.pid) if k.get("site")}
    bad = []
    for s in (hs.get("sites", []) if sites else []):
        if s["kind"] not in INVARIANT_KINDS:
            key = f"{s['file']}:{s['fn']}:{s['snippet_hash']}"
            if key not in known:   # known ones are printed once, with their hit counts, by the caller
                bad.append(s)
    for s in bad[:5]:
        ctx.violation(f"hash-ordered iteration site without a proved-invariant kind ({s['kind']}): {s['file']}:{s['line']} in fn {s['fn']}: {s['snippet'][:120]}",
                      {"stage": "translator", "obligation": "C15_sites_classified", "site": s,
                       "hint": "review the site and add it to tools/hash_sites.json with its kind"}, found_input=found_witness)
    re_ = info.get("reentrant_closures", [])
    re_new = []
    for d in info.get("reentrant_closures_detail", []):
        if d.get("reviewed_false_positive"):
            continue
        key = f"{d['file']}:{d['fn']}:{d['snippet_hash']}"
        if key in known:
            if reentrancy:
                ctx.known_finding(f"{known[key]['id']} {known[key]['what']}")
        else:
            re_new.append(f"{d['file']}:{d['line']}: {d['call']}")
    if reentrancy and re_new:
        re_ = re_new
        ctx.violation("closure passed to with_session_globals re-enters the interner API (self-deadlock): " + "; ".join(re_[:3]),
                      {"stage": "translator", "obligation": "C19_lock_per_op_no_deadlock premise", "closures": re_}, found_input=False)
    ctx.coverage["hash_sites"] = {"total": hs.get("total"), "by_kind": hs.get("by_kind"),
                                  "unclassified": len(hs.get("unclassified", [])), "order_sensitive": len(hs.get("order_sensitive", [])),
                                  "stale_allowlist_entries": len(hs.get("stale_allowlist_entries", [])),
                                  "with_session_globals_calls": info.get("with_session_globals_calls"),
                                  "reentrant_closures": len(re_)}
    return bad


def measure_costs(files):
    """one compilation of each file alone: cost class + status (also the 'fresh process, no history' datum)"""
    def one(f):
        t = time.time()
        try:
            p, recs = run_seq(["T:" + f], "m", timeout=300)
            return f, time.time() - t, recs
        except Exception:
            return f, 300.0, []
    return parallel(files, one)


def main(ctx, args):
    ctx.assumptions += [
        "Model/Interner.lean models the PROTOCOL of interner.rs (append-only symbol table with dedup, append-only arenas, every API call atomic); the compiler proper is not modelled",
        "threads obtain ids only as results of their own earlier calls (handles); Symbol(pub usize) is never forged",
        "each classified hash-iteration site is of the kind the reviewed allow-list tools/hash_sites.json says (the kinds are proved order-insensitive, the classification is reviewed, not proved)",
        "determinism of the whole compiler is exercised (5 histories x 8 processes per source), not proved; WASM bytes, bytecode/MIR listings, state skeleton, generated Rust, 32 VM samples and diagnostics are compared",
    ]
    known = load_known("C15")
    if not extract(ctx):
        ctx.finish()
    proved = prove(ctx, MODULES)
    if proved and ctx.tier == "thorough":
        proved = leancheck(ctx, MODULES)
    if not build_harness(ctx):
        ctx.finish()
    quick = ctx.tier == "quick"
    problems, results = [], []
    t0 = time.time()
    if args.replay:
        rp = json.load(open(args.replay))
        if "items" in rp:
            for path, src in rp.get("sources", {}).items():
                if not os.path.exists(path):
                    os.makedirs(os.path.dirname(path), exist_ok=True)
                    open(path, "w").write(src)
            pr = {"target": rp["target"], "items": rp["items"], "ref_items": rp.get("ref_items", rp["items"])}
            pr = explain(pr, tries=16)
            if pr.get("first_difference"):
                problems.append(dict(pr, kind="nondeterministic", differs_in=[pr["first_difference"]["artefact"]]))
            results.append({"target": rp["target"], "compiles": 32, "nontrivial": True, "status": "replay"})
        icorr = interner_correspondence("C15", ctx.seed, 1, 4)
    else:
        cdir = os.path.join(VERIF, "corpus", "C15")
        seeds = sorted(glob.glob(os.path.join(cdir, "f*.mmm")) + glob.glob(os.path.join(cdir, "s_*.mmm")))
        seed_hist = sorted(glob.glob(os.path.join(cdir, "h_*.mmm")))
        files = seeds + corpus_files()
        gen = generated_files(ctx.seed, 40 if quick else 200)
        costs = measure_costs(files + gen)
        cost = {f: dt for f, dt, _ in costs}
        cheap = [f for f in files + gen if cost[f] < 0.25]
        heavy = [f for f in files if cost[f] >= 0.25]
        hist_pool = sorted(cheap, key=weight, reverse=True)[:60]
        nproc = 8
        alt = lambda f: "desc" if int(hashlib.sha1(f.encode()).hexdigest(), 16) % 2 else "shuf"
        jobs = [(f, (seed_hist + hist_pool) if f in seeds else hist_pool, nproc, 5, ctx.seed,
                 ["rev", alt(f)] if quick else ["rev", "desc", "shuf"]) for f in cheap]
        # heavy files (> 0.25 s per compilation): quick = 1 process x 2 histories (+ the history-free cost pass = 2nd process)
        jobs += [(f, hist_pool[:20], 1 if quick else 8, 2 if quick else 3, ctx.seed, ["rev"] if quick else ["rev", "desc", "shuf"]) for f in heavy]
        jobs.sort(key=lambda j: -cost[j[0]])
        results = parallel(jobs, check_target)
        for f, dt, recs in costs:  # the cost pass is one more fresh process without history
            r0 = next((r for r in results if r["target"] == f), None)
            if r0 and recs and r0["ref"] is not None and (recs[0][7:] != r0["ref"] or recs[0][4] != r0["status"]):
                problems.append({"kind": "nondeterministic", "target": f,
                                 "differs_in": [a.split("=")[0] for a, b in zip(recs[0][7:], r0["ref"]) if a != b] + (["status"] if recs[0][4] != r0["status"] else []),
                                 "note": "fresh process without history vs reference",
                                 "items": ["T:" + f], "ref_items": ["T:" + f], "record": recs[0]})
        for r in results:
            problems += r["problems"]
        icorr = interner_correspondence("C15", ctx.seed, 8 if quick else 32, 40 if quick else 200)
        ctx.coverage["corpus_files"] = len(files)
        ctx.coverage["generated_programs"] = len(gen)
        ctx.coverage["heavy_targets(reduced schedule)"] = len(heavy)
    ctx.coverage["differential_wall_s"] = round(time.time() - t0, 1)
    # ---- decide
    # every listed finding with a witness file must name its target; a nondeterministic target is excused only if it IS such
    # a witness (no class-shaped exemption is left: F17 raw argument ids, F19 diagnostics order, F20 type-scheme numbering
    # are repaired, so raw listings and the order of diagnostics are compared as they come)
    known_targets = {k["target"]: k for k in known if "target" in k}
    nondet = [p for p in problems if p["kind"] == "nondeterministic"]
    other = [p for p in problems if p["kind"] != "nondeterministic"]
    hits = collections.Counter()
    new = []
    for p in nondet:
        rel = relname(p["target"])
        if rel in known_targets:
            hits[known_targets[rel]["id"]] += 1
        else:
            new.append(p)
    if new:
        by_t = collections.OrderedDict()
        for p in new:
            by_t.setdefault(p["target"], []).append(p)
        best_t = min(by_t, key=lambda t: os.path.getsize(t) if os.path.exists(t) else 1 << 30)
        pr = explain(dict(min(by_t[best_t], key=lambda q: len(q.get("items", [])))))
        pr["source"] = open(best_t, errors="replace").read()[:4000] if os.path.exists(best_t) else None
        # generated targets / warm-up programs live under work/ (not committed): the replay carries their text
        pr["sources"] = {x[2:]: open(x[2:], errors="replace").read() for x in pr.get("items", []) + pr.get("ref_items", [])
                         if x[2:].startswith(WORK) and os.path.exists(x[2:])}
        pr["replay_cmd"] = "./check C15 --replay <this file>"
        pr["nondeterministic_targets"] = [relname(t) for t in by_t][:30]
        ctx.violation(f"same source compiled twice gives different {pr['differs_in']}: {best_t} ({len(by_t)} targets affected)", pr)
    for p in other[:3]:
        ctx.violation(f"{p['kind']} while compiling {p.get('target')}", p, found_input=False)
    for p in icorr["problems"][:3]:
        ctx.violation("interner model and real interner disagree: " + p.get("schedule", p["kind"])[:160],
                      dict(p, correspondence="Model/Interner.lean vs interner.rs"), found_input=False)
    bad_sites = site_obligations(ctx, found_witness=bool(new))
    if not proved and not bad_sites:
        ctx.violation("proof obligation broken: " + "; ".join(ctx._broken), {"stage": "prove", "theorems": ctx._broken,
                      "lake": getattr(ctx, "_lake_errors", "")}, found_input=bool(new))
    for k in known:
        if ("target" in k or "class" in k) and (hits.get(k["id"], 0) or not args.replay):
            ctx.known_finding(f"{k['id']} {k['what']} (cases hit this run: {hits.get(k['id'], 0)})")
    ok_t = [r for r in results if r.get("nontrivial")]
    st_hist = collections.Counter(r.get("status") for r in results)
    samples = [{"target": relname(r["target"]),
                "compilations_compared": r["compiles"], "status": r["status"], "digests": r.get("ref")} for r in results[:2] + results[-2:]]
    ctx.coverage.update({
        "evaluations": sum(r["compiles"] for r in results) + icorr["schedules"],
        "distinct_nontrivial": len(set(r["target"] for r in ok_t)),
        "rule": "a case = one source file (shipped .mmm under lib/, examples/, mimium-test/tests/mmm + generated programs with many type aliases/records/enums/globals); "
                "it is compiled 5x in each of 8 fresh processes (heavy files: fewer), each time after a different history of other compilations, plus in fresh processes after ONE "
                "warm-up program that mentions the target's own identifiers (record fields, constructors, functions, type parameters, module members) in reversed / descending / shuffled order; all artefacts "
                "(diagnostics, bytecode listing, ext/type tables, WASM bytes, MIR listing, dsp state skeleton, 32 VM samples, generated Rust) must have equal digests and the "
                "Program must be structurally equal to the first of its process; distinct = distinct path, non-trivial = the source compiles to bytecode with at least one function",
        "samples": samples + icorr["samples"],
        "compilations_compared": sum(r["compiles"] for r in results),
        "targets": len(results),
        "identifier_order_warmup_processes": sum(r.get("warmups", 0) for r in results),
        "target_status": dict(st_hist),
        "nondeterministic_targets": len(set(p["target"] for p in nondet)),
        "nondeterministic_targets_not_known": len(set(p["target"] for p in new)),
        "known_finding_hits": dict(hits),
        "traces_validated_against_impl": icorr["schedules"],
        "interner_schedules": icorr["schedules"], "interner_exact_checked": icorr["exact_checked"],
        "interner_up_to_renaming_checked": icorr["renaming_checked"], "interner_distinct_schedules": len(icorr["distinct"]),
        "model_impl_disagreements": len(icorr["problems"]),
    })
    ctx.finish("proof")
