"""C17 — module privacy and name resolution.

prove      : lake build Mimium.Props.C17 (theorems over all module trees / positions / reference forms) + axiom audit
correspond : module trees with fn / mod / use / let items (exhaustive small scope + random); the probe (the site whose
             resolution is judged) is a function in any module, or a `let` -- top level after every prefix of the item list,
             or inside a module before / after its functions -> Lean model `drv_c17` predicts class/constant and renders the
             source text -> harness `c17` compiles that text with the real compiler and runs one sample -> compare
decide     : the implementation's own output is judged against the property (private function / non-pub module-level let
             reached from outside, private module traversed from outside, local binding not shadowing); listed finding
             classes print KNOWN-FINDING.
"""
import os, json, collections, itertools, hashlib
from vlib import *

MODULES = ["Mimium.Props.C17"]

DSP, PROBE, SHADOW_CONST = 0, 9, 99
LETNAME, LETPROBE = 7, 8
# identifiers: 0 = dsp, 1..3 module names, 4..6 function names, 7 = `let` item, 8 = `let` probe, 9 = fn probe


# --------------------------------------------------------------------------- encoding (token protocol of Drv/C17.lean)

def enc_expr(e):
    t = e[0]
    if t == "u":
        return "u"
    if t == "k":
        return f"k {e[1]}"
    if t == "v":
        return f"v {e[1]}"
    if t == "q":
        return f"q {len(e[1])} " + " ".join(map(str, e[1]))
    if t == "c":
        return "c " + enc_expr(e[1])
    if t == "l":
        return f"l {e[1]} {enc_expr(e[2])} {enc_expr(e[3])}"
    if t == "a":
        return f"a {len(e[1])} " + " ".join(map(str, e[1])) + (" " if e[1] else "") + enc_expr(e[2])
    raise ValueError(e)


def enc_item(it):
    t = it[0]
    if t == "F":
        _, pub, name, ps, body = it
        return f"F {int(pub)} {name} {len(ps)} " + "".join(f"{p} " for p in ps) + enc_expr(body)
    if t == "M":
        _, pub, name, sub = it
        return f"M {int(pub)} {name} {len(sub)}" + "".join(" " + enc_item(s) for s in sub)
    if t == "U":
        _, pub, path, tgt = it
        head = f"U {int(pub)} {len(path)} " + "".join(f"{p} " for p in path)
        if tgt == "S" or tgt == "W":
            return head + tgt
        return head + f"L {len(tgt[1])}" + "".join(f" {n}" for n in tgt[1])
    if t == "L":
        _, pub, name, rhs = it
        return f"L {int(pub)} {name} " + enc_expr(rhs)
    raise ValueError(it)


def enc_program(items):
    return f"{len(items)}" + "".join(" " + enc_item(i) for i in items)


# --------------------------------------------------------------------------- tree helpers

def walk_defs(items, pre=(), mods_pub=()):
    """yield (modpath, name, pub, const, modflags, kind) for every function whose body / `let` whose right-hand side is a constant"""
    for it in items:
        if it[0] == "F" and it[4][0] == "k":
            yield (tuple(pre), it[2], bool(it[1]), it[4][1], tuple(mods_pub), "fn")
        elif it[0] == "L" and it[3][0] == "k":
            yield (tuple(pre), it[2], bool(it[1]), it[3][1], tuple(mods_pub), "let")
        elif it[0] == "M":
            yield from walk_defs(it[3], tuple(pre) + (it[2],), tuple(mods_pub) + (bool(it[1]),))


def module_lets(items, pre=()):
    """(modpath, name) of every module-level `let`, in walk order"""
    for it in items:
        if it[0] == "L" and pre:
            yield (tuple(pre), it[2])
        elif it[0] == "M":
            yield from module_lets(it[3], tuple(pre) + (it[2],))


def has_pub_use(items):
    return any((it[0] == "U" and it[1]) or (it[0] == "M" and has_pub_use(it[3])) for it in items)


def exported_names(items, pre=()):
    """mangled names written into the visibility map by `pub use` statements: module path + alias name"""
    for it in items:
        if it[0] == "U" and it[1]:
            if it[3] == "S" and it[2]:
                yield tuple(pre) + (it[2][-1],)
            elif isinstance(it[3], (list, tuple)) and it[3][0] == "L":
                for n in it[3][1]:
                    yield tuple(pre) + (n,)
        elif it[0] == "M":
            yield from exported_names(it[3], tuple(pre) + (it[2],))


def all_fn_names(items, pre=()):
    for it in items:
        if it[0] == "F":
            yield tuple(pre) + (it[2],)
        elif it[0] == "M":
            yield from all_fn_names(it[3], tuple(pre) + (it[2],))


def has_dup_decl(items):
    names = list(all_fn_names(items))
    return len(names) != len(set(names))


def is_prefix(a, b):
    return len(a) <= len(b) and tuple(b[:len(a)]) == tuple(a)


def judge(case, cls, val):
    """direct test of the property on the implementation's observation; returns 'ok' or the kind of failure"""
    if cls != "ok":
        return "ok"
    try:
        k = int(val)
    except ValueError:
        return "ok"
    cur = tuple(case["cur"])
    if case.get("shadow"):
        return "ok" if k == SHADOW_CONST else "local-binding-does-not-shadow"
    if k == SHADOW_CONST:
        return "ok"
    hits = [d for d in walk_defs(case["items"]) if d[3] == k]
    if not hits:
        return "ok"
    modpath, name, pub, _, modflags, kind = hits[0]
    if kind == "let":
        # a `let` inside a module that is not declared `pub` is a private member of that module
        if modpath and not pub and not is_prefix(modpath, cur):
            return "module-let-route"
        return "ok"
    if modpath and not pub and not is_prefix(modpath, cur):
        return "private-fn-route"
    # a nested module that is not `pub` is itself a private member of its parent
    for i in range(1, len(modpath)):
        if not modflags[i] and not is_prefix(modpath[:i], cur):
            return "private-mod-route"
    return "ok"


# --------------------------------------------------------------------------- generators

def number_consts(items, counter):
    """give every non-probe function a distinct constant body"""
    out = []
    for it in items:
        if it[0] == "F" and it[4] is None:
            counter[0] += 1
            out.append(("F", it[1], it[2], it[3], ("k", counter[0])))
        elif it[0] == "L" and it[3] is None:
            counter[0] += 1
            out.append(("L", it[1], it[2], ("k", counter[0])))
        elif it[0] == "M":
            out.append(("M", it[1], it[2], number_consts(it[3], counter)))
        else:
            out.append(it)
    return out


def insert_at(items, modpath, index, new):
    """insert `new` into the item list of the first module block at `modpath` (index None = append)"""
    if not modpath:
        idx = len(items) if index is None else min(index, len(items))
        return items[:idx] + [new] + items[idx:]
    out, done = [], False
    for it in items:
        if not done and it[0] == "M" and it[2] == modpath[0]:
            out.append(("M", it[1], it[2], insert_at(it[3], modpath[1:], index, new)))
            done = True
        else:
            out.append(it)
    return out


def module_paths(items, pre=()):
    for it in items:
        if it[0] == "M":
            p = tuple(pre) + (it[2],)
            yield p
            yield from module_paths(it[3], p)


def slots(items, pre=()):
    """all (modpath, index) insertion points"""
    for i in range(len(items) + 1):
        yield (tuple(pre), i)
    seen = set()
    for it in items:
        if it[0] == "M" and it[2] not in seen:
            seen.add(it[2])
            yield from slots(it[3], tuple(pre) + (it[2],))


def suffixes(path, minlen):
    return [tuple(path[i:]) for i in range(len(path)) if len(path) - i >= minlen]


def build_case(tree, use, probe_pos, ref, shadow, probe_index=None, extra=None):
    """tree: items with unnumbered constant functions; use: None | (modpath, index, item); ref: ('v',x) | ('q',segs)"""
    items = number_consts(tree, [0])
    if use is not None:
        items = insert_at(items, use[0], use[1], use[2])
    call = ("c", ref)
    if shadow == "let":
        body = ("l", ref[1], ("a", [], ("k", SHADOW_CONST)), call)
    else:
        body = call
    if probe_pos == ():
        items = items + [("F", False, DSP, [], body)]
    else:
        items = insert_at(items, probe_pos, probe_index, ("F", True, PROBE, [], body))
        items = items + [("F", False, DSP, [], ("c", ("q", list(probe_pos) + [PROBE])))]
    return {"items": items, "cur": list(probe_pos), "ref": ref, "shadow": bool(shadow), "tokens": enc_program(items),
            "probe": "fn", "binder": DSP if probe_pos == () else PROBE}


def let_paths(items, pre=()):
    """(modpath, name) of every `let` item (top level included)"""
    for it in items:
        if it[0] == "L":
            yield (tuple(pre), it[2])
        elif it[0] == "M":
            yield from let_paths(it[3], tuple(pre) + (it[2],))


def let_variants(tree):
    """the tree itself, then the tree with one `let n7 = <const>` item placed first (plain) or last (`pub let`) in one
    block: top level or any module -- i.e. before / after the functions and sub-modules of that block"""
    yield tree
    for mp in [()] + sorted(set(module_paths(tree))):
        yield insert_at(tree, mp, 0, ("L", False, LETNAME, None))
        yield insert_at(tree, mp, None, ("L", True, LETNAME, None))


def let_probe_sites(items):
    """where a probe goes in the `let` scope:
    ('top', i)      top-level `let n8 = <ref>()` after the first i top-level items (every prefix of the item list)
    ('mod', mp, i)  `let n8 = <ref>()` first / last in module mp
    ('fn', pos)     `pub fn n9(){ <ref>() }` in module pos (or dsp itself at top level)
    ('fnlet', pos)  the same with the reference as right-hand side of a local `let n7` (a name a module-level let may carry)"""
    for i in range(len(items) + 1):
        yield ("top", i)
    mods = sorted(set(module_paths(items)))
    for mp in mods:
        yield ("mod", mp, 0)
        yield ("mod", mp, None)
    for pos in [()] + mods:
        yield ("fn", pos)
        yield ("fnlet", pos)


def build_case_let(tree, use, site, ref, probe_name=LETPROBE):
    """tree: items with unnumbered constant functions / lets; site: see let_probe_sites (indices refer to the item list
    after numbering and after the `use` has been inserted)"""
    items = number_consts(tree, [0])
    if use is not None:
        items = insert_at(items, use[0], use[1], use[2])
    call = ("c", ref)
    if site[0] == "top":
        items = items[:site[1]] + [("L", False, probe_name, call)] + items[site[1]:]
        items = items + [("F", False, DSP, [], ("v", probe_name))]
        cur, binder = (), probe_name
    elif site[0] == "mod":
        items = insert_at(items, site[1], site[2], ("L", False, probe_name, call))
        items = items + [("F", False, DSP, [], ("v", probe_name))]
        cur, binder = site[1], probe_name
    else:
        body = call if site[0] == "fn" else ("l", LETNAME, call, ("v", LETNAME))
        cur = site[1]
        if cur == ():
            items = items + [("F", False, DSP, [], body)]
        else:
            items = insert_at(items, cur, None, ("F", True, PROBE, [], body))
            items = items + [("F", False, DSP, [], ("c", ("q", list(cur) + [PROBE])))]
        binder = LETNAME if site[0] == "fnlet" else (DSP if cur == () else PROBE)
    return {"items": items, "cur": list(cur), "ref": ref, "shadow": False, "tokens": enc_program(items),
            "probe": site[0], "binder": binder}


def small_trees(max_defs, max_depth, fn_names=(4, 5), mod_names=(1, 2), nested_pub=True):
    """all item lists with <= max_defs functions; functions listed before modules in a block; no empty modules;
    module names distinct within a block; nested modules carry a pub flag, top-level ones do not"""
    def blocks(budget, depth, top):
        # returns list of (items, used)
        res = [([], 0)]
        # functions: subsets of fn_names in order with pub flags
        fn_opts = [([], 0)]
        for r in range(1, len(fn_names) + 1):
            for names in itertools.combinations(fn_names, r):
                for flags in itertools.product((False, True), repeat=r):
                    fn_opts.append(([("F", f, n, [], None) for n, f in zip(names, flags)], r))
        out = []
        for fns, nf in fn_opts:
            if nf > budget:
                continue
            if depth == 0:
                out.append((fns, nf))
                continue
            # zero, one or two modules
            out.append((fns, nf))
            subs = [b for b in blocks(budget - nf, depth - 1, False) if b[1] > 0]
            for s1, u1 in subs:
                for p1 in ((False,) if top or not nested_pub else (False, True)):
                    if nf + u1 <= budget:
                        out.append((fns + [("M", p1, mod_names[0], s1)], nf + u1))
                    for s2, u2 in subs:
                        if nf + u1 + u2 <= budget:
                            for p2 in ((False,) if top or not nested_pub else (False, True)):
                                out.append((fns + [("M", p1, mod_names[0], s1), ("M", p2, mod_names[1], s2)], nf + u1 + u2))
        return out
    return [b[0] for b in blocks(max_defs, max_depth, True) if b[1] > 0]


def use_options(tree):
    """every single `use` statement worth trying for this tree: (modpath, index, item)"""
    fnpaths = sorted(set(all_fn_names(tree)))
    mods = sorted(set(module_paths(tree)))
    targets = set()
    for p in fnpaths:
        if len(p) >= 2:
            for s in suffixes(p, 2):
                targets.add((s, "S"))
    for m in mods:
        for s in suffixes(m, 1):
            targets.add((s, "W"))
            names = sorted({p[-1] for p in fnpaths if p[:-1] == m})
            if len(names) >= 2:
                targets.add((s, ("L", tuple(names))))
    out = [None]
    places = [(mp, None) for mp in [()] + mods] + [((), 0)]
    for path, tgt in sorted(targets, key=repr):
        for pub in (False, True):
            for mp, idx in places:
                t = tgt if isinstance(tgt, str) else ("L", list(tgt[1]))
                out.append((mp, idx, ("U", pub, list(path), t)))
    return out


def ref_options(tree):
    fnpaths = sorted(set(all_fn_names(tree)))
    refs = set()
    for p in fnpaths:
        refs.add(("v", p[-1]))
        for s in suffixes(p, 2):
            refs.add(("q", s))
    for mp, name in let_paths(tree):
        refs.add(("v", name))
        for s in suffixes(mp + (name,), 2):
            refs.add(("q", s))
    return [(r[0], r[1] if r[0] == "v" else list(r[1])) for r in sorted(refs, key=repr)]


def export_refs(use, have=()):
    """references *through* a re-export: the exported name of a `pub use` (module path + alias) and its relative forms"""
    if use is None or not use[2][1]:
        return []
    mp, _, (_, _, path, tgt) = use
    names = [path[-1]] if tgt == "S" else (list(tgt[1]) if isinstance(tgt, (list, tuple)) and tgt[0] == "L" else [])
    out = []
    for n in names:
        for s in suffixes(tuple(mp) + (n,), 2):
            r = ("q", list(s))
            if r not in have and r not in out:
                out.append(r)
    return out


def gen_exhaustive(max_defs, shard, nshards, stride=1, nested_pub=True):
    """shard `shard` of `nshards` of the exhaustive scope; stride > 1 keeps every stride-th case only"""
    n = 0
    nshards *= stride
    shard *= stride
    for tree in small_trees(max_defs, 2, nested_pub=nested_pub):
        mods = sorted(set(module_paths(tree)))
        refs0 = ref_options(tree)
        for use in use_options(tree):
            refs = refs0 + export_refs(use, refs0)
            for pos in [()] + mods:
                for ref in refs:
                    # shadowing is only interesting when something could be shadowed: an import or a module member
                    shadows = (None, "let") if ref[0] == "v" and (use is not None or pos != ()) else (None,)
                    for sh in shadows:
                        n += 1
                        if n % nshards != shard:
                            continue
                        yield build_case(tree, use, pos, ref, sh)


def gen_exhaustive_let(max_defs, shard, nshards, stride=1):
    """the `let` scope.  Part A: every small tree x (no let item | one `let n7` first / last in any block) x every probe site
    (top-level let after every prefix of the item list, module-level let first / last in every module, fn probes, fn probes
    with a local `let n7`) x every reference (functions and lets, identifier / absolute / relative path) x probe name
    (n8 | n7 = the name of the let item).  Part B: every small tree x one `use` (all forms; placed first or last at top
    level) x top-level let probe after every prefix x every reference."""
    n = 0
    nshards *= stride
    shard *= stride
    for tree0 in small_trees(max_defs, 2, nested_pub=False):
        for tree in let_variants(tree0):
            has_let = tree is not tree0
            refs = ref_options(tree)
            for site in let_probe_sites(tree):
                if site[0] == "fnlet" and not has_let:
                    continue
                names = (LETPROBE, LETNAME) if has_let and site[0] in ("top", "mod") else (LETPROBE,)
                for ref in refs:
                    for pn in names:
                        n += 1
                        if n % nshards != shard:
                            continue
                        yield build_case_let(tree, None, site, ref, pn)
        refs = ref_options(tree0)
        for use in use_options(tree0):
            if use is None or use[0] != ():
                continue
            ntop = len(tree0) + 1
            for i in range(ntop + 1):
                for ref in refs:
                    n += 1
                    if n % nshards != shard:
                        continue
                    yield build_case_let(tree0, use, ("top", i), ref)


class Rng:
    """splitmix64 (same as harness/src/rng.rs)"""
    M = (1 << 64) - 1

    def __init__(self, seed):
        self.s = ((seed * 0x9E3779B97F4A7C15) ^ 0xD1B54A32D192ED03) & self.M

    def next(self):
        self.s = (self.s + 0x9E3779B97F4A7C15) & self.M
        z = self.s
        z = ((z ^ (z >> 30)) * 0xBF58476D1CE4E5B9) & self.M
        z = ((z ^ (z >> 27)) * 0x94D049BB133111EB) & self.M
        return z ^ (z >> 31)

    def below(self, n):
        return self.next() % n if n else 0

    def chance(self, a, b):
        return self.below(b) < a

    def pick(self, xs):
        return xs[self.below(len(xs))]


def rand_tree(r, depth, max_members, top=True, lets=False):
    items = []
    k = 1 + r.below(max_members)
    for _ in range(k):
        if depth > 0 and r.chance(2, 5):
            sub = rand_tree(r, depth - 1, max_members, False, lets)
            items.append(("M", (not top) and r.chance(1, 2), r.pick((1, 2, 3)), sub))
        elif lets and r.chance(1, 4):
            items.append(("L", r.chance(1, 3), r.pick((7, 7, 7, 4, 8)), None))
        else:
            items.append(("F", r.chance(1, 2), r.pick((4, 5, 6)), [], None))
    if not r.chance(1, 12):
        # mostly no duplicate names in one block (duplicates / reopened modules are a separate finding class)
        seen, out = set(), []
        for it in items:
            key = (it[0], it[2])
            if key not in seen:
                seen.add(key)
                out.append(it)
        items = out
    return items


def gen_random(seed, n, lets=False):
    """lets=True: trees also carry `let` items (top level and in modules, names n7 / n4 / n8) and the probe is, half of the
    time, a `let` (top level at a random cut of the item list, or inside a module), sometimes named like a let item"""
    r = Rng(seed)
    made = 0
    while made < n:
        tree = rand_tree(r, 1 + r.below(3), 4, True, lets)
        fnpaths = sorted(set(all_fn_names(tree)))
        mods = sorted(set(module_paths(tree)))
        if not fnpaths:
            continue
        items = number_consts(tree, [0])
        # 0..3 use statements anywhere
        sl = list(slots(items))
        for _ in range(r.pick((0, 1, 1, 2, 3))):
            p = r.pick(fnpaths)
            form = r.below(10)
            exported = sorted(e for e in set(exported_names(items)) if len(e) >= 2)
            if exported and r.chance(1, 4):
                # a `use` of a re-exported name (chains and cycles of re-exports)
                path = list(r.pick(suffixes(r.pick(exported), 2)))
                tgt = "S"
            elif form < 5 and len(p) >= 2:
                path = list(r.pick(suffixes(p, 2)))
                tgt = "S"
            elif form < 7 and len(p) >= 2:
                s = r.pick(suffixes(p, 2))
                sib = [q[-1] for q in fnpaths if q[:-1] == p[:-1]]
                path, tgt = list(s[:-1]), ("L", sorted({s[-1], r.pick(sib)}))
            elif mods:
                path, tgt = list(r.pick(suffixes(r.pick(mods), 1))), "W"
            else:
                continue
            mp, idx = r.pick(sl)
            items = insert_at(items, mp, idx, ("U", r.chance(1, 3), path, tgt))
        # reference
        p = r.pick(fnpaths)
        if r.chance(1, 3):
            ref = ("v", p[-1])
        elif len(p) >= 2:
            ref = ("q", list(r.pick(suffixes(p, 2))))
        else:
            ref = ("v", p[-1])
        if r.chance(1, 15):
            ref = ("q", [r.pick((1, 2, 3)), r.pick((4, 5, 6))])
        exported = sorted(e for e in set(exported_names(items)) if len(e) >= 2)
        if exported and r.chance(1, 3):
            # a reference through a re-export
            ref = ("q", list(r.pick(suffixes(r.pick(exported), 2))))
        lp = list(let_paths(tree)) if lets else []
        if lp and r.chance(1, 4):
            mp, name = r.pick(lp)
            ref = ("v", name) if r.chance(1, 2) or not mp else ("q", list(r.pick(suffixes(mp + (name,), 2))))
        if lets and r.chance(1, 2):
            # a `let` probe
            pn = r.pick((LETPROBE, LETPROBE, LETNAME))
            call = ("c", ref)
            if not mods or r.chance(3, 5):
                cut = r.below(len(items) + 1)
                items = items[:cut] + [("L", r.chance(1, 4), pn, call)] + items[cut:]
                pos = ()
            else:
                pos = r.pick(mods)
                items = insert_at(items, pos, None if r.chance(1, 2) else r.below(4), ("L", r.chance(1, 4), pn, call))
            items = items + [("F", False, DSP, [], ("v", pn))]
            made += 1
            yield {"items": items, "cur": list(pos), "ref": ref, "shadow": False, "tokens": enc_program(items),
                   "probe": "top" if pos == () else "mod", "binder": pn}
            continue
        shadow = ref[0] == "v" and r.chance(1, 5)
        call = ("c", ref)
        body = ("l", ref[1], ("a", [], ("k", SHADOW_CONST)), call) if shadow else call
        pos = r.pick([()] + mods) if r.chance(2, 3) else ()
        if pos == ():
            cut = len(items) if r.chance(3, 4) else r.below(len(items) + 1)
            items = items[:cut] + [("F", False, DSP, [], body)] + items[cut:]
        else:
            idx = None if r.chance(2, 3) else r.below(4)
            items = insert_at(items, pos, idx, ("F", True, PROBE, [], body))
            items = items + [("F", False, DSP, [], ("c", ("q", list(pos) + [PROBE])))]
        made += 1
        yield {"items": items, "cur": list(pos), "ref": ref, "shadow": bool(shadow), "tokens": enc_program(items),
               "probe": "fn", "binder": DSP if pos == () else PROBE}


# --------------------------------------------------------------------------- correspondence

def new_stats():
    return {"evaluations": 0, "nontrivial": set(), "disagreements": 0, "impl_property_failures": 0,
            "classes": collections.Counter(), "forms": collections.Counter(), "probes": collections.Counter(), "samples": []}


def compare_cases(ctx, name, cases, stats):
    """returns list of problem records"""
    if not cases:
        return []
    q = driver("C17", input="".join(c["tokens"] + "\n" for c in cases))
    if q.returncode != 0:
        return [{"kind": "driver-crash", "stream": name, "stderr": q.stderr[-2000:]}]
    ml = q.stdout.split("\n")
    if len(ml) < len(cases):
        return [{"kind": "driver-short-output", "stream": name}]
    srcs = []
    for c, line in zip(cases, ml):
        f = line.split("\t")
        if len(f) != 3:
            return [{"kind": "driver-bad-line", "stream": name, "tokens": c["tokens"], "driver": line}]
        c["model"] = (f[0], f[1])
        c["source_json"] = f[2]
        srcs.append(f[2])
    p = mmh("C17", [], input="\n".join(srcs) + "\n")
    if p.returncode != 0:
        return [{"kind": "harness-crash", "stream": name, "stderr": p.stderr[-2000:]}]
    il = p.stdout.split("\n")
    problems = []
    for c, line in zip(cases, il):
        f = line.split("\t")
        icls, ival, imsg = f[0], f[1] if len(f) > 1 else "-", f[2] if len(f) > 2 else ""
        stats["evaluations"] += 1
        mcls, mval = c["model"]
        agree = (icls, ival) == (mcls, mval)
        verdict = judge(c, icls, ival)
        stats["classes"][icls] += 1
        stats["forms"][("ident" if c["ref"][0] == "v" else "path") + ("+shadow" if c["shadow"] else "")] += 1
        stats["probes"][c.get("probe", "fn")] += 1
        if icls in ("ok", "private"):
            stats["nontrivial"].add(int.from_bytes(hashlib.blake2b(c["tokens"].encode(), digest_size=8).digest(), "little"))
        if not agree:
            stats["disagreements"] += 1
        if verdict != "ok":
            stats["impl_property_failures"] += 1
        if agree and verdict == "ok":
            if len(stats["samples"]) < 3 and icls in ("ok", "private") and stats["evaluations"] % 1009 == 7:
                stats["samples"].append({"source": json.loads(c["source_json"]), "impl": [icls, ival], "model": [mcls, mval]})
            continue
        problems.append({"kind": "case", "stream": name, "tokens": c["tokens"], "source": json.loads(c["source_json"]),
                         "impl": [icls, ival, imsg], "model": [mcls, mval], "judge": verdict, "agree": agree,
                         "pub_use": has_pub_use(c["items"]), "dup_decl": has_dup_decl(c["items"]),
                         "cur": c["cur"], "ref": c["ref"], "shadow": c["shadow"], "items": c["items"],
                         "probe": c.get("probe", "fn"), "binder": c.get("binder", PROBE)})
    return problems


CHUNK = 4000          # the compiler's global interner grows with every case: keep harness processes short-lived
KEEP_PER_SHARD = 50   # problem records kept per shard and kind (smallest first); everything is counted


def work(arg):
    """one shard of the correspondence (runs in a worker process)"""
    job, max_defs, stride, known_classes = arg
    st = new_stats()
    st["known_class_hits"] = collections.Counter()
    st["problem_counts"] = collections.Counter()
    if job[0] == "enum":
        cases = gen_exhaustive(max_defs, job[1], job[2], stride, nested_pub=(max_defs > 2))
    elif job[0] == "enumlet":
        cases = gen_exhaustive_let(max_defs, job[1], job[2], stride)
    elif job[0] == "randlet":
        cases = gen_random(job[1], job[2], lets=True)
    else:
        cases = gen_random(job[1], job[2])
    kept = {"fail": [], "disagree": [], "other": []}
    while True:
        chunk = list(itertools.islice(cases, CHUNK))
        if not chunk:
            break
        for pr in compare_cases(None, f"{job[0]}{job[1]}", chunk, st):
            if pr["kind"] != "case":
                kept["other"].append(pr)
                continue
            if pr["judge"] != "ok":
                cls = finding_class(pr)
                if cls in known_classes:
                    st["known_class_hits"][cls] += 1
                    continue
                bucket = "fail"
            else:
                bucket = "disagree"
            st["problem_counts"][bucket] += 1
            kept[bucket].append(pr)
            if len(kept[bucket]) > 4 * KEEP_PER_SHARD:
                kept[bucket] = sorted(kept[bucket], key=lambda r: len(r["tokens"]))[:KEEP_PER_SHARD]
    pr = kept["other"][:KEEP_PER_SHARD]
    for b in ("fail", "disagree"):
        pr += sorted(kept[b], key=lambda r: len(r["tokens"]))[:KEEP_PER_SHARD]
    if job[0] in ("enum", "enumlet"):
        # shards of the exhaustive scope are disjoint by construction: report the count, not the set
        st["nontrivial_count"] = len(st["nontrivial"])
        st["nontrivial"] = set()
    return st, pr


def let_context_explains(pr):
    """F12-letctx: the item (or local let) that holds the reference carries the plain name of a module-level `let`, and the
    module of the *last* such let (module_context_map is keyed by that plain name; the last insert wins) is the module of the
    private member that was reached or lies inside it"""
    try:
        k = int(pr["impl"][1])
    except ValueError:
        return False
    hits = [d for d in walk_defs(pr["items"]) if d[3] == k]
    if not hits:
        return False
    target_mod = hits[0][0]
    same = [mp for mp, name in module_lets(pr["items"]) if name == pr.get("binder")]
    return bool(same) and is_prefix(target_mod, same[-1])


def finding_class(pr):
    """which listed finding class (if any) explains a property failure on which model and implementation agree"""
    if not pr["agree"]:
        return None
    if pr["judge"] == "private-mod-route":
        return "private-mod-route"
    if pr["judge"] == "module-let-route":
        return "module-let-global"
    if pr["judge"] == "private-fn-route" and let_context_explains(pr):
        return "private-fn-route+let-context"
    if pr["judge"] == "private-fn-route" and pr["dup_decl"]:
        return "private-fn-route+duplicate-decl"
    return None


def case_from_record(r):
    return {"items": r["items"], "cur": r["cur"], "ref": tuple(r["ref"]) if isinstance(r["ref"], list) else r["ref"],
            "shadow": r["shadow"], "tokens": r["tokens"], "probe": r.get("probe", "fn"), "binder": r.get("binder", PROBE)}


def load_corpus():
    cdir = os.path.join(VERIF, "corpus", "C17")
    out = []
    if os.path.isdir(cdir):
        for fn in sorted(os.listdir(cdir)):
            for line in open(os.path.join(cdir, fn)):
                line = line.strip()
                if line and not line.startswith("#"):
                    out.append(case_from_record(json.loads(line)))
    return out


def main(ctx, args):
    ctx.assumptions += [
        "Model/ModRes.lean is a hand port of ast/program.rs (module flattening, ModuleInfo, process_use_statement, resolve_qualified_path) and mirgen/convert_qualified_names.rs; the tie is the correspondence run below",
        "mangled symbols are modelled as segment lists ($-join is injective because identifiers cannot contain '$'); hash maps as association lists (never iterated by the code)",
        "only fn / inline mod / use / let (single-name pattern, top level and module level, `pub let` accepted and ignored) statements and Let, LetRec, Lambda, Var, QualifiedVar, nullary Apply are modelled; type declarations, external module files, stages, tuple/record let patterns, bare expression statements are not",
        "typing.rs lexical lookup and evaluation are modelled in Model/ModResIO.lean and only exercised (no theorem)",
        "generated identifiers (dsp, n1..n9) do not clash with builtin names",
    ]
    known = load_known("C17")
    if not extract(ctx):
        ctx.finish()
    proved = prove(ctx, MODULES)
    if proved and ctx.tier == "thorough":
        proved = leancheck(ctx, MODULES)
    if not build_harness(ctx):
        ctx.finish()
    stats = new_stats()
    problems = []
    known_classes = {k["class"] for k in known if "class" in k}
    nontrivial_enum, shard_known, shard_counts = 0, collections.Counter(), collections.Counter()
    if args.replay:
        r = json.load(open(args.replay))
        problems += compare_cases(ctx, "replay", [case_from_record(r)], stats)
    else:
        problems += compare_cases(ctx, "corpus", load_corpus(), stats)
        max_defs, stride = (2, 1) if ctx.tier == "quick" else (3, 4)
        shards = NCPU * 2
        jobs = [("enum", k, shards) for k in range(shards)]
        jobs += [("enumlet", k, shards) for k in range(shards)]
        nrand = NCPU * 2 if ctx.tier == "quick" else NCPU * 8
        per = 2000 if ctx.tier == "quick" else 10000
        jobs += [("rand", ctx.seed * 100000 + i, per) for i in range(nrand)]
        jobs += [("randlet", ctx.seed * 100000 + 50000 + i, per) for i in range(nrand)]

        from concurrent.futures import ProcessPoolExecutor
        with ProcessPoolExecutor(max_workers=NCPU) as ex:
            results = list(ex.map(work, [(j, max_defs, stride, known_classes) for j in jobs]))
        for st, pr in results:
            for k in ("evaluations", "disagreements", "impl_property_failures"):
                stats[k] += st[k]
            stats["nontrivial"] |= st["nontrivial"]
            nontrivial_enum += st.get("nontrivial_count", 0)
            shard_known.update(st["known_class_hits"])
            shard_counts.update(st["problem_counts"])
            stats["classes"].update(st["classes"])
            stats["forms"].update(st["forms"])
            stats["probes"].update(st["probes"])
            stats["samples"] += st["samples"][:1]
            problems += pr
        ctx.coverage["exhaustive_scope"] = (f"all module trees with <= {max_defs} functions (names n4,n5; modules n1,n2; depth <= 2; every pub/private assignment of functions"
                                            + ("" if max_defs <= 2 else " and nested modules") + ") "
                                            "x (no use | one use / pub use: single, {..}, * of every absolute/relative path, placed at top or in any module) "
                                            "x probe position (top level or any module) x reference (identifier, every absolute/relative path of a function or let, and of the name a `pub use` exports) x (plain | locally shadowed)"
                                            "  +  let scope: A) every such tree (nested modules non-pub) x (no let item | one `let n7 = const` first or last (`pub let`) in the top-level block or in any module) "
                                            "x probe (top-level `let n8 = ref()` after EVERY prefix of the item list | module-level `let n8 = ref()` first / last in any module | fn probe in any module | fn probe whose reference is the right-hand side of a local `let n7`) "
                                            "x reference (functions and lets: identifier, every absolute/relative path) x probe name (n8 | n7 = name of the let item); "
                                            "B) every such tree x one use / pub use (single, {..}, *; first or last at top level) x top-level let probe after every prefix x reference")
        ctx.coverage["exhaustive_stride"] = stride
        ctx.coverage["exhaustive"] = False
    # ---- decide
    known_by_class = {k["class"]: k for k in known if "class" in k}
    new_fail, known_hits, disagree = [], collections.Counter(), []
    for cls, n in shard_known.items():
        known_hits[known_by_class[cls]["id"]] += n
    for pr in problems:
        if pr["kind"] != "case":
            ctx.violation(f"{pr['kind']} in stream {pr.get('stream')}", pr, found_input=False)
            continue
        if pr["judge"] != "ok":
            cls = finding_class(pr)
            if cls in known_by_class:
                known_hits[known_by_class[cls]["id"]] += 1
                continue
            new_fail.append(pr)
        elif not pr["agree"]:
            disagree.append(pr)
    sz = lambda pr: len(pr["tokens"])
    if new_fail:
        best = min(new_fail, key=sz)
        nfail = max(len(new_fail), shard_counts["fail"])
        ctx.violation(f"implementation violates C17 ({best['judge']}): impl={best['impl'][:2]} model={best['model']} on\n{best['source']}\n({nfail} failing cases)",
                      dict(best, replay_cmd="./check C17 --replay <this file>", failing_cases=nfail))
    elif disagree:
        best = min(disagree, key=sz)
        ndis = max(len(disagree), shard_counts["disagree"])
        ctx.violation(f"model/implementation disagree on {ndis} cases (smallest: impl={best['impl'][:2]} model={best['model']}) but no property failure found:\n{best['source']}",
                      dict(best, correspondence="Model/ModRes.lean vs ast/program.rs + convert_qualified_names.rs", cases=len(disagree)),
                      found_input=False)
    if not proved and not new_fail:
        ctx.violation("proof obligation broken: " + "; ".join(ctx._broken), {"stage": "prove", "theorems": ctx._broken,
                      "lake": getattr(ctx, "_lake_errors", "")}, found_input=False)
    for k in known:
        n = known_hits.get(k["id"], 0)
        if n or args.replay is None:
            ctx.known_finding(f"{k['id']} {k['what']} (cases hit this run: {n})")
    ctx.coverage.update({
        "evaluations": stats["evaluations"],
        "distinct_nontrivial": len(stats["nontrivial"]) + nontrivial_enum,
        "rule": "one case = one whole program (module tree + use statements + probe + dsp) compiled by the real compiler and run for one sample; "
                "non-trivial = the reference was accepted and reached a definition (class ok) or was rejected as private; distinct = distinct program text (64-bit hash; shards of the exhaustive scope are disjoint by construction and are summed)",
        "samples": stats["samples"][:5] or [{"note": "no sample in replay mode"}],
        "traces_validated_against_impl": stats["evaluations"],
        "model_impl_disagreements": stats["disagreements"],
        "impl_property_failures": stats["impl_property_failures"],
        "input_distribution": {"impl_class": dict(stats["classes"]), "reference_form": dict(stats["forms"]), "probe_kind": dict(stats["probes"]),
                               "known_finding_hits": dict(known_hits)},
    })
    ctx.finish("proof")
