"""C06 — hot-swapping an unchanged program is inaudible (real swaps at every split point, both runtimes)."""
import collections
from vlib import *
import progcheck as pc
sys.path.insert(0, os.path.join(VERIF, "tools", "gen"))
import coregen

MODULES = ["Mimium.Props.C06"]


def run_hist(cases, nshards=None):
    nshards = nshards or min(NCPU, max(1, len(cases) // 10))
    shards = [cases[i::nshards] for i in range(nshards)]

    def work(sh):
        if not sh:
            return {}
        raw = run_isolated(os.path.join(BIN, "c06"), [(c["id"], json.dumps({k: c[k] for k in ("id", "backend", "srcs", "events", "times", "inputs", "path") if k in c})) for c in sh])
        res = {i: ((f[0], f[1]) if len(f) >= 2 else (f[0], "-")) for i, f in raw.items()}
        return res
    out = {}
    for r in parallel(shards, work, nproc=nshards):
        out.update(r)
    return out


def predicted_streams(cases, N):
    """the PREDICTED output stream of every history that comes with an S-expression (`sx`): `Model/LiveCoding.lean: session` on the
    reference semantics (drv_c07, mode `session`), keyed by (prog_id, events); value `w,w;…` or None"""
    lines = {}
    for c in cases:
        if not c.get("sx"):
            continue
        ev = ",".join(f"{t}:{k}" for t, k in c["events"]) or "-"
        lines[(c["prog_id"], ev)] = "\t".join([c["prog_id"] + "|" + ev, "session", str(N), coregen.inputs_field(c["inputs"]), ev, c["sx"]])
    keys = list(lines)
    nsh = min(NCPU, max(1, len(keys) // 50))
    shards = [keys[k::nsh] for k in range(nsh)]

    def work(sh):
        if not sh:
            return {}
        q = run([os.path.join(LEANBIN, "drv_c07")], input="\n".join(lines[k] for k in sh) + "\n")
        out = {}
        for ln in q.stdout.split("\n"):
            f = ln.split("\t")
            if len(f) >= 2:
                out[f[0]] = f[1][3:] if f[1].startswith("ok ") else None
        return out
    res = {}
    for r in parallel(shards, work, nproc=nsh):
        res.update(r)
    return {k: res.get(k[0] + "|" + k[1]) for k in keys}


def main(ctx, args):
    ctx.assumptions += [
        "programs: generated stateful programs whose signal state lives in self/mem/delay cells reachable from dsp (globals are immutable, closures stateless); a gated family (last cells first touched after K samples); every shipped .mmm source with a dsp that runs on the backend (arrays, variants, closures, macros, library code)",
        "VM swap = VmDspRuntime::try_hot_swap(VmProgram) with a fresh emit_bytecode of the same source; WASM swap = WasmDspRuntime::try_hot_swap with a payload built as mimium-cli builds it (that code is private to the CLI and is replicated in the harness: prewarm + plan); `now` continues",
    ]
    known = load_known("C06")
    if not extract(ctx):
        ctx.finish()
    proved = prove(ctx, MODULES, drivers=["drv_prog", "drv_c07"])
    if proved and ctx.tier == "thorough":
        proved = leancheck(ctx, MODULES)
    if not build_harness(ctx, bins=["c06"]):
        ctx.finish()
    N = 14 if ctx.tier == "quick" else 48
    nprog = 60 if ctx.tier == "quick" else 800
    rng = coregen.Rng(ctx.seed * 7919 + 13)
    cases = []
    if args.replay:
        r = json.load(open(args.replay))
        for c in r["cases"]:
            cases.append(c)
    else:
        progs, _ = pc.gen_cases(ctx.seed, nprog, "core", N)
        for pr in progs:
            for be in ("vm", "wasm"):
                base = dict(backend=be, srcs=[pr["src"]], times=N, inputs=pr["inputs"], prog_id=pr["id"], sx=pr["sx"])
                cases.append(dict(base, id=f"{pr['id']}|{be}|base", events=[]))
                splits = list(range(0, N + 1)) if ctx.tier == "quick" else sorted(set(rng.below(N + 1) for _ in range(16)))
                for n in splits:
                    cases.append(dict(base, id=f"{pr['id']}|{be}|{n}x1", events=[[n, 0]]))
                for _ in range(3):
                    n, k = rng.below(N + 1), 2 + rng.below(2)
                    n2 = rng.below(N + 1)
                    cases.append(dict(base, id=f"{pr['id']}|{be}|{n}x{k}+{n2}", events=[[n, 0]] * k + [[n2, 0]]))
    # second family: the last cells of the layout sit in an `if` arm that is first taken only after K samples, so that at
    # early split points part of the state has never been touched (on WASM the storage is then still shorter than the layout)
    if not args.replay:
        import voicegen
        lib = voicegen.lib()
        order = ["cnt", "lag"] + [k for k in voicegen.KINDS if k not in ("cnt", "lag")]
        defs = "\n".join(lib[k].src() for k in order)
        ngated = 12 if ctx.tier == "quick" else 150
        for g in range(ngated):
            K = 1 + rng.below(N - 3)
            gate = rng.pick(voicegen.KINDS)
            pre = [rng.pick(voicegen.KINDS) for _ in range(rng.below(3))]
            body = "  let c = cnt(1.0)\n" + "".join(f"  let p{i} = {k}(c * {rng.pick(voicegen.CONSTS)})\n" for i, k in enumerate(pre))
            acc = " + ".join(["c * 1000.0"] + [f"p{i}" for i in range(len(pre))])
            src = f"{defs}\nfn dsp() {{\n{body}  if (c > {K}.0) {{\n    {acc} + {gate}({rng.pick(voicegen.CONSTS)})\n  }} else {{\n    {acc}\n  }}\n}}\n"
            pid_ = f"gated{g}"
            for be in ("vm", "wasm"):
                base = dict(backend=be, srcs=[src], times=N, inputs=[], prog_id=pid_)
                cases.append(dict(base, id=f"{pid_}|{be}|base", events=[]))
                for n in range(0, N + 1):
                    cases.append(dict(base, id=f"{pid_}|{be}|{n}x1", events=[[n, 0]]))
                cases.append(dict(base, id=f"{pid_}|{be}|2x2", events=[[max(1, K - 1), 0]] * 2))
    # third family: every shipped source with a dsp (whatever the language feature: arrays, variants, closures, records,
    # macros, library functions …). No reference semantics is needed: the swapped run is compared with the uninterrupted
    # run of the same runtime. Files whose uninterrupted run fails (plugins, missing dsp) drop out below (`base_not_ok`).
    ncorpus = nclosure = 0
    if not args.replay:
        import corpusmut, re
        files = corpusmut.shipped_files(REPO if os.path.isdir(os.path.join(REPO, "lib")) else "/repo")
        csplits = [0, 1, 2, N // 2, N - 1] if ctx.tier == "quick" else list(range(0, N + 1))
        for f in files:
            src = open(f).read()
            if "dsp" not in src:
                continue
            if re.search(r"\|[^|\n]*\|", re.sub(r"//[^\n]*", "", src)) or "letrec" in src:
                # a lambda: signal state may live in closure instances (e.g. `let c = makecounter()`), which global
                # initialisation recreates at a swap — outside the class the property quantifies over (state in
                # self/mem/delay cells of dsp's own layout)
                nclosure += 1
                continue
            ncorpus += 1
            pid_ = "file:" + os.path.relpath(f, REPO)
            for be in ("vm", "wasm"):
                base = dict(backend=be, srcs=[src], times=N, inputs=[[0.5]] * N, prog_id=pid_, path=f)
                cases.append(dict(base, id=f"{pid_}|{be}|base", events=[]))
                for n in csplits:
                    cases.append(dict(base, id=f"{pid_}|{be}|{n}x1", events=[[n, 0]]))
                cases.append(dict(base, id=f"{pid_}|{be}|3x2+5", events=[[3, 0], [3, 0], [5, 0]]))
        # fourth family: corpus/C06/*.json, minimised witnesses of repaired findings (W1: array handles kept in state cells)
        cdir = os.path.join(VERIF, "corpus", "C06")
        for fn in sorted(os.listdir(cdir)) if os.path.isdir(cdir) else []:
            if not fn.endswith(".json"):
                continue
            r = json.load(open(os.path.join(cdir, fn)))
            pid_ = "corpus:" + fn[:-5]
            for be in ("vm", "wasm"):
                base = dict(backend=be, srcs=[r["src"]], times=N, inputs=[[0.5]] * N, prog_id=pid_)
                cases.append(dict(base, id=f"{pid_}|{be}|base", events=[]))
                for n in range(0, N + 1):
                    cases.append(dict(base, id=f"{pid_}|{be}|{n}x1", events=[[n, 0]]))
                cases.append(dict(base, id=f"{pid_}|{be}|3x2+5", events=[[3, 0], [3, 0], [5, 0]]))
    res = run_hist(cases)
    pred = predicted_streams(cases, N)
    failures, stats, nontriv, samples = [], collections.Counter(), set(), []
    basel = {}
    for c in cases:
        if c["id"].endswith("|base"):
            basel[(c["prog_id"], c["backend"])] = res[c["id"]]
    for c in cases:
        if c["id"].endswith("|base"):
            continue
        st, out = res[c["id"]]
        bst, bout = basel.get((c["prog_id"], c["backend"]), ("?", "?"))
        stats["evaluations"] += 1
        if c["prog_id"].startswith("gated") and c["backend"] == "wasm" and basel.get((c["prog_id"], "vm")) != (bst, bout):
            # a stateful call inside an `if` arm (finding F3, repaired): the uninterrupted WASM run must be the VM's
            stats["gated_wasm_base_differs_from_vm"] += 1
            failures.append((c, f"gated family: the uninterrupted WASM run differs from the VM's: {bst[:80]}", basel.get((c["prog_id"], "vm"))[1], bout))
            continue
        if not bst.startswith("ok"):
            stats["base_not_ok_" + bst.split(" ")[0]] += 1
            if bst.split(" ")[0] not in ("compile-error",):
                pass  # crashes of the uninterrupted run are C03's business
            continue
        # (former finding W1 -- an array handle kept in a state cell did not survive the WASM engine swap -- is repaired:
        # `invalid array ID` is a failure like any other)
        if not st.startswith("ok") or "refused" in st or "compile-error" in st:
            failures.append((c, f"swap run failed: {st[:200]}", bout, out))
        elif out != bout:
            first = next((i for i, (a, b) in enumerate(zip(out.split(";"), bout.split(";"))) if a != b), -1)
            failures.append((c, f"samples differ from the uninterrupted run from sample {first}", bout, out))
        else:
            # the whole session as PREDICTED by the model (reference semantics + published layout + model of the migration):
            # judged where the model's uninterrupted stream is the runtime's (that equality is C01/C02's business)
            ev = ",".join(f"{t}:{k}" for t, k in c["events"])
            pb, ps = pred.get((c["prog_id"], "-")), pred.get((c["prog_id"], ev))
            if c.get("sx") and pb is not None and pb == bout:
                stats["session_model_judged"] += 1
                if ps != out:
                    stats["session_model_differs"] += 1
                    prow, rrow = (ps or "").split(";"), out.split(";")
                    first = next((i for i, (a, b) in enumerate(zip(rrow, prow)) if a != b), -1)
                    failures.append((c, f"the runtime's samples differ from the session stream predicted by the model from sample {first} "
                                        f"(model: {'no stream' if ps is None else prow[first] if 0 <= first < len(prow) else '?'})", bout, out))
                    continue
            if len(set(out.split(";"))) > 2:
                nontriv.add(hash((c["srcs"][0], c["backend"], str(c["events"]))))
                if len(samples) < 3 and stats["evaluations"] % 211 == 5:
                    samples.append({"src": c["srcs"][0], "backend": c["backend"], "events": c["events"], "samples": out[:160]})
    for k in known:
        ctx.known_finding(f"{k['id']} {k['what']} (histories hit this run: {stats['known_' + k['id'] + '_histories']})")
    if failures:
        failures.sort(key=lambda f: len(f[0]["srcs"][0]))
        c, why, bout, out = failures[0]
        rep = {"cases": [dict(c, id="replay|" + c["backend"] + "|base", events=[], prog_id="replay"), dict(c, id="replay|" + c["backend"] + "|swap", prog_id="replay")],
               "why": why, "src": c["srcs"][0], "events": c["events"], "backend": c["backend"], "uninterrupted": bout[:1500], "with_swap": out[:1500],
               "failing_cases": len(failures)}
        ctx.violation(f"hot swap of an unchanged program is audible on {c['backend']} ({why}) in {len(failures)} histories; smallest program:\n{c['srcs'][0]}events={c['events']}", rep)
    if not proved and not failures:
        ctx.violation("proof obligation broken: " + "; ".join(ctx._broken), {"stage": "prove", "theorems": ctx._broken,
                      "lake": getattr(ctx, "_lake_errors", "")}, found_input=False)
    ctx.coverage.update({
        "evaluations": stats["evaluations"],
        "distinct_nontrivial": len(nontriv),
        "rule": "generated stateful programs x both runtimes x (every split point 0..%d with one swap, plus random repeated swaps): the swapped run must equal the uninterrupted run of the same runtime sample for sample; non-trivial = output takes more than two distinct values over time" % N,
        "samples": samples or [{"note": "replay mode"}],
        "traces_validated_against_impl": stats["evaluations"],
        "failures": len(failures),
        "session_model": {"judged": stats["session_model_judged"], "runtime_differs_from_predicted": stats["session_model_differs"]},
        "skipped": {k: v for k, v in stats.items() if k.startswith("base_not_ok") or k.startswith("gated_")},
        "shipped_sources_with_dsp": ncorpus,
        "shipped_sources_with_lambdas(not judged: state may live in closure instances)": nclosure,
        "shipped_sources_judged(both runtimes counted)": len(set(c["prog_id"] + c["backend"] for c in cases if c["prog_id"].startswith("file:") and basel.get((c["prog_id"], c["backend"]), ("?",))[0].startswith("ok"))),
    })
    ctx.finish("proof")
