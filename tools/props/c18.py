"""C18 — generated Rust code behaves like the VM.

prove:      Props/C18.lean (dispatch loop = block graph, fall-through arm = innermost arm, embedded StateStorage = VM step)
correspond: (a) template StateStorage (its text, compiled with rustc) vs `rustRun` on random traces of state operations;
            (b) the dispatch loop parsed back from the generated Rust text vs `encode` of the MIR control skeleton, and the
                `nested` premise on every MIR function;
            (c) translation validation, which decides the property: real `emit_rust` -> rustc -> run, every output word against
                the VM and the Lean reference evaluator; `emit_rust` Err = refused (allowed), Ok that does not build or prints
                other samples = violation.
"""
import collections, math, re, shutil, struct
from vlib import *
import progcheck as pc
sys.path.insert(0, os.path.join(VERIF, "tools", "gen"))
import coregen

MODULES = ["Mimium.Props.C18"]
WORK = os.path.join(VERIF, "work", "c18")
TEMPLATE = os.path.join(REPO, "crates/lib/mimium-lang/src/compiler/mimium_placeholder.rs.template")
RUSTC = os.environ.get("RUSTC", "rustc")


# ---------------------------------------------------------------------------------------------------------------
# (a) the template's StateStorage, compiled as it stands

SCAFFOLD_MAIN = r'''
fn hexw(s: &str) -> Word { u64::from_str_radix(s, 16).unwrap() }
fn show(ws: &[Word]) -> String {
    if ws.is_empty() { ".".to_string() } else { ws.iter().map(|w| format!("{:x}", w)).collect::<Vec<_>>().join(",") }
}
fn main() {
    use std::io::BufRead;
    let stdin = std::io::stdin();
    for line in stdin.lock().lines() {
        let line = line.unwrap();
        let f: Vec<&str> = line.split('\t').collect();
        if f.len() < 3 { continue; }
        let mut st = StateStorage::new(f[1].parse().unwrap());
        let mut out: Vec<Word> = vec![];
        for op in f[2].split(';').filter(|o| !o.is_empty()) {
            let (k, rest) = op.split_at(1);
            match k {
                "u" => st.push_pos(rest.parse().unwrap()),
                "o" => st.pop_pos(rest.parse().unwrap()),
                "g" => out.extend(st.get_state(rest.parse().unwrap())),
                "s" => {
                    let ws: Vec<Word> = rest.split(',').filter(|w| !w.is_empty()).map(hexw).collect();
                    st.set_state(&ws, ws.len());
                }
                "m" => out.push(st.mem(hexw(rest))),
                "d" => {
                    let a: Vec<&str> = rest.split(',').collect();
                    out.push(st.delay(hexw(a[1]), hexw(a[2]), a[0].parse().unwrap()));
                }
                _ => panic!("bad op"),
            }
        }
        println!("{}\t{}\t{}\t{}", f[0], st.pos, show(&st.rawdata), show(&out));
    }
}
'''


def build_scaffold(ctx):
    t = open(TEMPLATE).read()
    m = re.search(r"#\[derive\(Clone, Default\)\]\nstruct StateStorage \{.*?\n\}\n\nimpl StateStorage \{\n.*?\n\}\n", t, re.S)
    w = re.search(r"fn word_to_f64\(value: Word\) -> f64 \{[^}]*\}", t)
    if not m or not w:
        ctx.violation("template: StateStorage text not found", {"stage": "scaffold", "correspondence": "template StateStorage"}, found_input=False)
        return None
    src = "#![allow(dead_code)]\npub type Word = u64;\n" + w.group(0) + "\n" + m.group(0) + SCAFFOLD_MAIN
    path = os.path.join(WORK, "scaffold.rs")
    open(path, "w").write(src)
    p = run([RUSTC, "--edition=2024", "-C", "opt-level=0", "-C", "debuginfo=0", "-A", "warnings", path, "-o", path[:-3]], timeout=600)
    if p.returncode != 0:
        ctx.violation("the template's StateStorage does not compile on its own: " + p.stderr[-800:],
                      {"stage": "scaffold", "correspondence": "template StateStorage", "stderr": p.stderr[-4000:]}, found_input=False)
        return None
    return path[:-3]


TIMES = [0.0, 1.0, 2.0, 2.5, 0.999, -1.0, -0.0, 3.0, 7.0, 1e300, float("inf"), float("-inf"), float("nan"), 4.0, 1.5]


def gen_traces(seed, n):
    r = coregen.Rng(seed * 7919 + 18)
    out = []
    for i in range(n):
        size = r.pick([0, 1, 2, 3, 4, 6, 8, 12, 16, 24])
        ops, pos = [], 0
        inb = r.chance(2, 3)          # two thirds of the traces try to stay inside the storage
        for _ in range(1 + r.below(10)):
            k = r.weighted([("u", 3), ("o", 3), ("g", 2), ("s", 2), ("m", 3), ("d", 4)])
            room = max(0, size - pos)
            if k == "u":
                a = r.below(room + 1) if inb else r.below(6)
                ops.append(f"u{a}")
                pos += a
            elif k == "o":
                a = r.below(pos + 1) if inb else r.below(pos + 3)
                ops.append(f"o{a}")
                pos = max(0, pos - a)
            elif k == "g":
                ops.append(f"g{r.below(room + 1) if inb else r.below(5)}")
            elif k == "s":
                m = r.below(room + 1) if inb else r.below(4)
                ops.append("s" + ",".join("%x" % r.below(1000) for _ in range(min(m, 4))))
            elif k == "m":
                if inb and room < 1:
                    continue
                ops.append("m%x" % r.below(1 << 20))
            else:
                ln = r.pick([0, 1, 2, 3, 4, 5, 8])
                if inb and room < ln + 2:
                    ln = max(0, room - 2) if room >= 3 else 0
                    if ln == 0 and room < 2:
                        continue
                ops.append("d%d,%x,%016x" % (ln, r.below(1 << 16), coregen.f64bits(r.pick(TIMES))))
        out.append((f"t{i}", size, ";".join(ops)))
    return out


def scaffold_correspondence(ctx, stats):
    exe = build_scaffold(ctx)
    if exe is None:
        return
    n = 4000 if ctx.tier == "quick" else 60000
    traces = gen_traces(ctx.seed, n)
    impl = run([exe], input="".join(f"{i}\t{s}\t{o}\n" for i, s, o in traces), timeout=600)
    model = driver("C18", input="".join(f"st\t{i}\t{s}\t{o}\n" for i, s, o in traces))
    il = {l.split("\t")[0]: l.split("\t")[1:] for l in impl.stdout.splitlines()}
    ml = {l.split("\t")[0]: l.split("\t")[1:] for l in model.stdout.splitlines()}
    bad = []
    for i, s, o in traces:
        a, b = il.get(i), ml.get(i)
        if a is None and impl.returncode != 0:
            # the template's code panicked on this trace (the model is total); later traces were not run
            bad.append({"id": i, "size": s, "ops": o, "template": "process died: " + impl.stderr.strip()[-300:], "model": b})
            break
        stats["scaffold_traces"] += 1
        if a is None or b is None or a != b[:3]:
            bad.append({"id": i, "size": s, "ops": o, "template": a, "model": b})
            continue
        stats["scaffold_vm_" + b[3]] += 1
        if b[3] == "differs" and "d0," not in o:
            bad.append({"id": i, "size": s, "ops": o, "template": a, "model": b, "note": "in-bounds trace differs from vmRun (contradicts C18_embedded_state_eq_vm_state)"})
    if bad:
        bad.sort(key=lambda d: len(d["ops"]))
        vmdiff = [b for b in bad if "note" in b]
        if vmdiff:      # a concrete in-bounds trace on which the template's scaffold leaves the VM's step function
            ctx.violation(f"the template's StateStorage differs from the VM's state machine on an in-bounds trace: storage of {vmdiff[0]['size']} words, ops={vmdiff[0]['ops']} ({len(vmdiff)} traces)",
                          dict(vmdiff[0], stage="scaffold", theorem="C18_embedded_state_eq_vm_state", cases=len(vmdiff)))
        else:
            ctx.violation(f"template StateStorage and Model/RustGen.lean rustRun disagree on {len(bad)} traces; smallest: size={bad[0]['size']} ops={bad[0]['ops']}",
                          dict(bad[0], stage="scaffold", correspondence="template StateStorage vs rustRun", cases=len(bad)), found_input=False)


# ---------------------------------------------------------------------------------------------------------------
# (b) the dispatch loop, parsed back from the generated text

def valnum(expr):
    m = re.search(r"\b(reg|arg)_(\d+)\b", expr)
    if m:
        return 4 * int(m.group(2)) + (0 if m.group(1) == "reg" else 1)
    m = re.search(r"encode_function\((\d+)\)", expr)
    if m:
        return 4 * int(m.group(1)) + 2
    if "0u64" in expr:
        return 3
    return 7


def canon_lines(lines):
    """control statements of a list of emitted lines, in the notation of `RS.show` (Model/RustGenIO.lean)"""
    out, i = [], 0
    L = [l.strip() for l in lines]
    while i < len(L):
        l = L[i]
        m = re.fullmatch(r"pred_bb = (\d+);", l)
        if m:
            out.append(f"sp{m.group(1)}")
            i += 1
            continue
        m = re.fullmatch(r"bb = if truthy\((.*)\) \{ (\d+)usize \} else \{ (\d+)usize \};", l)
        if m:
            out.append(f"bi{valnum(m.group(1))},{m.group(2)},{m.group(3)}")
            i += 1
            continue
        m = re.fullmatch(r"bb = (\d+)usize;", l)
        if m:
            out.append(f"bb{m.group(1)}")
            i += 1
            continue
        m = re.fullmatch(r"bb = \(\((\d+)isize\) \+ \((-?\d+)isize\)\) as usize;", l)
        if m:
            v = int(m.group(1)) + int(m.group(2))
            out.append(f"bb{v if v >= 0 else (1 << 64) + v}")
            i += 1
            continue
        m = re.fullmatch(r"let scrutinee = word_to_i64\((.*)\);", l)
        if m:
            sc = valnum(m.group(1))
            i += 1
            while i < len(L) and L[i] != "bb = match scrutinee {":
                mm = re.fullmatch(r"pred_bb = (\d+);", L[i])
                if mm:
                    out.append(f"sp{mm.group(1)}")
                i += 1
            i += 1
            cases, dflt = [], "-"
            while i < len(L) and L[i] != "};":
                mm = re.fullmatch(r"(-?\d+) => (\d+)usize,", L[i])
                if mm:
                    cases.append(f"{mm.group(1)}:{mm.group(2)}")
                mm = re.fullmatch(r"_ => (\d+)usize,", L[i])
                if mm:
                    dflt = mm.group(1)
                i += 1
            i += 1
            out.append(f"bs{sc},{dflt}" + "".join("," + c for c in cases))
            continue
        if l == "continue;":
            out.append("c")
            i += 1
            continue
        m = re.fullmatch(r"if pred_bb == (\d+)usize \{", l)
        if m and i + 5 < len(L):
            m1 = re.fullmatch(r"(reg_\d+) = (.*);", L[i + 1])
            m2 = re.fullmatch(r"\} else if pred_bb == (\d+)usize \{", L[i + 2])
            m3 = re.fullmatch(r"(reg_\d+) = (.*);", L[i + 3])
            if m1 and m2 and m3 and L[i + 4] == "} else {" and L[i + 5].startswith("panic!("):
                out.append(f"pi{valnum(m1.group(1))},{m.group(1)},{valnum(m1.group(2))},{m2.group(1)},{valnum(m3.group(2))}")
                i += 7
                continue
        m = re.fullmatch(r"(reg_\d+) = match pred_bb \{", l)
        if m:
            arms = []
            i += 1
            while i < len(L) and L[i] != "};":
                mm = re.fullmatch(r"(\d+)usize => (.*),", L[i])
                if mm:
                    arms.append(f"{mm.group(1)}:{valnum(mm.group(2))}")
                i += 1
            i += 1
            out.append(f"pm{valnum(m.group(1))}" + "".join("," + a for a in arms))
            continue
        if re.match(r"return\b", l):
            out.append("r")
            i += 1
            continue
        if l.startswith("panic!(") and "fell through without terminator" in l:
            out.append("x")
            i += 1
            continue
        i += 1
    return ";".join(out)


def parse_functions(rs_text):
    """direct (non-dispatch) emitted functions in order -> canonical dispatch-loop text"""
    lines = rs_text.split("\n")
    start = next((i for i, l in enumerate(lines) if l.startswith("    fn dispatch_")), None)
    res = []
    if start is None:
        return res
    i = start
    while i < len(lines):
        l = lines[i]
        if l.startswith("    fn ") and not l.startswith("    fn dispatch_"):
            j = i + 1
            while j < len(lines) and lines[j] != "    }":
                j += 1
            body = lines[i + 1:j]
            if any(b == "        let mut bb: usize = 0;" for b in body):
                arms, cur = [], None
                for b in body:
                    if re.fullmatch(r" {16}\d+ => \{", b):
                        cur = []
                    elif b == " " * 16 + "}," and cur is not None:
                        arms.append(canon_lines(cur))
                        cur = None
                    elif cur is not None:
                        cur.append(b)
                res.append("L:" + "|".join(arms))
            else:
                res.append("S:" + canon_lines(body))
            i = j
        elif l == "}":
            break
        i += 1
    return res


def shape_of(n):
    """expression shape (Model/MirLayout.lean `Sh`, prefix notation) of a generated AST node: where mirgen opens blocks"""
    def seq(xs):
        xs = [x for x in xs if x != "L"]
        if not xs:
            return "L"
        out = xs[-1]
        for x in reversed(xs[:-1]):
            out = "S" + x + out
        return out
    k, a = n.kind, n.a
    if k == "if":
        return "I" + shape_of(a[0]) + shape_of(a[1]) + shape_of(a[2])
    if k == "lam":
        return "L"                      # the body is another MIR function
    return seq([shape_of(ch) for _, ch in coregen.children(n)])


# ---------------------------------------------------------------------------------------------------------------
# steering away from the open known findings D1..D4 (one root cause: `GetElement` yields a pointer and several lowering
# paths of rustgen use the pointer word itself): a bare tuple projection as the value of an `if` arm, as the input of
# `mem`/`delay`, or as the time operand of `delay`.  The generated programs get `proj + 0.0` there.

def _wrap(n):
    return coregen.Node("bin", "add", n, coregen.Node("lit", "0.0")) if n.kind in ("proj", "field") else n


def _wrap_tail(n):
    if n.kind in ("let", "lett", "set", "letp", "letr", "setf", "letrp"):
        return coregen.Node(n.kind, *(list(n.a[:-1]) + [_wrap_tail(n.a[-1])]))
    if n.kind == "if":
        return n            # its arms are handled where the `if` node itself is visited
    return _wrap(n)


def steer_node(n):
    for key, ch in coregen.children(n):
        n = coregen.replace_child(n, key, steer_node(ch))
    if n.kind == "mem":
        return coregen.Node("mem", _wrap(n.a[0]), n.a[1])
    if n.kind == "delay":
        return coregen.Node("delay", n.a[0], _wrap(n.a[1]), _wrap(n.a[2]), n.a[3])
    if n.kind == "if":
        return coregen.Node("if", n.a[0], _wrap_tail(n.a[1]), _wrap_tail(n.a[2]))
    return n


def in_known_class(n):
    """the class predicate of D1..D4 on a generated AST node (what `steer_node` removes)"""
    PJ = ("proj", "field")       # a record field access is a projection too
    if n.kind == "mem" and n.a[0].kind in PJ:
        return True
    if n.kind == "delay" and (n.a[1].kind in PJ or n.a[2].kind in PJ):
        return True
    if n.kind == "if":
        for arm in (n.a[1], n.a[2]):
            t = arm
            while t.kind in ("let", "lett", "set", "letp", "letr", "setf", "letrp"):
                t = t.a[-1]
            if t.kind in ("proj", "field"):
                return True
    return any(in_known_class(ch) for _, ch in coregen.children(n))


def prog_in_known_class(p):
    return any(in_known_class(f.body) for f in p.fns + [p.dsp]) or any(in_known_class(e) for _, e in p.globals)


def steer_prog(p):
    def fn(f):
        return coregen.Fn(f.name, f.params, f.ptypes, f.ret, steer_node(f.body), f.uses_self, f.stateful)
    return coregen.Prog([(x, steer_node(e)) for x, e in p.globals], [fn(f) for f in p.fns], fn(p.dsp))


def steer_cases(cases, stats):
    # (findings D1..D4 — bare element accesses as operands of Phi / delay / mem / array access — are repaired in /repo 53f7184:
    # generated programs are no longer rewritten away from them; the rewriting stays available for a listed D-class finding)
    if not any(k.get("id") in ("D1", "D2", "D3", "D4") for k in load_known("C18")):
        return cases
    for c in cases:
        if "prog" in c and prog_in_known_class(c["prog"]):
            c["prog"] = steer_prog(c["prog"])
            c["src"], c["sx"] = c["prog"].src(), c["prog"].sx()
            stats["steered_away_from_D1_D4"] += 1
    return cases


# ---------------------------------------------------------------------------------------------------------------
# (c) translation validation

def canon_word(h):
    b = int(h, 16)
    f = struct.unpack("<d", struct.pack("<Q", b))[0]
    return "nan" if math.isnan(f) else "%016x" % b


def run_cases(cases, tag, mutate=None):
    """cases: dict(id, src, times, inputs, sx?) -> id -> dict(emit, msg, cfg, vm, rust, rs_path)"""
    d = os.path.join(WORK, tag)
    shutil.rmtree(d, ignore_errors=True)
    os.makedirs(d)
    for k, c in enumerate(cases):
        c["_rs"] = os.path.join(d, f"p{k}.rs")
    nsh = min(NCPU, max(1, len(cases) // 4))
    shards = [cases[i::nsh] for i in range(nsh)]

    def emit(sh):
        inp = "".join(json.dumps({"id": c["id"], "src": c["src"], "times": c["times"], "inputs": c["inputs"], "out": c["_rs"]}) + "\n" for c in sh)
        p = mmh("C18", [], input=inp, timeout=1800)
        res = {}
        for l in p.stdout.splitlines():
            try:
                o = json.loads(l)
                if isinstance(o, dict) and "id" in o and "emit" in o:      # (`probeln` of the VM prints to stdout too)
                    res[o["id"]] = o
            except ValueError:
                pass
        for c in sh:
            res.setdefault(c["id"], {"id": c["id"], "emit": "harness-died", "msg": f"rc={p.returncode} {p.stderr[-300:]}", "cfg": [], "vm": "harness-died"})
        return res
    out = {}
    for r in parallel(shards, emit, nproc=nsh):
        out.update(r)

    def build_run(c):
        o = out[c["id"]]
        o["rs_path"] = c["_rs"]
        if o["emit"] != "ok":
            o["rust"] = "-"
            return
        if mutate:
            t = open(c["_rs"]).read()
            open(c["_rs"], "w").write(mutate(t))
        exe = c["_rs"][:-3]
        p = run([RUSTC, "--edition=2024", "-C", "opt-level=0", "-C", "debuginfo=0", "-A", "warnings", c["_rs"], "-o", exe], timeout=900)
        o["rustc_s"] = round(p.wall, 2)
        if p.returncode != 0:
            errs = [l for l in p.stderr.splitlines() if l.startswith("error")]
            o["rust"] = "build-error " + " | ".join(errs[:3])
            o["rustc_stderr"] = p.stderr[-3000:]
            return
        if not o.get("has_dsp"):
            o["rust"] = "no-dsp"
            return
        try:
            q = run([exe], timeout=120)
        except subprocess.TimeoutExpired:
            o["rust"] = "timeout"
            return
        finally:
            try:
                os.remove(exe)          # a few MB each: only the generated source is kept
            except OSError:
                pass
        if q.returncode != 0:
            o["rust"] = "panic " + q.stderr.strip().replace("\n", " ")[:300]
            return
        rows = [l.split(",") if l else [] for l in q.stdout.split("\n")[:-1]]
        nout = len(rows[0]) if rows else 0
        o["rust"] = f"ok {nout} " + ",".join(canon_word(w) for r in rows for w in r)
    parallel(cases, build_run)
    return out


def judge(o, model):
    """None = fine (agrees, or refused), else (kind, text). kind 'violation' | 'skip'"""
    vm = o["vm"]
    if o["emit"] in ("panic", "harness-died"):
        if vm.startswith("ok"):
            return ("violation", f"emit_rust neither returns Ok nor Err ({o['emit']}: {o['msg'][:200]}) on a program the VM runs")
        return ("skip", "generator-panic-and-vm-not-ok")
    if o["emit"] == "err":
        return None if not vm.startswith("ok") else ("refused", o["msg"][:160])
    r = o["rust"]
    if r.startswith("build-error"):
        return ("violation", "emit_rust returned Ok but the emitted Rust does not build: " + r[:300])
    if not vm.startswith("ok"):
        if model and model.startswith("ok") and r.startswith("ok") and r != model:
            return ("violation", f"VM gives no reference ({vm.split(' ')[0]}); generated Rust differs from the reference semantics")
        return ("skip", "vm-" + vm.split(" ")[0])
    if r == "no-dsp":
        return ("skip", "no-dsp")
    if not r.startswith("ok"):
        m = re.search(r'"unexpected external call: ([^"]*)"', r)
        if m:       # the generated program asked the host for an external the host does not provide: an error naming it
            return ("refused", "at run time: host has no external function `" + m.group(1) + "`")
        return ("violation", f"generated Rust fails at run time ({r[:200]}) where the VM runs")
    if r != pc.norm_impl(vm):
        which = ""
        if model and model.startswith("ok"):
            who = "VM" if model == pc.norm_impl(vm) else ("generated Rust" if model == r else None)
            which = f" (the reference semantics agrees with the {who})" if who else " (the reference semantics agrees with neither)"
        return ("violation", "generated Rust prints other samples than the VM" + which)
    return None


def main(ctx, args):
    ctx.assumptions += [
        "rustgen's per-instruction lowering, the ABI packing, closures/memory handles of the template and rustc are NOT modelled: their agreement with the VM is decided by running generated programs (translation validation), never proved",
        "Model/RustGen.lean ports the control-flow emission of rustgen.rs and the template's StateStorage by hand; tie = tools/extract.py (constants, code shapes) + the two correspondences (dispatch loop parsed back from the emitted text; template StateStorage compiled as it stands)",
        "usize saturation of the state cursor at 2^64 is not modelled (Nat)",
        "host of the generated program: now = sample index, sample rate 48000 (as the harness runner gives the VM); NaN matches NaN",
        "generated programs come from tools/gen/coregen.py profiles scalar/core, steered away from the known defects of the pinned tree (F20, G3 …; F2 and F3 are repaired and generated), so that the VM is a usable reference",
    ]
    known = load_known("C18")
    os.makedirs(WORK, exist_ok=True)
    for d in os.listdir(WORK):          # nothing is cached between runs
        if d.startswith(("run", "shrink")):
            shutil.rmtree(os.path.join(WORK, d), ignore_errors=True)
    extract(ctx)        # a changed source shape is reported; the correspondences below still run and search for a concrete input
    proved = prove(ctx, MODULES, drivers=["drv_c18", "drv_prog", "drv_mir"])
    if proved and ctx.tier == "thorough":
        proved = leancheck(ctx, MODULES)
    if not build_harness(ctx):
        ctx.finish()
    stats = collections.Counter()
    t0 = time.time()
    scaffold_correspondence(ctx, stats)
    stats["scaffold_s"] = round(time.time() - t0, 1)

    times = 16 if ctx.tier == "quick" else 32
    mutate = None
    if os.environ.get("VERIF_C18_SELFTEST") == "mutate":      # self test of the verdict path: breaks the generated code
        mutate = lambda t: t.replace(") + word_to_f64(", ") - word_to_f64(")
    cases = []
    if args.replay:
        r = json.load(open(args.replay))
        cases = [{"id": "replay", "src": r["src"], "sx": r.get("sx"), "inputs": r.get("inputs", []), "times": r.get("times", 16)}]
    else:
        cdir = os.path.join(VERIF, "corpus", "C18")
        for fn in sorted(os.listdir(cdir)) if os.path.isdir(cdir) else []:
            if fn.endswith(".json"):
                c = json.load(open(os.path.join(cdir, fn)))
                cases.append({"id": "corpus:" + fn[:-5], "src": c["src"], "sx": c.get("sx"), "inputs": c.get("inputs", []), "times": c.get("times", 8),
                              "expect": c.get("expect"), "shapes": c.get("shapes", {})})
        plan = ([("scalar_nr", 30), ("core_nr", 200), ("deep_nr", 30), ("closure_assign_nr", 60), ("tupassign_nr", 60),
                 ("nested_assign_nr", 50), ("nested_nr", 20)] if ctx.tier == "quick" else
                [("scalar_nr", 500), ("core_nr", 900), ("deep_nr", 300), ("closure_assign_nr", 100), ("nolam", 100), ("notup", 100), ("tupassign_nr", 300),
                 ("nested_assign_nr", 400), ("nested_nr", 150)])
        for prof, n in plan:
            cs, st = pc.gen_cases(ctx.seed, n, prof, times)
            cases += steer_cases(cs, stats)
    for k in known:
        if "src" in k:
            cases.append({"id": "known:" + k["id"], "src": k["src"], "sx": k.get("sx"), "inputs": k.get("inputs", []), "times": k.get("times", 8), "known": k})
    # corpus and known findings first, then the generated programs; in chunks, under a wall-clock budget (rustc time varies
    # with the load of the machine): what was not reached is counted, never silently dropped
    cases.sort(key=lambda c: 0 if c["id"].startswith("corpus:") else (1 if "known" in c else 2))
    budget = (100 if ctx.tier == "quick" else 1200) if not args.replay else 1e9
    t0, res, done = time.time(), {}, []
    chunk = 3 * NCPU
    for k in range(0, len(cases), chunk):
        part = cases[k:k + chunk]
        if k > 0 and time.time() - t0 > budget and not any("known" in c or c["id"].startswith("corpus:") for c in part):
            stats["generated_programs_not_reached_in_time_budget"] += len(cases) - k
            break
        res.update(run_cases(part, f"run{k // chunk}", mutate))
        done += part
    cases = done
    stats["programs_s"] = round(time.time() - t0, 1)
    # reference semantics
    minp = "".join(f"{c['id']}\t{c['times']}\t{coregen.inputs_field(c['inputs'])}\t{c['sx']}\n" for c in cases if c.get("sx"))
    model = {}
    if minp:
        q = run([os.path.join(LEANBIN, "drv_prog")], input=minp, timeout=3600)
        for l in q.stdout.splitlines():
            f = l.split("\t")
            if len(f) >= 2:
                model[f[0]] = f[1]
    # fourth opinion: the Lean MIR semantics on the MIR the generator consumed; and the hypotheses of C18_cfg_run_is_mir_run
    # (`encode` of the control skeleton WITH the operand checks is defined, the skeleton is forward and nested) on every function
    mirres = {c["id"]: [res[c["id"]]["vm"], None, model.get(c["id"]), None] for c in cases}
    pc.mir_run(cases, mirres)
    mir = {i: v[3] for i, v in mirres.items()}
    mstatic = pc.mir_static(cases)
    mir_matrix, mir_hyp = collections.Counter(), collections.Counter()
    mir_hyp_bad = []
    for c in cases:
        st = mstatic.get(c["id"], {"status": "missing"})
        if st["status"] == "ok":
            mir_hyp["functions"] += st["fns"]
            mir_hyp["skeleton_encodable"] += st["enc"]
            mir_hyp["skeleton_forward_and_nested"] += st["fwdnested"]
            if res[c["id"]]["emit"] == "ok" and (st["enc"] != st["fns"] or st["fwdnested"] != st["fns"]):
                mir_hyp_bad.append((c, st))
    # (b) dispatch loop of every emitted function
    cfg_lines, cfg_meta = [], []
    for c in cases:
        o = res[c["id"]]
        if o["emit"] == "ok" and os.path.exists(o["rs_path"]):
            o["parsed"] = parse_functions(open(o["rs_path"]).read())
            for k, f in enumerate(o["cfg"]):
                cfg_lines.append(f"cfg\t{len(cfg_meta)}\t{f['blocks']}\n")
                cfg_meta.append((c, k, f))
    enc_bad = []
    if cfg_lines:
        q = driver("C18", input="".join(cfg_lines))
        ml = q.stdout.splitlines()
        # block numbering: `lay` of the source shape against the arms of the real MIR (named functions of generated programs)
        lay_lines, lay_meta = [], []
        for idx, (c, k, f) in enumerate(cfg_meta):
            unique = sum(1 for g in res[c["id"]]["cfg"] if g["label"] == f["label"]) == 1     # a lambda bound to `let f3 = …` is labelled f3 too
            if "prog" in c:
                fn = next((x for x in c["prog"].fns + [c["prog"].dsp] if x.name == f["label"]), None)
                if fn is not None and unique:
                    lay_lines.append(f"lay\t{len(lay_meta)}\t{shape_of(fn.body)}\n")
                    lay_meta.append(idx)
            elif f["label"] in c.get("shapes", {}):           # corpus programs carry hand-written shapes (match / enum)
                lay_lines.append(f"lay\t{len(lay_meta)}\t{c['shapes'][f['label']]}\n")
                lay_meta.append(idx)
        if lay_lines:
            ql = driver("C18", input="".join(lay_lines)).stdout.splitlines()
            for j, idx in enumerate(lay_meta):
                c, k, f = cfg_meta[idx]
                want = ql[j].split("\t")[1] if j < len(ql) and "\t" in ql[j] else "driver-died"
                g = ml[idx].split("\t") if idx < len(ml) else []
                got = g[3] if len(g) > 3 else "?"
                stats["layouts_checked"] += 1
                if want != ".":
                    stats["layouts_with_branches"] += 1
                if want != got:
                    enc_bad.append({"case": c["id"], "src": c["src"], "function": f["label"], "mir_control_skeleton": f["blocks"],
                                    "note": "block numbering differs from Model/MirLayout.lean `lay`", "lay_arms": want, "mir_arms": got})
        for idx, (c, k, f) in enumerate(cfg_meta):
            g = ml[idx].split("\t") if idx < len(ml) else ["?", "?", "driver-died"]
            stats["functions_checked"] += 1
            parsed = res[c["id"]]["parsed"]
            got = parsed[k] if k < len(parsed) else "<missing>"
            if got.startswith("L:"):
                stats["functions_with_loop"] += 1
            if len(g) < 3 or g[2] != got:
                enc_bad.append({"case": c["id"], "src": c["src"], "function": f["label"], "mir_control_skeleton": f["blocks"],
                                "model_encoding": g[2] if len(g) > 2 else g, "emitted_encoding": got})
            elif g[1] != "11":
                enc_bad.append({"case": c["id"], "src": c["src"], "function": f["label"], "mir_control_skeleton": f["blocks"], "nested_forward": g[1],
                                "note": "this MIR function is not properly nested / has a back edge: premise of C18_fallthrough_arm_is_innermost / C18_dispatch_loop_terminates fails"})
    # decide
    failures, refused, skipped, nontriv, samples = [], [], collections.Counter(), set(), []
    for c in cases:
        o = res[c["id"]]
        stats["evaluations"] += 1
        stats["emit_" + o["emit"]] += 1
        v = judge(o, model.get(c["id"]))
        mr = mir.get(c["id"])
        if o["emit"] == "ok" and o["rust"].startswith("ok") and o["vm"].startswith("ok"):
            if mr is None or not mr.startswith("ok"):
                mir_matrix["mir:" + str(mr).split(" ")[0]] += 1
            else:
                mir_matrix["mir" + ("=rust" if mr == o["rust"] else "!rust") + ("=vm" if mr == pc.norm_impl(o["vm"]) else "!vm")] += 1
        if "known" in c:
            k = c["known"]
            if v and v[0] == "violation":
                ctx.known_finding(f"{k['id']} {k['what']} [still fails: {v[1][:100]}]")
            else:
                ctx.notes.append(f"known finding {k['id']} no longer reproduces")
            continue
        if c.get("expect") == "refuse" and o["emit"] == "ok" and not (v and v[0] == "violation"):
            ctx.notes.append(f"{c['id']}: expected to be refused, now accepted and agreeing with the VM")
        if v is None:
            if o["emit"] == "ok":
                stats["agree_with_vm"] += 1
                m = model.get(c["id"])
                if m and m.startswith("ok"):
                    stats["agree_with_model" if m == o["rust"] else "vm_and_rust_differ_from_model"] += 1
                if pc.nontrivial(o["rust"]):
                    nontriv.add(hash(c["src"]))
                    if len(samples) < 3:
                        samples.append({"src": c["src"], "inputs": c["inputs"][:3], "rust_words": o["rust"][:160], "rustc_s": o.get("rustc_s")})
            else:
                stats["refused_and_vm_rejects"] += 1
        elif v[0] == "refused":
            refused.append((c, v[1]))
        elif v[0] == "skip":
            skipped[v[1]] += 1
        else:
            failures.append((c, v[1], o))
    if failures:
        failures.sort(key=lambda f: len(f[0]["src"]))
        c, why, o = failures[0]
        rep = {"src": c["src"], "sx": c.get("sx"), "inputs": c["inputs"], "times": c["times"], "why": why, "vm": o["vm"][:1500], "rust": o["rust"][:1500],
               "model": (model.get(c["id"]) or "")[:1500], "emit": o["emit"], "emit_msg": o["msg"][:500], "failing_cases": len(failures), "case_id": c["id"],
               "rustc_stderr": o.get("rustc_stderr", "")[:1500], "mir_run": (mir.get(c["id"]) or "")[:1500],
               "localised_by_mir_run": ("rustgen / template (the MIR run agrees with the VM)" if mir.get(c["id"]) == pc.norm_impl(o["vm"]) else
                                        "bytecodegen / VM (the MIR run agrees with the generated Rust)" if mir.get(c["id"]) == o["rust"] else
                                        "unclear: MIR run " + str(mir.get(c["id"]))[:80])}
        if "prog" in c and not mutate:
            kind = why.split(":")[0][:40]

            def still(q):
                if prog_in_known_class(q):          # do not slide into the listed findings while shrinking
                    return False
                try:
                    cc = {"id": "s", "src": q.src(), "sx": q.sx(), "inputs": c["inputs"], "times": c["times"]}
                    vv = judge(run_cases([cc], "shrink")["s"], None)
                    return vv is not None and vv[0] == "violation" and vv[1].split(":")[0][:40] == kind
                except Exception:
                    return False
            try:
                q = coregen.shrink(c["prog"], still, 60)
                rep["shrunk"] = {"src": q.src(), "sx": q.sx()}
                rep["src"], rep["sx"] = q.src(), q.sx()
            except Exception as e:
                rep["shrink_error"] = str(e)
        ctx.violation(f"{why} — {len(failures)} programs; smallest:\n{rep['src']}", rep)
    if args.replay and refused and str(json.load(open(args.replay)).get("why", "")).startswith("refused"):
        c, m = refused[0]
        ctx.violation(f"emit_rust still refuses the replayed core-language program ({m})", {"src": c["src"], "inputs": c["inputs"], "times": c["times"], "why": "refused: " + m})
    gen_total = sum(1 for c in cases if "prog" in c and res[c["id"]]["vm"].startswith("ok"))
    gen_refused = [(c, m) for c, m in refused if "prog" in c]
    if gen_total and len(gen_refused) * 10 > gen_total and not failures:
        # the statement allows any refusal; a transpiler that refuses the plain core language would make this check vacuous
        gen_refused.sort(key=lambda x: len(x[0]["src"]))
        c, m = gen_refused[0]
        ctx.violation(f"emit_rust refuses {len(gen_refused)} of {gen_total} generated core-language programs that the VM runs ({m}); smallest:\n{c['src']}",
                      {"src": c["src"], "sx": c.get("sx"), "inputs": c["inputs"], "times": c["times"], "why": "refused: " + m, "refused": len(gen_refused), "of": gen_total})
    if enc_bad and not failures:
        enc_bad.sort(key=lambda d: len(d["src"]))
        what = enc_bad[0].get("note") or "dispatch loop of the generated text differs from Model/RustGen.lean `encode` of the MIR control skeleton"
        ctx.violation(f"{what} — {len(enc_bad)} functions (first: {enc_bad[0]['function']} of\n{enc_bad[0]['src']})",
                      dict(enc_bad[0], stage="encode", correspondence="emitted dispatch loop vs encode", cases=len(enc_bad)), found_input=False)
    if mir_hyp_bad and not failures:
        mir_hyp_bad.sort(key=lambda x: len(x[0]["src"]))
        c, st = mir_hyp_bad[0]
        ctx.violation(f"a function of an emitted program does not satisfy the hypotheses of C18_cfg_run_is_mir_run / C18_dispatch_loop_terminates "
                      f"(encodable {st['enc']}/{st['fns']}, forward+nested {st['fwdnested']}/{st['fns']}; {len(mir_hyp_bad)} programs); first:\n{c['src']}",
                      {"src": c["src"], "stage": "encode", "static": st, "correspondence": "Mir.Fn.cfg vs RustGen.encode"}, found_input=False)
    if not proved and not failures:
        ctx.violation("proof obligation broken: " + "; ".join(ctx._broken), {"stage": "prove", "theorems": ctx._broken,
                      "lake": getattr(ctx, "_lake_errors", "")}, found_input=False)
    rustc_times = [o.get("rustc_s") for o in res.values() if o.get("rustc_s") is not None]
    ctx.coverage.update({
        "evaluations": stats["evaluations"],
        "distinct_nontrivial": len(nontriv),
        "rule": "corpus of hand-written feature programs + type-directed random core programs (profiles scalar/core/deep; thorough adds closure_assign; bare projections in the operand positions of the known findings D1-D4 rewritten to `proj + 0.0`) -> real emit_rust -> rustc opt-level 0 -> run for %d samples; every output word bitwise against the VM (and the Lean reference evaluator); "
                "non-trivial = emitted, built, equal to the VM and output not constant; distinct = distinct source text" % times,
        "samples": samples or [{"note": "no agreeing non-trivial sample"}],
        "traces_validated_against_impl": stats["scaffold_traces"],
        "programs": stats["emit_ok"],
        "disagreements_checked": len(failures),
        "mir_semantics_fourth_opinion": {"what": "the Lean MIR semantics (Model/Mir.lean) on the dump of the MIR rustgen consumed, per emitted and running "
                                                 "program against the generated Rust and the VM (bitwise)", "cells": dict(mir_matrix),
                                         "hypotheses_of_C18_cfg_run_is_mir_run": dict(mir_hyp), "programs_violating_them": len(mir_hyp_bad)},
        "program_outcomes": {k: stats[k] for k in ("emit_ok", "emit_err", "emit_panic", "agree_with_vm", "agree_with_model", "vm_and_rust_differ_from_model", "refused_and_vm_rejects")},
        "refused_but_vm_runs": [{"src": c["src"][:300], "msg": m} for c, m in refused[:8]],
        "refused_but_vm_runs_count": len(refused),
        "skipped_no_reference": dict(skipped),
        "violations_found": len(failures),
        "steered_away_from_D1_D4": stats["steered_away_from_D1_D4"],
        "generated_programs_not_reached_in_time_budget": stats["generated_programs_not_reached_in_time_budget"],
        "dispatch_loop": {"functions_checked": stats["functions_checked"], "functions_with_loop": stats["functions_with_loop"], "encoding_mismatches": len(enc_bad),
                          "layouts_checked_against_lay": stats["layouts_checked"], "layouts_with_branches": stats["layouts_with_branches"]},
        "scaffold": {k: v for k, v in stats.items() if k.startswith("scaffold_")},
        "rustc_s_mean": round(sum(rustc_times) / len(rustc_times), 2) if rustc_times else None,
        "programs_wall_s": stats["programs_s"],
    })
    ctx.finish("proof")
