"""C01 — VM and WASM backends produce identical audio (both also compared with the Lean reference semantics)."""
import collections
from vlib import *
import progcheck as pc
sys.path.insert(0, os.path.join(VERIF, "tools", "gen"))
import coregen

MODULES = ["Mimium.Props.C01"]


def judge(vm, wasm, model):
    cv, cw = vm.split(" ")[0], wasm.split(" ")[0]
    if cv != cw:
        return f"accepted-by-one-backend-only(vm={cv},wasm={cw})"
    if cv != "ok":
        # both backends reject, or both fail the same way (e.g. unbounded recursion of a mutant): no audio to compare;
        # crashes of accepted programs are C03's business
        return None
    if pc.norm_impl(vm) != pc.norm_impl(wasm):
        return "samples-differ"
    if vm.split(" ")[1:3] != wasm.split(" ")[1:3]:
        return "channel-count-differs"
    if model is not None and model.startswith("ok") and pc.norm_impl(vm) != model:
        return "both-differ-from-reference-semantics"
    return None


def main(ctx, args):
    ctx.assumptions += [
        "Model/StateMachine.lean ports the state primitives of runtime/vm.rs and runtime/wasm.rs; tied by this differential run",
        "bytecodegen, wasmgen, wasmtime are exercised, not modelled",
        "corpus stream: every .mmm under lib/, examples/, mimium-test/tests/mmm that both backends accept with a dsp, plus token-level mutants (constant tweaks, operator swaps; constants next to `%` and zero are not injected: findings G4, G5)",
        "generated programs: profiles `scalar*`, `nolam` (tuples, nested patterns, records, tuple-valued self) and `records`; "
        "closures are in the stream (profiles core, closure_assign, nested, nested_assign: lambdas inside lambdas, inner closures escaping the middle one); "
        "stateful lambdas are not generated (listed: F11)",
    ]
    known = load_known("C01")
    if not extract(ctx):
        ctx.finish()
    proved = prove(ctx, MODULES, drivers=["drv_prog", "drv_mir"])
    if proved and ctx.tier == "thorough":
        proved = leancheck(ctx, MODULES)
    if not build_harness(ctx, bins=["runprog", "mir"]):
        ctx.finish()
    times = 24 if ctx.tier == "quick" else 96
    plan = [("scalar", 800, False), ("scalar_tself", 400, False), ("scalar_deep", 300, False), ("nolam", 700, False), ("records", 300, False),
            ("aggr", 400, False), ("scalar", 200, True),
            # closures (captured reads and writes, lambdas inside lambdas): both back ends agree on them since ee06339 / 4f22791
            ("core", 400, False), ("closure_assign", 200, False), ("nested", 300, False), ("nested_assign", 600, False)] if ctx.tier == "quick" else \
           [("scalar", 8000, False), ("scalar_tself", 4000, False), ("scalar_deep", 3000, False), ("nolam", 8000, False), ("records", 3000, False),
            ("aggr", 4000, False), ("scalar", 2000, True),
            ("core", 4000, False), ("closure_assign", 2000, False), ("nested", 2000, False), ("nested_assign", 6000, False)]
    allcases = []
    gstats = collections.Counter()
    # repaired WASM findings: G8-WSM (`callproj*`: two results of one tuple-returning function alive at once, as operands of one
    # operation / arguments of one call / with the second call inside a callee), F11 (`statelam`: stateful closures created inside
    # dsp; every instance owns fresh state), G5 (`modulo`: `%`). The reference semantics has neither stateful closures nor `%`
    # (it answers `error` / `bad-input` = no prediction): there the VM is compared with WASM only.
    k10 = 1 if ctx.tier == "quick" else 10
    plan += [("callproj", 400 * k10, False), ("callproj_lam", 200 * k10, False), ("statelam", 300 * k10, False), ("modulo", 300 * k10, False)]
    ctx.assumptions += [
        "since the repair of G5 (`%`), G7 (one-word tuple elements), G8-WSM (tuple results) and F11 (stateful closures created inside dsp): constants next to `%` are mutated, "
        "`%`, stateful lambdas and projections of calls of tuple-returning functions are generated (profiles `modulo`, `statelam`, `callproj*`), "
        "and corpus/C01/*.json holds the minimised witnesses (run first)",
    ]
    if args.replay:
        r = json.load(open(args.replay))
        allcases = [{"id": "replay", "src": r["src"], "sx": r.get("sx"), "inputs": r.get("inputs", []), "times": r.get("times", 16),
                     "scheduler": r.get("scheduler", False)}]
    else:
        import c02
        allcases = c02.corpus_cases("C01")          # hand-written programs first (corpus/C01)
        gstats["corpus_programs"] += len(allcases)
        off = 0
        for prof, n, sched in plan:
            cs, st = pc.gen_cases(ctx.seed, n, prof, times, start=off)
            off += n
            for c in cs:
                c["scheduler"] = sched
                if sched:
                    c["id"] += ":sched"
                if prof in ("statelam", "modulo"):
                    # no prediction: the reference semantics runs a closure body against a scratch state (a stateful lambda always
                    # reads zeros there) and has no `%`; VM against WASM only
                    c["sx"] = None
            gstats.update(st)
            allcases += cs
    # integer `match`: literal arm tables (dense, sparse, shifted), scrutinees sweeping from below the smallest arm through the
    # holes to above the largest; no reference semantics (the Core model has no `match`): VM against WASM
    if not args.replay:
        import matchgen
        for i in range(150 if ctx.tier == "quick" else 2000):
            msrc, minp = matchgen.make_case(ctx.seed, i, times)
            allcases.append({"id": f"matchint:{ctx.seed}:{i}", "src": msrc, "sx": None, "inputs": minp, "times": times})
        gstats["matchint_programs"] += 150 if ctx.tier == "quick" else 2000
    if not args.replay:
        import arrgen      # arrays with stateful index / element expressions (tools/gen/arrgen.py): VM against WASM
        for c in arrgen.make(ctx.seed, 60 if ctx.tier == "quick" else 180):
            allcases.append(dict(c, times=times, inputs=[]))
        gstats["array_programs"] += 60 if ctx.tier == "quick" else 180
    # corpus stream: every shipped source that both backends accept, plus token-level mutants (constants, operators)
    corpus_stats = collections.Counter()
    if not args.replay:
        import corpusmut
        rng = coregen.Rng(ctx.seed * 48271 + 11)
        files = corpusmut.shipped_files(REPO if os.path.isdir(os.path.join(REPO, "lib")) else "/repo")
        base = [{"id": "file:" + f, "src": open(f).read(), "sx": None, "times": times, "inputs": [[0.5]] * times, "path": f} for f in files]
        bres = pc.run_batch(base, want_model=False)
        nmut = 6 if ctx.tier == "quick" else 60
        for b in base:
            vm, wasm, _ = bres[b["id"]]
            corpus_stats["files"] += 1
            if not (vm.startswith("ok") and wasm.startswith("ok") and len(vm.split(" ")) > 3 and vm.split(" ")[2] != "0"):
                corpus_stats["files_skipped_" + vm.split(" ")[0]] += 1      # needs plugins / include paths / has no dsp
                continue
            allcases.append(b)
            for j in range(nmut):
                kind, m = corpusmut.mutate(b["src"], rng)
                if m and m != b["src"]:
                    allcases.append({"id": f"{b['id']}#{j}{kind}", "src": m, "sx": None, "times": times, "inputs": b["inputs"], "path": b["path"]})
                    corpus_stats["mutants"] += 1
    res = pc.run_batch(allcases, want_mir=True)
    failures, stats, nontriv, samples = [], collections.Counter(), set(), []
    mir_matrix, mir_bad, mir_uns = collections.Counter(), [], collections.Counter()
    for c in allcases:
        vm, wasm, model, mir = res[c["id"]]
        mir_matrix[("generated " if "prog" in c else "corpus ") + pc.mir_class(vm, wasm, model, mir)] += 1
        if mir is not None and mir.startswith("unsupported"):
            mir_uns[("generated " if "prog" in c else "corpus ") + mir.split(" (")[0][:50]] += 1
        mv = pc.mir_verdict(vm, wasm, model, mir)
        if mv is not None:
            mir_bad.append((c, mv, vm, wasm, model, mir))
        stats["evaluations"] += 1
        stats["class_vm_" + vm.split(" ")[0]] += 1
        stats["class_wasm_" + wasm.split(" ")[0]] += 1
        why = judge(vm, wasm, model)
        if why is None:
            if pc.nontrivial(vm):
                nontriv.add(hash(c["src"]))
                if len(samples) < 4 and stats["evaluations"] % 131 == 7:
                    samples.append({"src": c["src"], "inputs": c["inputs"][:3], "vm": vm[:160], "wasm": wasm[:160]})
        else:
            failures.append((c, why, vm, wasm, model))
    for k, vm, wasm, model in pc.replay_known(known):
        why = judge(vm, wasm, model if k.get("sx") else None)
        if why is not None:
            ctx.known_finding(f"{k['id']} {k['what']} [still fails: {why}]")
        else:
            ctx.notes.append(f"known finding {k['id']} no longer reproduces")
    if failures:
        failures.sort(key=lambda f: len(f[0]["src"]))
        c, why, vm, wasm, model = failures[0]
        mir = res[c["id"]][3]
        nv, nw = pc.norm_impl(vm), pc.norm_impl(wasm)
        rep = {"src": c["src"], "sx": c.get("sx"), "inputs": c["inputs"], "times": c["times"], "scheduler": c.get("scheduler", False),
               "why": why, "vm": vm[:2000], "wasm": wasm[:2000], "model": (model or "")[:2000], "failing_cases": len(failures), "case_id": c["id"],
               "mir_run": (mir or "")[:2000],
               "localised_by_mir_run": ("wasmgen / WASM runtime (the MIR run agrees with the VM)" if mir == nv and mir != nw else
                                        "bytecodegen / VM (the MIR run agrees with WASM)" if mir == nw and mir != nv else
                                        "mirgen or earlier (the MIR run agrees with both back ends)" if mir == nv == nw else
                                        "unclear: MIR run " + str(mir)[:80])}
        if "prog" in c:
            def still(src, sx, inputs):
                r = pc.run_batch([{"id": "s", "src": src, "sx": sx, "inputs": inputs, "times": c["times"], "scheduler": c.get("scheduler", False)}], nshards=1)["s"]
                return judge(*r) == why
            rep["shrunk"] = pc.shrink_case(c, still)
            rep["src"], rep["sx"] = rep["shrunk"]["src"], rep["shrunk"]["sx"]
        ctx.violation(f"VM and WASM disagree ({why}) on {len(failures)} generated programs; smallest:\n{rep['src']}", rep)
    if mir_bad and not failures:
        mir_bad.sort(key=lambda f: len(f[0]["src"]))
        c, mv, vm, wasm, model, mir = mir_bad[0]
        ctx.violation(f"the Lean MIR semantics ({mv}) disagrees with VM, WASM (and the reference semantics where there is one), which agree with each other, on "
                      f"{len(mir_bad)} programs (defect of Model/Mir.lean or of the dump, to be fixed); smallest:\n{c['src']}",
                      {"src": c["src"], "sx": c.get("sx"), "inputs": c["inputs"], "times": c["times"], "why": mv, "vm": vm[:2000], "wasm": wasm[:2000],
                       "model": (model or "")[:2000], "mir_run": (mir or "")[:2000], "failing_cases": len(mir_bad), "case_id": c["id"]}, found_input=False)
    gen_n = sum(1 for c in allcases if "prog" in c)
    gen_uns = sum(v for k, v in mir_uns.items() if k.startswith("generated "))
    if not args.replay and gen_n and gen_uns * 10 > gen_n:
        ctx.violation(f"the Lean MIR semantics does not cover {gen_uns} of {gen_n} generated programs (> 10 %): {dict(mir_uns.most_common(5))}",
                      {"stage": "correspond", "unsupported": dict(mir_uns)}, found_input=False)
    if not proved and not failures:
        ctx.violation("proof obligation broken: " + "; ".join(ctx._broken), {"stage": "prove", "theorems": ctx._broken,
                      "lake": getattr(ctx, "_lake_errors", "")}, found_input=False)
    ctx.coverage.update({
        "evaluations": stats["evaluations"],
        "distinct_nontrivial": len(nontriv),
        "rule": "type-directed random scalar programs with state run for %d samples on VM and WASM (with dsp input streams; a share with the scheduler plugin installed); "
                "compared: accept/reject class, channel counts, every sample bitwise (NaN = NaN), and both against the Lean reference semantics; "
                "non-trivial = accepted, equal, output not constant over time; distinct = distinct source text" % times,
        "samples": samples or [{"note": "replay mode"}],
        "traces_validated_against_impl": stats["evaluations"],
        "disagreements": len(failures),
        "outcome_classes": {k: v for k, v in stats.items() if k.startswith("class_")},
        "construct_counts": dict(gstats),
        "corpus": dict(corpus_stats),
        "mir_semantics_matrix": {"what": "fourth opinion: the Lean MIR semantics (Model/Mir.lean) run on the dump of the MIR the real compiler produced, per "
                                         "program against VM, WASM and (generated programs) the reference semantics; bitwise, every sample",
                                 "cells": dict(sorted(mir_matrix.items())), "unsupported": dict(mir_uns), "model_defects": len(mir_bad)},
    })
    ctx.finish("proof")
