"""C12 — long-running programs do not accumulate closures or heap objects."""
import collections, tempfile
from vlib import *
sys.path.insert(0, os.path.join(VERIF, "tools", "gen"))
import closgen

MODULES = ["Mimium.Props.C12"]
N0 = 16            # frames before this one are warm-up (conditions of generated programs settle before sample 8)
WORK = os.path.join(VERIF, "work", "c12")


def run_cases(cases, n, nshards=None):
    """cases: dicts with id, src, scheduler, [times]. Runs the real VM (harness c12, 2n samples) and pipes its traffic
    into the Lean judge. Returns id -> dict(verdict, fields, illegal, mismatch, crash)"""
    os.makedirs(WORK, exist_ok=True)
    nshards = nshards or min(NCPU, max(1, len(cases) // 4))
    shards = [cases[i::nshards] for i in range(nshards)]
    harness = os.environ.get("C12_HARNESS", os.path.join(BIN, "c12"))

    def work(sh):
        if not sh:
            return {}
        inp = "".join(json.dumps({"id": c["id"], "src": c["src"], "times": c.get("times", 2 * n),
                                  "scheduler": c.get("scheduler", False)}) + "\n" for c in sh)
        with tempfile.NamedTemporaryFile("w", dir=WORK, suffix=".jsonl", delete=False) as f:
            f.write(inp)
            path = f.name
        try:
            p = run(f"{harness} < {path} | {os.path.join(LEANBIN, 'drv_c12')} {N0} {n}", timeout=7200)
        finally:
            os.unlink(path)
        res = {}
        for l in p.stdout.splitlines():
            f = l.split("\t")
            if len(f) >= 3 and f[1] == "skip":
                res[f[0]] = {"verdict": "skip", "status": f[2], "fields": {}}
            elif len(f) >= 6:
                fields = dict(kv.split("=", 1) for kv in f[2].split(" ") if "=" in kv)
                res[f[0]] = {"verdict": f[1], "fields": fields, "illegal": f[3], "mismatch": f[4], "crash": f[5]}
        missing = [c for c in sh if c["id"] not in res]
        if missing and len(sh) > 1:
            # the harness process died (abort / stack overflow): run what is left one program per process
            for c in missing:
                res.update(work([c]))
        for c in missing:
            res.setdefault(c["id"], {"verdict": "crash", "fields": {}, "illegal": "-", "mismatch": "-",
                                     "crash": "harness-died rc=%s %s" % (p.returncode, p.stderr[-300:].replace("\n", " "))})
        return res
    out = {}
    for r in parallel(shards, work, nproc=nshards):
        out.update(r)
    return out


def check_witnesses(ctx):
    """the traces the Lean theorems `C12_witness_*` are about must be what the real VM does in the first sample of the
    corresponding corpus program"""
    q = driver("C12", ["witnesses"])
    lean = dict(l.split("\t") for l in q.stdout.splitlines() if "\t" in l)
    bad = []
    for name, ops in lean.items():
        c = json.load(open(os.path.join(VERIF, "corpus", "C12", name + ".json")))
        p = mmh("C12", [], input=json.dumps({"id": name, "src": c["src"], "times": 1, "scheduler": c.get("scheduler", False)}) + "\n")
        first = [l[2:] for l in p.stdout.splitlines() if l.startswith("s ") or l == "s"]
        impl = " ".join(tok.split("=")[0] for tok in (first[0].split(" ") if first else []))
        if impl != ops:
            bad.append({"witness": name, "lean": ops, "implementation": impl})
    return len(lean), bad


def gen_cases(seed, plan):
    cases = []
    for prof, cnt in plan:
        for i in range(cnt):
            p = closgen.make_case(seed, i, prof)
            cases.append({"id": f"{prof}:{seed}:{i}", "src": p.src(), "scheduler": p.scheduler(), "tags": p.tags(),
                          "variants": p.variants(), "prog": p, "profile": prof})
    return cases


def periodic(r, n):
    """the statement itself, on the observed counts: live closures / heap objects after N == after 2N"""
    f = r["fields"]
    a, b = f.get("atN", "-"), f.get("at2N", "-")
    if a == "-" or b == "-":
        return None
    return a.split("/")[1] == b.split("/")[1]


def main(ctx, args):
    ctx.assumptions += [
        "hook runtime::vm::verif (cfg mimium_verif, commit 'verif hook: record heap/closure refcount traffic…') records every insert / refcount +- / remove / dereference / close on Machine::closures and Machine::heap with slot index and generation, and asserts handle validity in get_closure/get_closure_mut",
        "Model/Heap.lean is a hand port of the two reference-counted slot maps at the granularity of the hook; the tie is executed op by op: liveness, refcount after the op, the slot-map key of every insertion (free-list order, generation parity) and closures.len()/heap.len() after every sample are compared with the implementation",
        "a frame is one dsp call including the scheduler tasks run for that sample; frames >= %d are judged by the verified checker `balanced`" % N0,
        "hand-over to a pre-existing root is accepted only when count-neutral (an inserted object may outlive the frame if the frame also removes one); reachability itself is not observable from refcount traffic",
        "RuntimePrimitives for Machine (vm/primitives.rs) is not hooked (not used by the bytecode interpreter)",
    ]
    known = load_known("C12")
    known_classes = {k["class"]: k for k in known if "class" in k}
    if not extract(ctx):
        ctx.finish()
    proved = prove(ctx, MODULES)
    if proved and ctx.tier == "thorough":
        proved = leancheck(ctx, MODULES)
    if not build_harness(ctx):
        ctx.finish()
    quick = ctx.tier == "quick"
    n = 2000 if quick else 50000
    n_leaky = 250 if quick else 500      # programs of the known leaking classes grow without bound (and so does the judge's store): the long run is kept for the others
    plan = [("balanced", 400), ("leaky", 160), ("mixed", 160), ("boxes", 200)] if quick else [("balanced", 1500), ("leaky", 500), ("mixed", 500), ("boxes", 800)]
    if args.replay:
        r = json.load(open(args.replay))
        cases = [{"id": "replay", "src": r["src"], "scheduler": r.get("scheduler", False), "tags": r.get("tags", []),
                  "variants": r.get("variants", []), "profile": "replay"}]
        n = r.get("n", n)
    else:
        cases = []
        cdir = os.path.join(VERIF, "corpus", "C12")
        for fn in sorted(os.listdir(cdir)) if os.path.isdir(cdir) else []:
            if fn.endswith(".json"):
                c = json.load(open(os.path.join(cdir, fn)))
                cases.append({"id": "corpus:" + fn[:-5], "src": c["src"], "scheduler": c.get("scheduler", False),
                              "tags": c.get("tags", []), "variants": c.get("variants", []), "profile": "corpus",
                              "expect": c.get("expect")})
        cases += gen_cases(ctx.seed, plan)
    leaky = lambda c: any(t in known_classes for t in c["tags"])
    long_cases = [c for c in cases if not leaky(c)]
    short_cases = [c for c in cases if leaky(c)]
    res = run_cases(long_cases, n)
    res.update(run_cases(short_cases, n_leaky))
    stats = collections.Counter()
    nontriv, samples, failures, hits = set(), [], [], collections.Counter()
    tagdist = collections.Counter()
    notcompiled = []
    for c in cases:
        r = res[c["id"]]
        v = r["verdict"]
        stats["evaluations"] += 1
        stats["verdict_" + v] += 1
        for t in c["tags"]:
            tagdist[t] += 1
        f = r["fields"]
        if v == "skip":
            st = r.get("status", "")
            if c.get("expect") == "compile-panic":
                stats["known_compile_panics"] += 1
            elif st.startswith("panic"):
                failures.append((c, "crash: compiler " + st[:300], r))
            else:
                stats["not_compiled"] += 1
                notcompiled.append(c["id"] + " " + st[:120])
            continue
        stats["ops_judged"] += int(f.get("ops", 0))
        stats["frames_judged"] += int(f.get("judged", 0))
        stats["frames_strictly_balanced"] += int(f.get("strict", 0))
        if int(f.get("allocs", 0)) > 0:
            nontriv.add(hash(c["src"]))
        per = periodic(r, n if not leaky(c) else n_leaky)
        if v == "balanced" and per is False:
            v = "mismatch"      # the theorem C12_balanced_periodic says this cannot happen when model == implementation
            r["mismatch"] = "balanced-but-counts-differ atN=%s at2N=%s" % (f.get("atN"), f.get("at2N"))
        if v == "balanced":
            stats["periodic_confirmed"] += 1
            if c.get("expect") == "unbalanced":
                ctx.notes.append(f"{c['id']}: recorded as a witness of a known finding but is balanced now")
            if len(samples) < 4 and int(f.get("allocs", 0)) > 0 and stats["evaluations"] % 17 == 3:
                samples.append({"id": c["id"], "tags": c["tags"], "src": c["src"], "verdict": v, "judge": {k: f[k] for k in ("samples", "ops", "allocs", "frees", "judged", "strict", "atN", "at2N")}})
        elif v == "unbalanced":
            cls = [t for t in c["tags"] if t in known_classes]
            if cls:
                for t in cls:
                    hits[known_classes[t]["id"]] += 1
                stats["known_unbalanced"] += 1
                if per is False:
                    stats["known_counts_differ_N_2N"] += 1
                if len(samples) < 7 and stats["known_unbalanced"] % 23 == 1:
                    samples.append({"id": c["id"], "tags": c["tags"], "src": c["src"], "verdict": "unbalanced (known finding " + ",".join(known_classes[t]["id"] for t in cls) + ")",
                                    "judge": {k: f[k] for k in ("first", "unbalanced", "atN", "at2N", "delta", "story")}})
            else:
                failures.append((c, "unbalanced: first unbalanced frame %s, %s of %s frames, per-frame delta (closures,heap)=%s, survivors %s, counts atN=%s at2N=%s"
                                 % (f.get("first"), f.get("unbalanced"), f.get("judged"), f.get("delta"), f.get("story"), f.get("atN"), f.get("at2N")), r))
        elif v == "unsafe":
            failures.append((c, "use-after-release / illegal refcount operation: " + r["illegal"], r))
        elif v == "crash" and c.get("expect") == "runtime-panic":
            stats["known_compile_panics"] += 1
        elif v == "crash":
            failures.append((c, "crash: " + r["crash"][:300], r))
        else:
            failures.append((c, "model-vs-implementation: " + r["mismatch"], r))
    nw, wbad = check_witnesses(ctx) if not args.replay else (0, [])
    if wbad:
        ctx.violation("the traces of the Lean witness theorems are no longer what the VM does for the witness programs: %s" % wbad[:2],
                      {"stage": "correspond", "correspondence": "C12_witness_* traces vs first sample of corpus/C12/k*.json", "differences": wbad}, found_input=False)
    # ---- decide
    if stats["not_compiled"] * 10 > len(cases):
        ctx.violation("more than 10%% of the generated programs are rejected by the compiler (generator and language drifted apart): %s" % notcompiled[:5],
                      {"stage": "generate", "correspondence": "tools/gen/closgen.py vs the compiler", "rejected": notcompiled[:40]}, found_input=False)
    if failures:
        kind = lambda w: w.split(":")[0]
        failures.sort(key=lambda x: (kind(x[1]) == "model-vs-implementation", len(x[0]["src"])))
        c, why, r = failures[0]
        rep = {"src": c["src"], "scheduler": c.get("scheduler", False), "tags": c["tags"], "variants": c.get("variants", []), "why": why,
               "n": 200, "case_id": c["id"], "failing_cases": len(failures), "judge": r.get("fields", {}),
               "other_failing": [x[0]["id"] + " " + x[1][:160] for x in failures[1:8]]}
        if "prog" in c:
            def still(q):
                rr = run_cases([{"id": "s", "src": q.src(), "scheduler": q.scheduler()}], 200, nshards=1)["s"]
                if rr["verdict"] == "unbalanced" and any(t in known_classes for t in q.tags()):
                    return False
                w = {"unbalanced": "unbalanced", "unsafe": "use-after-release / illegal refcount operation", "crash": "crash",
                     "mismatch": "model-vs-implementation", "skip": "crash"}.get(rr["verdict"])
                if rr["verdict"] == "skip" and not rr.get("status", "").startswith("panic"):
                    return False
                return w == kind(why)
            try:
                q = closgen.shrink(c["prog"], still)
                rep.update({"src": q.src(), "scheduler": q.scheduler(), "tags": q.tags(), "variants": q.variants(), "unshrunk_src": c["src"]})
            except Exception as e:
                rep["shrink_error"] = str(e)
        is_prop = kind(why) in ("unbalanced", "use-after-release / illegal refcount operation", "crash")
        ctx.violation(f"{why[:400]} ({len(failures)} failing programs); smallest:\n{rep['src']}", rep, found_input=is_prop)
    if not proved and not failures:
        ctx.violation("proof obligation broken: " + "; ".join(ctx._broken), {"stage": "prove", "theorems": ctx._broken,
                      "lake": getattr(ctx, "_lake_errors", "")}, found_input=False)
    # each open finding's own witness is replayed (corpus) — print its line and notice when it stops failing
    for k in known:
        wid = "corpus:" + k.get("witness", "?")
        wr = res.get(wid)
        state = "?"
        if wr is not None:
            f = wr["fields"]
            state = f"witness {wr['verdict']} delta={f.get('delta')} atN={f.get('atN')} at2N={f.get('at2N')}"
            if wr["verdict"] == "balanced":
                ctx.notes.append(f"known finding {k['id']} no longer reproduces on its witness")
        if args.replay is None or hits.get(k["id"]):
            ctx.known_finding(f"{k['id']} {k['what']} [{state}; generated programs of this class unbalanced this run: {hits.get(k['id'], 0)}]")
    ctx.coverage.update({
        "evaluations": stats["evaluations"],
        "distinct_nontrivial": len(nontriv),
        "rule": "generated programs (closures created in dsp, higher-order calls, returned closures / tuples of closures, boxed recursive variants, scheduled tasks; wrapped in helper functions, if arms, lambda bodies, blocks) run 2N samples on the real VM (N=%d; N=%d for programs of the known leaking classes); every recorded refcount operation is replayed on the Lean model and compared (liveness, refcount, predicted slot-map key, live counts after every sample), every frame >= %d is judged by the verified checker `balanced`, and the observed counts at N and 2N are compared; non-trivial = the program allocated at least one closure or heap object during the run; distinct = distinct source text" % (n, n_leaky, N0),
        "samples": samples or [{"note": "replay mode"}],
        "traces_validated_against_impl": stats["evaluations"] - stats["verdict_skip"],
        "refcount_ops_replayed_on_model": stats["ops_judged"],
        "frames_judged": stats["frames_judged"],
        "frames_strictly_balanced": stats["frames_strictly_balanced"],
        "programs_balanced_and_periodic": stats["periodic_confirmed"],
        "programs_unbalanced_known_classes": stats["known_unbalanced"],
        "known_class_programs_with_count_N_ne_2N": stats["known_counts_differ_N_2N"],
        "programs_rejected_by_compiler": stats["not_compiled"],
        "model_impl_disagreements": stats["verdict_mismatch"],
        "lean_witness_traces_compared_with_impl": nw,
        "use_after_release_or_illegal_ops": stats["verdict_unsafe"],
        "input_distribution": {"by_construct_class": dict(sorted(tagdist.items())),
                               "by_verdict": {k[8:]: v for k, v in stats.items() if k.startswith("verdict_")},
                               "by_profile": dict(collections.Counter(c["profile"] for c in cases))},
        "failures": len(failures),
    })
    ctx.finish("proof")
