"""C02 — core language follows call-by-value semantics with per-call-site state (VM vs the Lean reference semantics)."""
import collections
from vlib import *
import progcheck as pc

MODULES = ["Mimium.Props.C02"]
PROFILES_QUICK = [("core", 2500), ("deep", 600), ("stateless", 400), ("aggr", 500), ("closure_assign", 300), ("nested", 400), ("nested_assign", 900)]
PROFILES_THOROUGH = [("core", 12000), ("deep", 3000), ("stateless", 2000), ("aggr", 5000), ("closure_assign", 3000), ("nested", 3000), ("nested_assign", 8000)]


def corpus_cases(pid):
    """corpus/<pid>/*.json: hand-written programs (with their S-expression when the model is to judge them), run first"""
    d = os.path.join(VERIF, "corpus", pid)
    out = []
    for fn in sorted(os.listdir(d)) if os.path.isdir(d) else []:
        if fn.endswith(".json"):
            c = json.load(open(os.path.join(d, fn)))
            out.append({"id": "corpus:" + fn[:-5], "src": c["src"], "sx": c.get("sx"), "inputs": c.get("inputs", []), "times": c.get("times", 4)})
    return out


def judge(vm, model):
    """None if the VM output equals the reference semantics, else a short reason"""
    if model is not None and model.startswith("skip:"):
        return None         # too expensive for the reference evaluator (counted in the evidence)
    if model is None or not model.startswith("ok"):
        return "model-error:" + str(model)
    if not vm.startswith("ok"):
        return "vm-" + vm.split(" ")[0]
    return None if pc.norm_impl(vm) == model else "output-differs"


# `callproj*`: projections of calls of pair-returning functions as operands / arguments (two results of one function alive at once;
# on WASM they were the same words: repaired finding G8-WSM of C01; the reference semantics judges the VM here)
PROFILES_QUICK += [("callproj", 400), ("callproj_lam", 200)]
PROFILES_THOROUGH += [("callproj", 4000), ("callproj_lam", 2000)]


def main(ctx, args, pid="C02", backend="vm"):
    ctx.assumptions += [
        "Model/Core.lean is the reference semantics (hand written from the language documentation and the code); generated programs stay in its fragment",
        "floating point: the model computes with Lean's Float (C double); only exactly rounded operations (+,-,*,/,sqrt,abs,comparisons) are generated",
        "the generator (tools/gen/coregen.py) renders one Python AST to mimium source and to the S-expression the model reads",
        "known findings steer the generator: lambdas stateless (F11); stateful constructs inside `if` arms are generated (F3 repaired)",
    ]
    known = load_known(pid)
    if not extract(ctx):
        ctx.finish()
    proved = prove(ctx, MODULES, drivers=["drv_prog", "drv_mir"])
    if proved and ctx.tier == "thorough":
        proved = leancheck(ctx, MODULES)
    if not build_harness(ctx, bins=["runprog", "mir"]):
        ctx.finish()
    times = 24 if ctx.tier == "quick" else 64
    failures, stats, gstats = [], collections.Counter(), collections.Counter()
    nontriv, samples = set(), []
    if args.replay:
        r = json.load(open(args.replay))
        cases = [{"id": "replay", "src": r["src"], "sx": r.get("sx"), "inputs": r.get("inputs", []), "times": r.get("times", 16)}]
        res = pc.run_batch(cases, backends=backend, nshards=1, want_mir=True)
        allcases = cases
    else:
        allcases = corpus_cases(pid if pid in ("C01", "C02") else "C02")
        gstats["corpus_programs"] += len(allcases)
        for prof, n in (PROFILES_QUICK if ctx.tier == "quick" else PROFILES_THOROUGH):
            cs, st = pc.gen_cases(ctx.seed, n, prof, times)
            gstats.update(st)
            allcases += cs
        res = pc.run_batch(allcases, backends=backend, want_mir=True)
    matrix, mir_bad, mir_uns = collections.Counter(), [], collections.Counter()
    for c in allcases:
        vm, wasm, model, mir = res[c["id"]]
        impl = vm if backend == "vm" else wasm
        matrix[pc.mir_class(vm, wasm, model, mir)] += 1
        if mir is not None and mir.startswith("unsupported"):
            mir_uns[mir.split(" (")[0][:60]] += 1
        mv = pc.mir_verdict(vm, wasm, model, mir)
        if mv is not None:
            mir_bad.append((c, mv, impl, model, mir))
        stats["evaluations"] += 1
        stats["class_" + impl.split(" ")[0]] += 1
        why = judge(impl, model)
        if why is None:
            if pc.nontrivial(impl):
                nontriv.add(hash(c["src"]))
                if len(samples) < 4 and stats["evaluations"] % 97 == 5:
                    samples.append({"src": c["src"], "inputs": c["inputs"][:4], "output_bits": impl[:200]})
        else:
            failures.append((c, why, impl, model))
    # known findings: replay each listed input
    for k, vm, wasm, model in pc.replay_known(known, backends=backend):
        impl = vm if backend == "vm" else wasm
        why = judge(impl, model) if k.get("sx") else ("vm-" + impl.split(" ")[0] if not impl.startswith("ok") else None)
        if why is not None:
            ctx.known_finding(f"{k['id']} {k['what']} [still fails: {why}]")
        else:
            ctx.notes.append(f"known finding {k['id']} no longer reproduces")
    if failures:
        failures.sort(key=lambda f: len(f[0]["src"]))
        c, why, impl, model = failures[0]
        mir = res[c["id"]][3]
        rep = {"src": c["src"], "sx": c.get("sx"), "inputs": c["inputs"], "times": c["times"], "why": why, "impl": impl[:2000], "model": (model or "")[:2000],
               "failing_cases": len(failures), "case_id": c["id"], "mir_run": (mir or "")[:2000],
               "localised_by_mir_run": pc.mir_localise(impl, model, mir)}
        if "prog" in c:
            def still(src, sx, inputs):
                r = pc.run_batch([{"id": "s", "src": src, "sx": sx, "inputs": inputs, "times": c["times"]}], backends=backend, nshards=1)["s"]
                return judge(r[0] if backend == "vm" else r[1], r[2]) == why
            rep["shrunk"] = pc.shrink_case(c, still)
            rep["src"], rep["sx"] = rep["shrunk"]["src"], rep["shrunk"]["sx"]
        ctx.violation(f"{backend} output differs from the reference semantics ({why}) on {len(failures)} generated programs; smallest:\n{rep['src']}", rep)
    if mir_bad and not failures:
        mir_bad.sort(key=lambda f: len(f[0]["src"]))
        c, mv, impl, model, mir = mir_bad[0]
        rep = {"src": c["src"], "sx": c.get("sx"), "inputs": c["inputs"], "times": c["times"], "why": mv, "impl": impl[:2000],
               "model": (model or "")[:2000], "mir_run": (mir or "")[:2000], "failing_cases": len(mir_bad), "case_id": c["id"]}
        ctx.violation(f"the Lean MIR semantics ({mv}) disagrees with the {backend} AND the reference semantics, which agree with each other, on "
                      f"{len(mir_bad)} programs (defect of Model/Mir.lean or of the dump, to be fixed); smallest:\n{c['src']}", rep, found_input=False)
    n_uns = sum(mir_uns.values())
    if not args.replay and allcases and n_uns * 10 > len(allcases):
        ctx.violation(f"the Lean MIR semantics does not cover {n_uns} of {len(allcases)} generated programs (> 10 %): {dict(mir_uns.most_common(5))}",
                      {"stage": "correspond", "unsupported": dict(mir_uns)}, found_input=False)
    if not proved and not failures:
        ctx.violation("proof obligation broken: " + "; ".join(ctx._broken), {"stage": "prove", "theorems": ctx._broken,
                      "lake": getattr(ctx, "_lake_errors", "")}, found_input=False)
    ctx.coverage.update({
        "evaluations": stats["evaluations"],
        "distinct_nontrivial": len(nontriv),
        "rule": "type-directed random programs (profiles core/deep/stateless: let, tuples, if, named stateful/stateless functions at several call sites, "
                "lambdas capturing and assigning variables, self, mem, delay, now, samplerate, dsp input, globals) run for %d samples; "
                "non-trivial = accepted, output equal to the model and not constant over time; distinct = distinct source text" % times,
        "samples": samples or [{"note": "replay mode"}],
        "traces_validated_against_impl": stats["evaluations"],
        "impl_vs_model_failures": len(failures),
        "outcome_classes": {k: v for k, v in stats.items() if k.startswith("class_")},
        "construct_counts": dict(gstats),
        "mir_semantics_matrix": {"what": "fourth opinion: the Lean MIR semantics (Model/Mir.lean) run on the dump of the MIR the real compiler produced, "
                                         "per program against the %s and the reference semantics (bitwise, every sample)" % backend,
                                 "cells": dict(matrix), "unsupported": dict(mir_uns), "model_defects": len(mir_bad)},
    })
    ctx.finish("proof")
