"""C16 — meaning is invariant under renaming, layout and agreeing annotations."""
import collections, re, time
from vlib import *
import progcheck as pc
sys.path.insert(0, os.path.join(VERIF, "tools", "gen"))
import coregen

MODULES = ["Mimium.Props.C16"]

# renaming pools: plain fresh names, names resembling compiler-generated ones, leading underscore, Unicode XID
def pools(extracted, avoid=()):
    gen_like = ["lambda_{i}", "__dt{i}", "record_update_temp{i}", "closure_{i}", "_mimium_tmp{i}", "state_{i}", "alloc{i}", "_mimium_global{i}", "_mimium_global_{i}", "_mimium_getnow{i}", "dsp{i}", "mimium_main{i}"]
    for g in extracted.get("generated_name_patterns", []):
        if g not in gen_like:
            gen_like.append(g)
    gen_like = [g for g in gen_like if g not in avoid]      # open known findings are replayed separately
    return {
        "fresh": ["zz{i}"],
        "generated-like": gen_like,
        "underscore": ["_{i}x", "__{i}"],
        "unicode": ["変数{i}", "é{i}", "ω_{i}"],
    }


# `_mimium_global` itself is a RESERVED word since the repair of finding F15 (the compiler wraps the program in a function of that
# name and recognises it by the name): like a keyword it is outside the renaming pools (look-alikes `_mimium_global{i}`,
# `_mimium_global_{i}` are in), and every way of binding it must be answered by the diagnostic, never by a crash or a wrong result
RESERVED_PROBES = [
    ("let", "fn dsp(){ let _mimium_global = 1.0\n _mimium_global }\n"),
    ("function", "fn _mimium_global(){ 1.0 }\nfn dsp(){ _mimium_global() }\n"),
    ("parameter", "fn f(_mimium_global){ _mimium_global + 1.0 }\nfn dsp(){ f(1.0) }\n"),
    ("global", "let _mimium_global = 2.0\nfn dsp(){ _mimium_global }\n"),
    ("lambda", "fn dsp(){ (|_mimium_global| { _mimium_global })(1.0) }\n"),
]


def reserved_probe(ctx):
    cases = [dict(id="reserved:" + n, src=src, sx=None, inputs=[], times=4) for n, src in RESERVED_PROBES]
    res = pc.run_batch(cases, want_model=False, nshards=1)
    bad = [(c, res[c["id"]]) for c in cases
           if not all(o.startswith("compile-error") and "`_mimium_global` is reserved" in o for o in res[c["id"]][:2])]
    if bad:
        c, r = bad[0]
        ctx.violation(f"the reserved identifier `_mimium_global` bound by user code ({c['id']}) is not answered by the reserved-name diagnostic "
                      f"on both back ends (vm: {r[0][:100]} | wasm: {r[1][:100]}) in {len(bad)} of {len(cases)} positions:\n{c['src']}",
                      {"orig_src": "fn dsp(){ let zz0 = 1.0\n zz0 }\n", "src": c["src"], "times": 4, "transform": "rename:reserved-word",
                       "vm": r[0][:1500], "wasm": r[1][:1500]})
    return {"positions": len(cases), "answered_by_diagnostic": len(cases) - len(bad)}


def transforms(p, rng, extracted, avoid=()):
    names = coregen.user_names(p)
    out = []
    for pool, pats in pools(extracted, avoid).items():
        ren = {}
        for i, n in enumerate(names):
            pat = pats[rng.below(len(pats))]
            ren[n] = pat.replace("{i}", str(i))
        out.append(("rename:" + pool, coregen.Knobs(rename=ren)))
    fields = coregen.field_names(p)
    if fields:
        # field renaming that reverses the alphabetical order of the fields (their storage order changes, the meaning must not)
        fr = {f: "z%02d_" % (len(fields) - i) + f for i, f in enumerate(fields)}
        out.append(("rename:fields", coregen.Knobs(fieldrename=fr)))
    # a local variable renamed to an OUTER name that its scope does not use (its own function, another function, a global,
    # a parameter): legal shadowing, capture-free; the right-hand side still means the outer binding
    sh = coregen.shadow_renames(p)
    own = [t for t in sh if t[1] == t[2]]
    picks = ([own[rng.below(len(own))]] if own else []) + [sh[rng.below(len(sh))] for _ in range(2) if sh]
    for j, (x, y, fn) in enumerate(picks):
        out.append((f"rename:shadow{j}", coregen.Knobs(rename={x: y})))
    out.append(("parens", coregen.Knobs(parens=True)))
    out.append(("layout", coregen.Knobs(comments=True, newline_in_brackets=True)))
    # pure white-space changes between the same tokens: every line in column 0 (a line may then START with `(`),
    # statements separated by `;` with nothing after it
    out.append(("layout:dedent", coregen.Knobs(dedent=True, parens=True, newline_in_brackets=True)))
    out.append(("layout:semi", coregen.Knobs(semi=True, parens=True)))
    out.append(("layout:dedent+cmt", coregen.Knobs(dedent=True, comments=True)))
    out.append(("annotate", coregen.Knobs(annotate=True)))
    out.append(("all", coregen.Knobs(parens=True, comments=True, newline_in_brackets=True, annotate=True,
                                     rename={n: "q%d_" % i + n for i, n in enumerate(names)},
                                     fieldrename={f: "w%02d_" % (len(fields) - i) + f for i, f in enumerate(fields)})))
    return out


def module_family(rng, count):
    """nested modules whose members are renamed so that members of DIFFERENT nesting levels share a name (seeded C16d: the
    unqualified reference of an inner member then bound to the enclosing module's namesake).  Unqualified references only go to
    members of the referring module itself (and to its child module by relative path), outer members are reached by absolute
    paths, so every renaming that keeps the names of one module distinct is capture-free.  Returns (orig_src, renamed_src, tag)."""
    out = []
    for k in range(count):
        depth = 2 + rng.below(2)
        mods = ["ma%d" % k, "mb%d" % k, "mc%d" % k][:depth]
        consts = [(2 + rng.below(5), 10 ** (i + 1) * (1 + rng.below(9))) for i in range(depth)]
        uses_abs = rng.chance(1, 2)

        def render(nm):
            def level(i, ind):
                pad = "  " * ind
                c, kk = consts[i]
                lines = [f"{pad}mod {mods[i]} {{"]
                lines.append(f"{pad}  pub fn {nm('h', i)}(x) {{ x * {c}.0 + {kk}.0 }}")
                lines.append(f"{pad}  pub fn {nm('e', i)}(x) {{ x + {kk * 3}.5 }}")
                if i + 1 < depth:
                    lines += level(i + 1, ind + 1)
                    body = f"{mods[i + 1]}::{nm('go', i + 1)}(x) + {nm('h', i)}(x)"
                else:
                    body = f"{nm('h', i)}({nm('e', i)}(x))"
                    if uses_abs and i > 0:
                        body += f" + {mods[0]}::{nm('h', 0)}(x)"
                lines.append(f"{pad}  pub fn {nm('go', i)}(x) {{ {body} }}")
                lines.append(f"{pad}}}")
                return lines
            return "\n".join(level(0, 0)) + f"\nfn dsp() {{ {mods[0]}::{nm('go', 0)}(now + 1.0) }}\n"
        orig = render(lambda r, i: f"{r}{i}_{k}")
        # colliding names: every role gets ONE name on a random subset of levels (at least two levels share `h`)
        share = {r: [i for i in range(depth) if rng.chance(2, 3)] for r in ("h", "e", "go")}
        share["h"] = sorted(set(share["h"]) | {depth - 1, depth - 2})
        roles = {"h": "helper", "e": "helper2", "go": "run"}
        if rng.chance(1, 3):
            roles["e"] = "helper"            # two ROLES share a name across levels (never inside one module)
            share["e"] = [i for i in share["e"] if i not in share["h"]]
        ren = render(lambda r, i: roles[r] if i in share[r] else f"{r}{i}_{k}")
        out.append((orig, ren, "rename:modules"))
    return out


# ---------------------------------------------------------------------------------------------------------------------------
# lowering correspondence: the real `parse_program` (tokenize, preparse, parse_cst, Lowerer::lower_program) vs the ported front
# end text -> tokens -> CST -> AST (Model/Lexer, Preparse, CstGrammar, Lower.lean); the printed `Program`s (every span evaluated to
# byte offsets) and the error lists are compared EXACTLY by `drv_c16`
SPAN_RE = re.compile(r"@\d+\.\.\d+")
TAG_RE = re.compile(r"[(\[]([a-z]+)")


def lower_stream(name, mmh_args, stdin_data=None):
    """returns (counts, problems, impl_lines): counts of the driver's verdicts, the disagreeing cases, the harness lines"""
    p = mmh("C13", mmh_args, input=stdin_data, env={"C13_LOWER": "1"})
    if p.returncode != 0:
        return collections.Counter(), [{"kind": "harness-crash", "stream": name, "stderr": p.stderr[-2000:]}], []
    q = driver("C16", input=p.stdout)
    if q.returncode != 0:
        return collections.Counter(), [{"kind": "driver-crash", "stream": name, "stderr": q.stderr[-2000:]}], []
    cnt, problems = collections.Counter(), []
    il = p.stdout.split("\n")
    for a, b in zip(il, q.stdout.split("\n")):
        if not a:
            continue
        g = b.split("\t")
        cnt["cases"] += 1
        cnt[g[0]] += 1
        if len(g) >= 4 and g[0] == "ok":
            if int(g[2]) > 0:
                cnt["with_statements"] += 1
            if int(g[3]) > 0:
                cnt["with_errors"] += 1
            continue
        f = a.split("\t")
        problems.append({"kind": "case", "stream": name, "agree": g[0], "lower_src_hex": f[0], "src": bytes.fromhex("" if f[0] == "-" else f[0]).decode("utf-8", "replace"),
                         "impl_program": (f[2] if len(f) > 2 else "")[:3000], "impl_errors": (f[3] if len(f) > 3 else "")[:1000],
                         "model_detail": (g[4] if len(g) > 4 else b)[:1500]})
    return cnt, problems, il


def lowering_stage(ctx, rendered, replay_hex=None):
    """rendered: list of (id, base id or None, transformation or None, source) of the generated programs of this run"""
    t0 = time.time()
    counts, problems, tags = collections.Counter(), [], collections.Counter()
    jobs = []
    if replay_hex is not None:
        jobs.append(("replay", ["lines"], replay_hex + "\n"))
    else:
        data = ""
        cdir = os.path.join(VERIF, "corpus", "C16")
        if os.path.isdir(cdir):
            for fn in sorted(os.listdir(cdir)):
                if fn.startswith("lower"):
                    data += "".join(l for l in open(os.path.join(cdir, fn)) if l.strip() and not l.startswith("#"))
        jobs.append(("corpus", ["lines"], data))
        jobs.append(("files", ["files"], None))
        quick = ctx.tier == "quick"
        jpath = os.path.join(LEAN, "Mimium", "Gen", "extracted.json")
        if quick:
            jobs += [(f"enum{k}", ["enum", "3", str(k), "2"], None) for k in range(2)]
            jobs.append(("enum4-shard", ["enum", "4", str(ctx.seed % 16), "16"], None))
            jobs.append(("tokseq-full2", ["tokseq", jpath, "full", "2", "sep", "0", "1"], None))
            jobs.append(("tokseq-full3-shard", ["tokseq", jpath, "full", "3", "sep", str(ctx.seed % 24), "24"], None))
            jobs += [(f"tokseq-core4-{k}", ["tokseq", jpath, "core", "4", "sep", str(k), "2"], None) for k in range(2)]
            jobs.append(("tokseq-nosep", ["tokseq", jpath, "full", "2", "nosep", "0", "1"], None))
            jobs += [(f"rand{i}", ["rand", str(ctx.seed * 1000 + 500 + i), "8000", str(4 + 8 * i)], None) for i in range(4)]
            scope = ("all strings of length <= 3 over C13's 24-symbol alphabet + 1/16 of length 4; all sequences of <= 2 tokens over the 70 "
                     "spellings of C04's alphabet + 1/24 of length 3; <= 4 tokens over its 14-kind core; <= 2 without separator")
        else:
            jobs += [(f"enum{k}", ["enum", "4", str(k), "16"], None) for k in range(16)]
            jobs += [(f"tokseq-full{k}", ["tokseq", jpath, "full", "3", "sep", str(k), "24"], None) for k in range(24)]
            jobs += [(f"tokseq-core{k}", ["tokseq", jpath, "core", "5", "sep", str(k), "16"], None) for k in range(16)]
            jobs.append(("tokseq-nosep", ["tokseq", jpath, "full", "2", "nosep", "0", "1"], None))
            jobs += [(f"rand{i}", ["rand", str(ctx.seed * 1000 + 500 + i), "40000", str(4 + 6 * (i % 8))], None) for i in range(32)]
            scope = ("all strings of length <= 4 over C13's 24-symbol alphabet; all sequences of <= 3 tokens over the 70 spellings of C04's "
                     "alphabet and <= 5 over its 14-kind core; <= 2 without separator")
        ctx.coverage["lowering_exhaustive_scope"] = scope
        nsh = 6
        for k in range(nsh):
            part = rendered[k::nsh]
            if part:
                jobs.append((f"generated{k}", ["lines"], "".join((src.encode().hex() or "-") + "\n" for _, _, _, src in part), part))

    def work(job):
        cnt, pr, il = lower_stream(job[0], job[1], job[2])
        return job, cnt, pr, il
    same_ast, layout_pairs, per_tf = 0, 0, collections.Counter()
    gen_ast = {}
    for job, cnt, pr, il in parallel(jobs, work):
        counts.update(cnt)
        problems += pr
        if job[0] in ("files", "corpus") or job[0].startswith("rand0") or job[0].startswith("generated0"):
            for a in il:
                f = a.split("\t")
                if len(f) > 2:
                    tags.update(TAG_RE.findall(f[2]))
        if len(job) > 3:          # generated programs: remember the real AST modulo spans per rendering
            for (cid, base, tname, src), a in zip(job[3], [l for l in il if l]):
                f = a.split("\t")
                gen_ast[cid] = (base, tname, SPAN_RE.sub("", f[2]) if len(f) > 2 else "?")
    # layout renderings of one program: same real AST modulo spans?  (parentheses are dropped by lower.rs, see C16_lower_parens_transparent)
    for cid, (base, tname, ast) in gen_ast.items():
        if base is None or not (tname == "parens" or tname.startswith("layout")):
            continue
        layout_pairs += 1
        per_tf[tname] += 1
        if base in gen_ast and gen_ast[base][2] == ast:
            same_ast += 1
            per_tf[tname + ":same-ast"] += 1
    bad = [pr for pr in problems if pr["kind"] != "case"]
    for pr in bad:
        ctx.violation(f"lowering correspondence: {pr['kind']} in stream {pr.get('stream')}", pr, found_input=False)
    dis = [pr for pr in problems if pr["kind"] == "case"]
    if dis:
        best = min(dis, key=lambda pr: len(pr["lower_src_hex"]))
        ctx.violation(f"lowering: ported front end (Model/Lower.lean) and the real parse_program disagree on {len(dis)} cases "
                      f"({best['agree']}; smallest src={best['src']!r}): {best['model_detail'][:400]}",
                      dict(best, correspondence="Model/Lexer+Preparse+CstGrammar+Lower.lean vs mimium_lang::compiler::parser::parse_program",
                           cases=len(dis), by_class=dict(collections.Counter(pr["agree"] for pr in dis)),
                           replay_cmd="./check C16 --replay <this file>"), found_input=False)
    ctx.coverage["lowering_correspondence"] = {
        "what": "printed Program (statements, expressions, patterns, types, match patterns, every span as byte offsets) and error list (parser "
                "errors + reserved-name diagnostics) of the real parse_program == ported front end text -> tokens -> CST -> AST, compared as strings",
        "cases": counts["cases"], "agree": counts["ok"],
        "disagreements": {k: v for k, v in counts.items() if k.startswith("DIFF") or k == "bad-input"},
        "cases_with_statements": counts["with_statements"], "cases_with_errors(error-recovery trees)": counts["with_errors"],
        "generated_renderings_compared": len(gen_ast),
        "ast_constructs_seen(files+corpus+samples)": dict(tags.most_common()),
        "layout_renderings_with_the_original's_AST_modulo_spans(real code)": f"{same_ast}/{layout_pairs}",
        "per_transformation": dict(per_tf),
        "wall_s": round(time.time() - t0, 1),
    }
    return counts


def main(ctx, args):
    ctx.assumptions += [
        "Model/Lower.lean is a port of lower.rs + ast/statement.rs (attribute-grammar organisation of the recursion, spans as terms over the token "
        "leaves); the tie is the exact comparison of the printed Program + error list with the real parse_program on every case of the lowering "
        "streams, plus the body-hash pins of tools/extract.py (gen_lower / tools/lower_pins.json, theorem C16_lower_functions_pinned)",
        "transformations are applied by the generator's renderer to one AST (injective rename maps, capture-free shadowing renamings of one local, redundant parentheses around every binary expression, comments/blank lines/line breaks inside brackets, type annotations equal to the types the generator knows)",
        "reference = the untransformed program on the same backend (VM) and the Lean reference semantics",
    ]
    known = load_known("C16")
    if not extract(ctx):
        ctx.finish()
    extracted = json.load(open(os.path.join(LEAN, "Mimium", "Gen", "extracted.json")))
    proved = prove(ctx, MODULES, drivers=["drv_prog", "drv_c16"])
    if proved and ctx.tier == "thorough":
        proved = leancheck(ctx, MODULES)
    if not build_harness(ctx, bins=["runprog"]):
        ctx.finish()
    if args.replay and "lower_src_hex" in json.load(open(args.replay)):
        lowering_stage(ctx, [], replay_hex=json.load(open(args.replay))["lower_src_hex"])
        if not proved:
            ctx.violation("proof obligation broken: " + "; ".join(ctx._broken), {"stage": "prove", "theorems": ctx._broken,
                          "lake": getattr(ctx, "_lake_errors", "")}, found_input=False)
        ctx.finish("proof")
    times = 12
    nprog = 600 if ctx.tier == "quick" else 6000
    rng = coregen.Rng(ctx.seed * 31337 + 5)
    cases, meta = [], {}
    if args.replay:
        r = json.load(open(args.replay))
        cases = [dict(id="orig", src=r["orig_src"], sx=r.get("sx"), inputs=r.get("inputs", []), times=r.get("times", 12)),
                 dict(id="orig|replayed-transform", src=r["src"], sx=None, inputs=r.get("inputs", []), times=r.get("times", 12))]
        meta["orig|replayed-transform"] = ("orig", r.get("transform", "?"))
    else:
        progs, _ = pc.gen_cases(ctx.seed, nprog * 2 // 3, "core", times)
        progs2, _ = pc.gen_cases(ctx.seed, nprog - nprog * 2 // 3, "rec", times, start=nprog)
        progs += progs2
        for pr in progs:
            cases.append(pr)
            for tname, kn in transforms(pr["prog"], rng, extracted, [k["avoid_name_pattern"] for k in known if "avoid_name_pattern" in k]):
                cid = pr["id"] + "|" + tname
                cases.append(dict(id=cid, src=pr["prog"].src(kn), sx=None, inputs=pr["inputs"], times=times))
                meta[cid] = (pr["id"], tname)
    if not args.replay:
        for j, (o_src, r_src, tname) in enumerate(module_family(rng, 40 if ctx.tier == "quick" else 400)):
            cases.append(dict(id=f"mod{j}", src=o_src, sx=None, inputs=[], times=4))
            cases.append(dict(id=f"mod{j}|{tname}", src=r_src, sx=None, inputs=[], times=4))
            meta[f"mod{j}|{tname}"] = (f"mod{j}", tname)
    if not args.replay:
        lowering_stage(ctx, [(c["id"],) + (meta[c["id"]] if c["id"] in meta else (None, None)) + (c["src"],) for c in cases])
    res = pc.run_batch(cases, backends="vm")
    failures, stats, nontriv, samples = [], collections.Counter(), set(), []
    bycase = {c["id"]: c for c in cases}
    for cid, (oid, tname) in meta.items():
        stats["evaluations"] += 1
        o_vm, _, o_model = res[oid]
        t_vm = res[cid][0]
        stats["tf_" + tname.split(":")[0]] += 1
        if pc.norm_impl(o_vm) != pc.norm_impl(t_vm):
            failures.append((cid, oid, tname, o_vm, t_vm))
        else:
            if o_model is not None and o_vm.startswith("ok") and pc.norm_impl(o_vm) != o_model:
                stats["orig_differs_from_model"] += 1
            if pc.nontrivial(o_vm):
                nontriv.add(hash(bycase[cid]["src"]))
                if len(samples) < 3 and stats["evaluations"] % 301 == 7:
                    samples.append({"transform": tname, "src": bycase[cid]["src"][:1200]})
    reserved_cov = reserved_probe(ctx) if not args.replay else {}
    kcases = [dict(id=k["id"] + "|o", src=k["orig_src"], sx=None, inputs=[], times=k.get("times", 4)) for k in known if "src" in k] + \
             [dict(id=k["id"] + "|t", src=k["src"], sx=None, inputs=[], times=k.get("times", 4)) for k in known if "src" in k]
    kres = pc.run_batch(kcases, backends="vm", want_model=False, nshards=1) if kcases else {}
    for k in known:
        if "src" not in k:
            continue
        a, b = kres[k["id"] + "|o"][0], kres[k["id"] + "|t"][0]
        if pc.norm_impl(a) != pc.norm_impl(b):
            ctx.known_finding(f"{k['id']} {k['what']} [still fails: {a.split(' ')[0]} vs {b[:60]}]")
        else:
            ctx.notes.append(f"known finding {k['id']} no longer reproduces")
    if failures:
        failures.sort(key=lambda f: len(bycase[f[0]]["src"]))
        cid, oid, tname, o_vm, t_vm = failures[0]
        rep = {"transform": tname, "orig_src": bycase[oid]["src"], "src": bycase[cid]["src"], "sx": bycase[oid].get("sx"),
               "inputs": bycase[oid]["inputs"], "times": times, "orig_outcome": o_vm[:1500], "transformed_outcome": t_vm[:1500],
               "failing_cases": len(failures), "by_transform": dict(collections.Counter(f[2] for f in failures))}
        ctx.violation(f"transformation `{tname}` changed the outcome ({o_vm.split(' ')[0]} -> {t_vm[:80]}) in {len(failures)} cases; smallest transformed program:\n{rep['src']}", rep)
    if not proved and not failures:
        ctx.violation("proof obligation broken: " + "; ".join(ctx._broken), {"stage": "prove", "theorems": ctx._broken,
                      "lake": getattr(ctx, "_lake_errors", "")}, found_input=False)
    ctx.coverage.update({
        "evaluations": stats["evaluations"],
        "distinct_nontrivial": len(nontriv),
        "rule": "each generated core program (a third with a self-recursive function) x up to 11 transformations (4 renaming pools incl. compiler-generated-looking, underscore and Unicode names; up to 3 shadowing renamings: a let-bound local takes the name of its own function / another function / a global / a parameter that its scope does not use; redundant parentheses; comments/blank lines/line breaks in brackets; agreeing annotations; all together): accept/reject class and every output sample must equal those of the untransformed program; non-trivial = output not constant over time",
        "samples": samples or [{"note": "replay mode"}],
        "traces_validated_against_impl": stats["evaluations"],
        "failures": len(failures),
        "per_transform": {k: v for k, v in stats.items() if k.startswith("tf_")},
        "orig_differs_from_model": stats["orig_differs_from_model"],
        "reserved_word__mimium_global": reserved_cov,
    })
    ctx.finish("proof")
